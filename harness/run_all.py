"""Run every claimed check (MANIFEST.json) once and summarise. usage: run_all.py [quick|thorough] [seed] [ids…]"""
import json
import os
import subprocess
import sys
import time

VERIF = os.path.dirname(os.path.dirname(os.path.abspath(__file__)))
tier = sys.argv[1] if len(sys.argv) > 1 else "quick"
seed = sys.argv[2] if len(sys.argv) > 2 else "0"
only = set(sys.argv[3:])
m = json.load(open(os.path.join(VERIF, "MANIFEST.json")))
bad = 0
for c in m["checks"]:
    pid = c["property_id"]
    if only and pid not in only:
        continue
    cmd = c["quick_cmd"] if tier == "quick" else c["thorough_cmd"]
    t0 = time.time()
    p = subprocess.run(cmd, shell=True, cwd=VERIF, capture_output=True, text=True, env=dict(os.environ, VERIF_SEED=seed, VERIF_TIER=tier))
    lines = [l for l in p.stdout.split("\n") if l.startswith("VIOLATION") or l.startswith("HARNESS")]
    known = sum(1 for l in p.stdout.split("\n") if l.startswith("KNOWN-FINDING"))
    ev = {}
    try:
        ev = json.load(open(os.path.join(VERIF, "evidence", pid + ".json")))["coverage"]
    except Exception:  # noqa: BLE001
        pass
    print(f"{pid} exit={p.returncode} {time.time()-t0:6.1f}s obl={ev.get('discharged')}/{ev.get('obligations')} cases={ev.get('evaluations')} "
          f"disagree={ev.get('correspondence_disagreements')} known_lines={known} {' | '.join(lines)[:160]}", flush=True)
    if p.returncode != 0:
        bad += 1
        print(p.stdout[-600:], p.stderr[-600:])
sys.exit(1 if bad else 0)
