"""A small constant-expression evaluator over the `ast` of /repo's source (nothing of /repo is imported or executed).

Used by harness/translate.py (tables and numeric limits) and as the fall-back of `rxscan.str_const` (pattern texts), so
that a constant can be found again after a behaviour-preserving rewrite of its definition: a tuple written as
`tuple(b"...")`, an alphabet composed from the `string` module, `2**32 - 1` instead of the literal, a dict built by
`dict(zip(...))`, an f-string instead of `%`-formatting, a literal hoisted into a class or module constant ...

What is evaluated
-----------------
* literals of every kind (`str`, `bytes`, numbers, `None`, booleans), tuples / lists / sets / dicts (with `*` / `**`
  unpacking), subscripts and slices of evaluable values;
* `+ - * ** % // / | & ^ << >>` and unary `- + ~ not` on evaluable values (`%` on a `str` formats), comparisons,
  `and` / `or`, conditional expressions;
* f-strings (conversions and format specs included), `"...".format(...)`, `"...".join(...)` and a white list of other
  side-effect free methods of `str`, `bytes`, `dict`, `list`, `tuple`, `set`, `frozenset`, `int`;
* the builtins `tuple list set frozenset sorted bytes bytearray str len range dict zip int float ord chr min max sum
  enumerate reversed abs bool hex oct bin repr divmod round any all` (only when the name is not rebound in the source),
  `re.escape`, `str.maketrans`, `bytes.fromhex`, `dict.fromkeys`, `itertools.chain`;
* list / set / dict comprehensions and generator expressions over evaluable iterables;
* `string.<name>`, `re.<FLAG>`, `sys.version_info`, `sys.maxsize`;
* names: resolved by `rxscan.Scope` — the enclosing function (only when every binding of the name in that function is
  evaluable and has one and the same value), the class body, the module's top level (also inside top-level `if` /
  `try`), another module of the package the name is imported from; `self.X` / `cls.X` / `<ClassOfTheFile>.X`.

A name bound to a list / dict / set that the source also mutates (`X.append(...)`, `X[k] = ...`, `del X[k]`) is NOT a
constant.  Anything else raises `NotConstant`; the caller then falls back to its dynamic path or reports a translator
PROBLEM — an expression is never guessed.
"""
import ast
import itertools
import re as _re
import string as _string
import sys

import rxscan
from rxscan import NotConstant

MAX_ITER = 200000
MAX_POW_BITS = 1 << 16

SAFE_BUILTINS = {
    "tuple": tuple, "list": list, "set": set, "frozenset": frozenset, "sorted": sorted, "bytes": bytes,
    "bytearray": bytearray, "str": str, "len": len, "range": range, "dict": dict, "zip": zip, "int": int,
    "float": float, "ord": ord, "chr": chr, "min": min, "max": max, "sum": sum, "enumerate": enumerate,
    "reversed": reversed, "abs": abs, "bool": bool, "hex": hex, "oct": oct, "bin": bin, "repr": repr,
    "divmod": divmod, "round": round, "any": any, "all": all,
}
STRING_NAMES = ("ascii_letters", "ascii_lowercase", "ascii_uppercase", "digits", "hexdigits", "octdigits",
                "punctuation", "printable", "whitespace")
METHODS = {
    str: {"format", "join", "upper", "lower", "strip", "lstrip", "rstrip", "split", "rsplit", "splitlines", "replace",
          "encode", "title", "capitalize", "zfill", "ljust", "rjust", "center", "translate", "expandtabs",
          "removeprefix", "removesuffix", "casefold", "swapcase", "partition", "rpartition", "startswith", "endswith",
          "count", "find", "rfind", "index", "rindex", "isdigit", "isalpha", "isalnum", "isspace", "format_map"},
    bytes: {"decode", "hex", "upper", "lower", "split", "join", "replace", "strip", "lstrip", "rstrip", "startswith",
            "endswith", "count", "find", "index"},
    bytearray: {"decode", "hex"},
    dict: {"keys", "values", "items", "get", "copy"},
    list: {"index", "count", "copy"},
    tuple: {"index", "count"},
    set: {"union", "intersection", "difference", "symmetric_difference", "copy", "issubset", "issuperset", "isdisjoint"},
    frozenset: {"union", "intersection", "difference", "symmetric_difference", "copy", "issubset", "issuperset",
                "isdisjoint"},
    int: {"bit_length", "to_bytes"},
    range: {"index", "count"},
}
MUTATORS = {"append", "extend", "insert", "add", "update", "remove", "pop", "popitem", "clear", "sort", "reverse",
            "discard", "setdefault", "difference_update", "intersection_update", "symmetric_difference_update"}


def _is_stdlib_module_name(name, scope, module_name=None):
    """`name` refers to the standard library module `module_name` (default: the same name): it is imported as such at
    the top level of the file (or not bound at all — e.g. a fragment evaluated out of context) and never rebound"""
    module_name = module_name or name
    vals, _, where = scope.lookup(name)
    if where != "unbound":
        return False
    found_import = False
    for n in ast.walk(scope.module):
        if isinstance(n, ast.Import):
            for a in n.names:
                if (a.asname or a.name.split(".")[0]) == name:
                    if a.name == module_name and (a.asname in (None, name)):
                        found_import = True
                    elif a.asname == name and a.name != module_name:
                        return False
        elif isinstance(n, ast.ImportFrom):
            for a in n.names:
                if (a.asname or a.name) == name:
                    return False
    return found_import


def _materialise(v):
    """iterators are turned into lists so that a value can be evaluated twice and compared"""
    if isinstance(v, (zip, enumerate, reversed, map, filter, itertools.chain)) or type(v).__name__ in (
            "generator", "list_reverseiterator", "dict_keyiterator", "list_iterator", "tuple_iterator"):
        return list(itertools.islice(v, MAX_ITER))
    return v


def same_value(a, b):
    return type(a) is type(b) and repr(a) == repr(b)


def _mutated(name_node, scope, where):
    """is the list / dict / set bound to this name (or `self.X`) mutated anywhere it could be reached from?"""
    if isinstance(name_node, ast.Name):
        holder = scope.func if (where == "function" and scope.func is not None) else scope.module
        def is_target(n):
            return isinstance(n, ast.Name) and n.id == name_node.id
    else:
        holder = scope.cls if scope.cls is not None else scope.module
        attr = name_node.attr
        def is_target(n):
            return isinstance(n, ast.Attribute) and n.attr == attr and isinstance(n.value, ast.Name) \
                and n.value.id in ("self", "cls")
    for n in ast.walk(holder):
        if isinstance(n, ast.Call) and isinstance(n.func, ast.Attribute) and n.func.attr in MUTATORS and is_target(n.func.value):
            return True
        if isinstance(n, ast.Subscript) and isinstance(n.ctx, (ast.Store, ast.Del)) and is_target(n.value):
            return True
    return False


def ceval(node, scope, env=None, depth=0):
    """the value of a constant expression (see the module docstring); raises NotConstant otherwise"""
    if depth > 60:
        raise NotConstant("constant expression nested too deeply (a cycle?)")
    env = env or {}
    ev = lambda n, e=None: ceval(n, scope, env if e is None else e, depth + 1)  # noqa: E731

    if isinstance(node, ast.Constant):
        return node.value

    if isinstance(node, ast.Name) and node.id in env:
        return env[node.id]

    # names and self.X / cls.X
    d = rxscan.deref(node, scope)
    if d is not None:
        vals, inner, where = d
        if not vals:
            raise NotConstant(f"`{rxscan._name_of(node)}` is not bound to a constant in the function, its class or the module")
        if any(v is None for v in vals):
            raise NotConstant(f"`{rxscan._name_of(node)}` ({where}) is not a constant")
        got = []
        for v in vals:
            x = _materialise(ceval(v, inner, None, depth + 1))
            if not any(same_value(x, y) for y in got):
                got.append(x)
        if len(got) != 1:
            raise NotConstant(f"`{rxscan._name_of(node)}` ({where}) is bound to {len(got)} different constants")
        if isinstance(got[0], (list, dict, set, bytearray)) and _mutated(node, inner if where != "function" else scope, where):
            raise NotConstant(f"`{rxscan._name_of(node)}` ({where}) is mutated after its definition")
        return got[0]

    if isinstance(node, ast.Attribute):
        if isinstance(node.value, ast.Name):
            base = node.value.id
            if base == "string" and node.attr in STRING_NAMES and _is_stdlib_module_name("string", scope):
                return getattr(_string, node.attr)
            if base == "re" and node.attr in rxscan.FLAG_NAMES and _is_stdlib_module_name("re", scope):
                return int(getattr(_re, node.attr))
            if base == "sys" and node.attr in ("version_info", "maxsize") and _is_stdlib_module_name("sys", scope):
                return tuple(sys.version_info) if node.attr == "version_info" else sys.maxsize
            # <Class of the same file>.X
            for c in scope.module.body:
                if isinstance(c, ast.ClassDef) and c.name == base:
                    cs = rxscan.Scope(scope.module, c, None, scope.loader)
                    vals, inner, where = cs.lookup(node.attr)
                    if where == "class" and vals and all(v is not None for v in vals):
                        got = []
                        for v in vals:
                            x = _materialise(ceval(v, inner, None, depth + 1))
                            if not any(same_value(x, y) for y in got):
                                got.append(x)
                        if len(got) == 1:
                            return got[0]
                    raise NotConstant(f"`{base}.{node.attr}` is not a constant of the class body")
        raise NotConstant("attribute that is not a known constant: " + ast.unparse(node)[:60])

    if isinstance(node, (ast.Tuple, ast.List, ast.Set)):
        items = []
        for e in node.elts:
            if isinstance(e, ast.Starred):
                items.extend(_materialise(ev(e.value)))
            else:
                items.append(ev(e))
        return {"Tuple": tuple, "List": list, "Set": set}[type(node).__name__](items)

    if isinstance(node, ast.Dict):
        out = {}
        for k, v in zip(node.keys, node.values):
            if k is None:
                out.update(ev(v))
            else:
                out[ev(k)] = ev(v)
        return out

    if isinstance(node, ast.BinOp):
        l, r = ev(node.left), ev(node.right)
        op = type(node.op)
        try:
            if op is ast.Add:
                return l + r
            if op is ast.Sub:
                return l - r
            if op is ast.Mult:
                if isinstance(l, int) and isinstance(r, (str, bytes, list, tuple)) and l * len(r) > MAX_ITER:
                    raise NotConstant("repetition too large")
                if isinstance(r, int) and isinstance(l, (str, bytes, list, tuple)) and r * len(l) > MAX_ITER:
                    raise NotConstant("repetition too large")
                return l * r
            if op is ast.Pow:
                if isinstance(l, int) and isinstance(r, int) and r >= 0 and l.bit_length() * r > MAX_POW_BITS:
                    raise NotConstant("power too large")
                if not isinstance(r, (int, float)) or (isinstance(r, float) and abs(r) > 4096):
                    raise NotConstant("power with an exponent that is not a small number")
                return l ** r
            if op is ast.Mod:
                return l % r
            if op is ast.FloorDiv:
                return l // r
            if op is ast.Div:
                return l / r
            if op is ast.BitOr:
                return l | r
            if op is ast.BitAnd:
                return l & r
            if op is ast.BitXor:
                return l ^ r
            if op is ast.LShift:
                if isinstance(r, int) and r > MAX_POW_BITS:
                    raise NotConstant("shift too large")
                return l << r
            if op is ast.RShift:
                return l >> r
        except NotConstant:
            raise
        except Exception as e:  # noqa: BLE001
            raise NotConstant(f"{type(e).__name__} while evaluating {ast.unparse(node)[:60]}")
        raise NotConstant("operator not evaluated: " + op.__name__)

    if isinstance(node, ast.UnaryOp):
        v = ev(node.operand)
        try:
            if isinstance(node.op, ast.USub):
                return -v
            if isinstance(node.op, ast.UAdd):
                return +v
            if isinstance(node.op, ast.Invert):
                return ~v
            if isinstance(node.op, ast.Not):
                return not v
        except Exception as e:  # noqa: BLE001
            raise NotConstant(f"{type(e).__name__} while evaluating {ast.unparse(node)[:60]}")

    if isinstance(node, ast.BoolOp):
        v = None
        for i, e in enumerate(node.values):
            v = ev(e)
            if isinstance(node.op, ast.And) and not v:
                return v
            if isinstance(node.op, ast.Or) and v:
                return v
        return v

    if isinstance(node, ast.Compare):
        left = ev(node.left)
        for op, c in zip(node.ops, node.comparators):
            right = ev(c)
            try:
                ok = {ast.Eq: lambda a, b: a == b, ast.NotEq: lambda a, b: a != b, ast.Lt: lambda a, b: a < b,
                      ast.LtE: lambda a, b: a <= b, ast.Gt: lambda a, b: a > b, ast.GtE: lambda a, b: a >= b,
                      ast.In: lambda a, b: a in b, ast.NotIn: lambda a, b: a not in b,
                      ast.Is: lambda a, b: a is b, ast.IsNot: lambda a, b: a is not b}[type(op)](left, right)
            except Exception as e:  # noqa: BLE001
                raise NotConstant(f"{type(e).__name__} while evaluating {ast.unparse(node)[:60]}")
            if not ok:
                return False
            left = right
        return True

    if isinstance(node, ast.IfExp):
        return ev(node.body) if ev(node.test) else ev(node.orelse)

    if isinstance(node, ast.JoinedStr):
        out = []
        for v in node.values:
            if isinstance(v, ast.Constant):
                out.append(str(v.value))
            elif isinstance(v, ast.FormattedValue):
                x = ev(v.value)
                if v.conversion == ord("r"):
                    x = repr(x)
                elif v.conversion == ord("s"):
                    x = str(x)
                elif v.conversion == ord("a"):
                    x = ascii(x)
                spec = ev(v.format_spec) if v.format_spec is not None else ""
                try:
                    out.append(format(x, spec))
                except Exception as e:  # noqa: BLE001
                    raise NotConstant(f"{type(e).__name__} in an f-string")
            else:
                raise NotConstant("unexpected f-string part")
        return "".join(out)

    if isinstance(node, ast.Subscript):
        v = ev(node.value)
        sl = node.slice
        try:
            if isinstance(sl, ast.Slice):
                lo = ev(sl.lower) if sl.lower is not None else None
                hi = ev(sl.upper) if sl.upper is not None else None
                st = ev(sl.step) if sl.step is not None else None
                return v[lo:hi:st]
            return v[ev(sl)]
        except NotConstant:
            raise
        except Exception as e:  # noqa: BLE001
            raise NotConstant(f"{type(e).__name__} while evaluating {ast.unparse(node)[:60]}")

    if isinstance(node, (ast.ListComp, ast.SetComp, ast.GeneratorExp, ast.DictComp)):
        results = []
        count = [0]

        def bind(target, value, e):
            if isinstance(target, ast.Name):
                e[target.id] = value
            elif isinstance(target, (ast.Tuple, ast.List)):
                vals = list(value)
                if len(vals) != len(target.elts):
                    raise NotConstant("unpacking mismatch in a comprehension")
                for t, x in zip(target.elts, vals):
                    bind(t, x, e)
            else:
                raise NotConstant("comprehension target that is not a name")

        def loop(gens, e):
            if not gens:
                if isinstance(node, ast.DictComp):
                    results.append((ceval(node.key, scope, e, depth + 1), ceval(node.value, scope, e, depth + 1)))
                else:
                    results.append(ceval(node.elt, scope, e, depth + 1))
                return
            g = gens[0]
            if g.is_async:
                raise NotConstant("async comprehension")
            it = _materialise(ceval(g.iter, scope, e, depth + 1))
            try:
                seq = list(itertools.islice(iter(it), MAX_ITER + 1))
            except TypeError:
                raise NotConstant("comprehension over a value that is not iterable")
            for x in seq:
                count[0] += 1
                if count[0] > MAX_ITER:
                    raise NotConstant("comprehension too large")
                e2 = dict(e)
                bind(g.target, x, e2)
                if all(ceval(c, scope, e2, depth + 1) for c in g.ifs):
                    loop(gens[1:], e2)
        loop(node.generators, dict(env))
        if isinstance(node, ast.SetComp):
            return set(results)
        if isinstance(node, ast.DictComp):
            return dict(results)
        return results

    if isinstance(node, ast.Call):
        def args_of():
            a = []
            for x in node.args:
                if isinstance(x, ast.Starred):
                    a.extend(_materialise(ev(x.value)))
                else:
                    a.append(_materialise(ev(x)))
            kw = {}
            for k in node.keywords:
                if k.arg is None:
                    kw.update(ev(k.value))
                else:
                    kw[k.arg] = _materialise(ev(k.value))
            return a, kw

        def call(fn, a, kw):
            try:
                return _materialise(fn(*a, **kw))
            except NotConstant:
                raise
            except Exception as e:  # noqa: BLE001
                raise NotConstant(f"{type(e).__name__} while evaluating {ast.unparse(node)[:60]}")

        f = node.func
        if isinstance(f, ast.Name) and f.id == "isinstance" and len(node.args) == 2 and not node.keywords:
            types = {"str": str, "int": int, "float": float, "bool": bool, "bytes": bytes, "list": list, "tuple": tuple,
                     "dict": dict, "set": set, "frozenset": frozenset}
            tn = node.args[1]
            names = tn.elts if isinstance(tn, ast.Tuple) else [tn]
            if all(isinstance(x, ast.Name) and x.id in types for x in names) and scope.lookup("isinstance")[2] == "unbound":
                return isinstance(ev(node.args[0]), tuple(types[x.id] for x in names))
            raise NotConstant("isinstance() with a type that is not a builtin")
        if isinstance(f, ast.Name) and f.id in SAFE_BUILTINS and f.id not in env:
            _, _, where = scope.lookup(f.id)
            if where != "unbound":
                raise NotConstant(f"the builtin `{f.id}` is rebound in the source")
            a, kw = args_of()
            if f.id == "range":
                r = range(*a)
                if len(r) > MAX_ITER:
                    raise NotConstant("range too large")
                return r
            if f.id == "sorted" and "key" in kw:
                raise NotConstant("sorted() with a key function")
            return call(SAFE_BUILTINS[f.id], a, kw)
        if isinstance(f, ast.Attribute):
            if isinstance(f.value, ast.Name) and f.value.id not in env:
                base = f.value.id
                special = None
                if base == "re" and f.attr == "escape" and _is_stdlib_module_name("re", scope):
                    special = _re.escape
                elif base == "str" and f.attr == "maketrans":
                    special = str.maketrans
                elif base == "str" and f.attr == "join":
                    special = str.join
                elif base == "bytes" and f.attr == "fromhex":
                    special = bytes.fromhex
                elif base == "dict" and f.attr == "fromkeys":
                    special = dict.fromkeys
                elif base == "itertools" and f.attr == "chain" and _is_stdlib_module_name("itertools", scope):
                    special = itertools.chain
                if special is not None:
                    if base in ("str", "bytes", "dict"):
                        _, _, where = scope.lookup(base)
                        if where != "unbound":
                            raise NotConstant(f"the builtin `{base}` is rebound in the source")
                    a, kw = args_of()
                    return call(special, a, kw)
            recv = ev(f.value)
            allowed = METHODS.get(type(recv))
            if allowed is None or f.attr not in allowed:
                raise NotConstant(f"method `{f.attr}` of a {type(recv).__name__} is not evaluated")
            a, kw = args_of()
            return call(getattr(recv, f.attr), a, kw)
        raise NotConstant("call that is not evaluated: " + ast.unparse(node)[:60])

    if isinstance(node, ast.Starred):
        raise NotConstant("starred expression outside a display")
    raise NotConstant("not a constant expression: " + ast.unparse(node)[:70])


def ceval_str(node, scope):
    v = ceval(node, scope)
    if not isinstance(v, str):
        raise NotConstant(f"a {type(v).__name__} where a str is expected")
    return v


def ceval_int(node, scope):
    v = ceval(node, scope)
    if isinstance(v, bool) or not isinstance(v, int):
        raise NotConstant(f"a {type(v).__name__} where an int is expected")
    return v


# --------------------------------------------------------------------------------------------------------------------
# reachability inside a function: statements that cannot run on this interpreter are not read
# --------------------------------------------------------------------------------------------------------------------

def live_statements(body, scope):
    """the statements of a block that can run: an `if` whose test is a constant expression (e.g. a `sys.version_info`
    comparison) contributes its live branch only, and nothing is read behind an unconditional `return` / `raise`.
    → (flat list of live simple and compound statements (compound ones are also descended into), terminated?)"""
    out = []
    for st in body:
        if isinstance(st, ast.If):
            try:
                t = bool(ceval(st.test, scope))
            except NotConstant:
                t = None
            if t is None:
                out.append(st)
                a, ta = live_statements(st.body, scope)
                b, tb = live_statements(st.orelse, scope)
                out += a + b
                if ta and tb and st.orelse:
                    return out, True
                continue
            a, ta = live_statements(st.body if t else st.orelse, scope)
            out += a
            if ta:
                return out, True
            continue
        out.append(st)
        if isinstance(st, (ast.Return, ast.Raise)):
            return out, True
        for part in ("body", "orelse", "finalbody"):
            sub = getattr(st, part, None)
            if isinstance(sub, list) and sub and isinstance(sub[0], ast.stmt) and not isinstance(
                    st, (ast.FunctionDef, ast.AsyncFunctionDef, ast.ClassDef)):
                a, _ = live_statements(sub, scope)
                out += a
        for h in getattr(st, "handlers", []) or []:
            a, _ = live_statements(h.body, scope)
            out += a
    return out, False


def live_nodes(func, scope):
    """every AST node of the live statements of a function (see `live_statements`), each once"""
    sts, _ = live_statements(func.body, scope)
    seen, out = set(), []
    compound = (ast.If, ast.For, ast.AsyncFor, ast.While, ast.With, ast.AsyncWith, ast.Try)
    for st in sts:
        if isinstance(st, compound):
            # the header only: the blocks were flattened into `sts` already (dead branches left out)
            heads = []
            if isinstance(st, ast.If):
                heads = [st.test]
            elif isinstance(st, (ast.For, ast.AsyncFor)):
                heads = [st.target, st.iter]
            elif isinstance(st, ast.While):
                heads = [st.test]
            elif isinstance(st, (ast.With, ast.AsyncWith)):
                heads = [x for it in st.items for x in (it.context_expr, it.optional_vars) if x is not None]
            for h in heads:
                for n in ast.walk(h):
                    if id(n) not in seen:
                        seen.add(id(n))
                        out.append(n)
            if id(st) not in seen:
                seen.add(id(st))
                out.append(st)
            continue
        for n in ast.walk(st):
            if id(n) not in seen:
                seen.add(id(n))
                out.append(n)
    return out


# --------------------------------------------------------------------------------------------------------------------
# a function applied to constant arguments (straight-line code with if / assignments / return only)
# --------------------------------------------------------------------------------------------------------------------

class _Poison:
    """the value of a name that was assigned something that is not a constant expression"""
    def __repr__(self):
        return "<not a constant>"


def run_function(func, scope, args):
    """the value `func` returns when its parameters named in `args` have these constant values and every other
    parameter is unknown: assignments to names, `if` with a test that is a constant expression under these bindings,
    `return <constant expression>`; expression statements (logging calls) are skipped; a `raise` that is reached, a
    loop, `try`, `with`, or a test / return value that depends on something unknown raises NotConstant."""
    env = dict(args)
    for a in func.args.posonlyargs + func.args.args + func.args.kwonlyargs:
        env.setdefault(a.arg, _Poison())

    class _Return(Exception):
        def __init__(self, v):
            self.v = v

    def clean(e):
        return {k: v for k, v in e.items() if not isinstance(v, _Poison)}

    def poisoned(node):
        return [n.id for n in ast.walk(node) if isinstance(n, ast.Name) and isinstance(env.get(n.id), _Poison)]

    def ev(node):
        bad = poisoned(node)
        if bad:
            raise NotConstant(f"depends on `{bad[0]}`, which is not a constant here")
        return ceval(node, _ShadowScope(scope, env), clean(env))

    def block(body):
        for st in body:
            if isinstance(st, ast.Expr):
                continue                                    # docstring, logging call
            if isinstance(st, ast.Pass):
                continue
            if isinstance(st, (ast.Assign, ast.AnnAssign)):
                targets = st.targets if isinstance(st, ast.Assign) else [st.target]
                if st.value is None:
                    continue
                try:
                    v = ev(st.value)
                except NotConstant:
                    v = _Poison()
                for t in targets:
                    if isinstance(t, ast.Name):
                        env[t.id] = v
                    elif isinstance(t, (ast.Tuple, ast.List)) and all(isinstance(x, ast.Name) for x in t.elts):
                        vals = list(v) if not isinstance(v, _Poison) and hasattr(v, "__iter__") else None
                        for i, x in enumerate(t.elts):
                            env[x.id] = vals[i] if vals is not None and len(vals) == len(t.elts) else _Poison()
                    else:
                        raise NotConstant("assignment to something that is not a name: " + ast.unparse(t)[:40])
                continue
            if isinstance(st, ast.If):
                block(st.body if ev(st.test) else st.orelse)
                continue
            if isinstance(st, ast.Return):
                raise _Return(ev(st.value) if st.value is not None else None)
            if isinstance(st, ast.Raise):
                raise NotConstant("the function raises for these arguments")
            raise NotConstant(f"a {type(st).__name__} statement is not interpreted")
    try:
        block(func.body)
    except _Return as r:
        return _materialise(r.v)
    return None


class _ShadowScope(rxscan.Scope):
    """the scope of a function that is being interpreted: its local names come from the interpreter's environment,
    never from a scan of the function's assignments"""
    def __init__(self, base, env):
        super().__init__(base.module, base.cls, None, base.loader)
        self._env = env

    def lookup(self, name):
        if name in self._env:
            return [None], self, "local"
        return super().lookup(name)
