"""C12 — membership between address objects is exactly subnet containment."""
import ipaddress

import wire
from props.common import quiet_ccp

ID = "C12"
LEAN_MODULES = ["Ccp.Props.C12"]
RULE = ("grid: every pair of prefix lengths (len x, len y) x 7 positions of x's address relative to y's network "
        "{before, first, second, middle, next-to-last, last, after}; y's base address is boundary-biased (0, top of the "
        "address space, all-ones groups, random). IPv4: full 33x33x7 grid in every tier; IPv6: quick = lengths stepped by 3 "
        "plus 0 and 118..128, thorough = full 129x129x7 grid. Each case asks both directions (x in y, y in x) and the "
        "diagonal. Plus random pairs/triples sharing a random number of leading bits (chains x <= y <= z for transitivity), "
        "and random lists (1..12 objects, siblings, duplicates, nested) for collapse_addresses. "
        "non-trivial = the two objects differ and at least one direction is decided by the interval comparison (container "
        "prefix not 0 and not longer than the member's), distinct by request line. "
        "inx stream: 2..4 operands around one 32-bit pattern - non-empty objects of either family (prefix lengths 0, 1, 8, 24, "
        "31, 32, w-1, w, random), the empty objects IPv4Obj() / IPv6Obj(), a str - and `a in b` for every ordered pair with the "
        "escaping exception class (the oracle judges the same-family non-empty pairs; the rest is compared with the model). "
        "collapsex stream: collapse_addresses on a list / tuple (Sequence) or set / iterator / dict / dict view (not a Sequence) "
        "whose items are objects or stdlib networks (strict=False) of one family, plus in half of the cases one int / str / None "
        "/ IPv4Address, an empty object, or an item of the other family. show stream: address, network number, last address "
        "(as_decimal_broadcast / as_decimal_network_maxint) and numhosts of one object, prefix lengths biased to w-3..w.")
LEVEL_TEXT = ("Theorems (Lean 4, all address/prefix pairs, any address width): 'x in y' as computed by IPv4Obj.__contains__ and "
              "IPv6Obj.__contains__ holds iff y's prefix is not longer and the leading len(y) bits agree, iff x's address interval "
              "lies inside y's, iff every address of x's network is an address of y's; it is reflexive and transitive. "
              "collapse_addresses (objects mapped to their networks, then the stdlib dict-merge loop and covered-network pass, modelled "
              "in Lean): for every list of objects the output covers exactly the addresses of the input networks, is well formed, "
              "ascending and pairwise disjoint, has no two networks with the same supernet and none inside another, and every network "
              "inside the covered set lies in one output network (canonical minimal cover). The model is additionally compared with "
              "ipaddress.collapse_addresses and an interval oracle on random lists. The operator on any operands (containsX): on two "
              "non-empty objects of one family it is that membership test and never raises; IPv4Obj() in IPv4Obj() is true, an empty "
              "IPv4 object is in no object and contains none; an empty IPv6 container raises ValueError; an operand of the other "
              "family is decided by prefix lengths / the first comparison or raises ValueError, never by containment. "
              "collapse_addresses on a Sequence of objects and stdlib networks of one family is the stdlib collapse of the networks "
              "they stand for (objects and their .network give the same result); a non-Sequence or an item of another type raises "
              "ValueError, an empty object AttributeError, neighbouring items of different families TypeError.")
LEVEL_NOTE = ("Trusted: Lean kernel; axioms propext/Classical.choice/Quot.sound only; the correspondence harness; the value-level "
              "reading of an object as (int(ip_object), network_object). Proved about the model, measured against the code; "
              "the stdlib ipaddress module is the third, independent voice. For collapse_addresses the proved object is the Lean "
              "transcription of ipaddress._collapse_addresses_internal (dict as association list, fuel-bounded loop proved to need at "
              "most 2*len rounds); its agreement with the real stdlib routine is measured (collapse_agrees), not proved.")
EXHAUSTIVE = {"quick": False, "thorough": True}
ASSUMPTIONS = [
    "an object is read as (int(ip_object), int(network_object.network_address), network_object.prefixlen); text forms are C11",
    "ipaddress network_address = ip & (ALL_ONES ^ (ALL_ONES >> prefixlen)) (re-implemented in the model, proved equal to clearing the host bits)",
    "objects are non-empty and of one family per comparison",
    "collapse_addresses: the stdlib routine is the Lean transcription collapseNets (agreement with ipaddress measured on every run)",
]
TRUSTED = ["stdlib ipaddress (used as the independent oracle: subnet_of, collapse_addresses)"]

W = {4: 32, 6: 128}
POSITIONS = ["before", "first", "second", "middle", "next-to-last", "last", "after"]


# ------------------------------------------------------------------ shared helpers (also used by c13)
def addr_text(fam, ip):
    return str(ipaddress.IPv4Address(ip) if fam == 4 else ipaddress.IPv6Address(ip))


def enc_objs(objs):
    return ";".join(f"{ip}/{ln}" for ip, ln in objs)


def make_obj(fam, ip, ln):
    quiet_ccp()
    from ciscoconfparse2.ccp_util import IPv4Obj, IPv6Obj
    cls = IPv4Obj if fam == 4 else IPv6Obj
    return cls(f"{addr_text(fam, ip)}/{ln}")


def std_net(fam, ip, ln):
    cls = ipaddress.IPv4Network if fam == 4 else ipaddress.IPv6Network
    return cls((ip, ln), strict=False)


def tf(b):
    assert b is True or b is False, repr(b)
    return "T" if b else "F"


def impl_cmp(case):
    fam = case["fam"]
    objs = [make_obj(fam, ip, ln) for ip, ln in case["objs"]]
    bits = []
    for a in objs:
        for b in objs:
            bits.append(tf(a < b) + tf(a > b) + tf(a == b) + tf(a != b) + tf(a in b))
    srt = sorted(objs)
    return ",".join(bits) + "|" + ";".join(f"{int(o.ip)}/{o.prefixlen}" for o in srt), objs


def mk_cmp(fam, objs, origin="gen", tag="rand"):
    objs = [[int(ip), int(ln)] for ip, ln in objs]
    return {"kind": "cmp", "fam": fam, "objs": objs, "tag": tag,
            "req": wire.req("ipval", "cmp", str(fam), enc_objs(objs)), "_origin": origin}


def mk_collapse(fam, objs, origin="gen"):
    objs = [[int(ip), int(ln)] for ip, ln in objs]
    return {"kind": "collapse", "fam": fam, "objs": objs, "tag": "collapse",
            "req": wire.req("ipval", "collapse", str(fam), enc_objs(objs)), "_origin": origin}


def enc_arg(a):
    return "o" if a[0] == "o" else f"{a[0]}:e" if a[1] == "e" else f"{a[0]}:{a[1]}/{a[2]}"


def mk_inx(args, origin="gen", tag="inx"):
    """`a in b` for every ordered pair of operands that `__contains__` may meet: [fam, ip, len] (an object), [fam, "e"] (the
    empty object IPv4Obj() / IPv6Obj()), ["o"] (a str)"""
    args = [list(a) for a in args]
    return {"kind": "inx", "args": args, "tag": tag,
            "req": wire.req("ipvalx", "in", ";".join(enc_arg(a) for a in args)), "_origin": origin}


SEQ_KINDS = {"list": True, "tuple": True, "set": False, "iter": False, "dictkeys": False, "dict": False}


def enc_item(it):
    return it[0] if it[0] in ("e", "b") else f"{it[0]}{it[1]}:{it[2]}/{it[3]}"


def mk_collapsex(seqkind, items, origin="gen"):
    """collapse_addresses(arg): arg is a list / tuple (Sequence) or a set / iterator / dict (not a Sequence) of items
    ["o", fam, ip, len] (address object), ["n", fam, ip, len] (stdlib network, strict=False), ["e", fam] (empty object),
    ["b", what] (an int / str / None / IPv4Address)"""
    items = [list(i) for i in items]
    if seqkind in ("set", "dict", "dictkeys") and any(i[0] == "e" and i[1] == 6 for i in items):
        seqkind = "iter"        # hash(IPv6Obj()) raises: such an item cannot be put into a set / dict by the harness
    return {"kind": "collapsex", "seqkind": seqkind, "items": items, "tag": "collapsex",
            "req": wire.req("ipvalx", "collapse", "seq" if SEQ_KINDS[seqkind] else "nonseq", ";".join(enc_item(i) for i in items)),
            "_origin": origin}


def mk_show(fam, ip, ln, origin="gen"):
    """the bounds `in` compares: as_decimal_network, as_decimal_broadcast / as_decimal_network_maxint, and numhosts"""
    return {"kind": "show", "fam": fam, "obj": [int(ip), int(ln)], "tag": "show",
            "req": wire.req("ipval", "seq", str(fam), f"{ip}/{ln}", "show"), "_origin": origin}


def from_corpus(c):
    if c.get("kind") == "inx":
        return mk_inx(c["args"], "corpus")
    if c.get("kind") == "collapsex":
        return mk_collapsex(c["seqkind"], c["items"], "corpus")
    if c.get("kind") == "show":
        return mk_show(c["fam"], c["obj"][0], c["obj"][1], "corpus")
    return (mk_collapse if c.get("kind") == "collapse" else mk_cmp)(c["fam"], c["objs"], "corpus")


def rand_ip(rng, fam):
    w = W[fam]
    r = rng.random()
    if r < 0.08:
        return 0
    if r < 0.16:
        return (1 << w) - 1
    if r < 0.3:  # all-ones / all-zero groups
        g = 8 if fam == 4 else 16
        v = 0
        for _ in range(w // g):
            v = (v << g) | rng.choice([0, (1 << g) - 1, rng.getrandbits(g)])
        return v
    return rng.getrandbits(w)


def related(rng, fam, ip):
    """an address sharing a random number of leading bits with `ip`"""
    w = W[fam]
    k = rng.randint(0, w)
    r = rng.random()
    if r < 0.4:      # flip exactly bit k (from the top)
        return ip ^ (1 << (w - 1 - k)) if k < w else ip
    if r < 0.8:      # randomise the low w-k bits
        low = w - k
        return (ip >> low << low) | (rng.getrandbits(low) if low else 0)
    return max(0, min((1 << w) - 1, ip + rng.choice([-2, -1, 1, 2])))


# ------------------------------------------------------------------ generators
def grid(rng, fam, lens):
    w = W[fam]
    top = (1 << w) - 1
    for ly in lens:
        size = 1 << (w - ly)
        nblocks = 1 << ly
        for lx in lens:
            # y's block: boundary-biased (first, second, last, next-to-last block of the space, or random)
            blk = rng.choice([0, 1, nblocks - 1, nblocks - 2, rng.randrange(nblocks), rng.randrange(nblocks)])
            blk = max(0, min(nblocks - 1, blk))
            net = blk * size
            last = net + size - 1
            pos = {"before": net - 1, "first": net, "second": min(net + 1, last), "middle": net + size // 2,
                   "next-to-last": max(last - 1, net), "last": last, "after": last + 1}
            pos["middle"] = min(pos["middle"], last)
            yip = rng.choice([net, last, net + rng.randrange(size)])
            for name in POSITIONS:
                a = pos[name]
                if a < 0 or a > top:
                    continue        # nothing lies before / after the whole address space
                yield mk_cmp(fam, [[a, lx], [yip, ly]], tag="grid:" + name)


def rand_cmp(rng, fam):
    w = W[fam]
    ip = rand_ip(rng, fam)
    n = rng.choice([2, 3, 3])
    objs = []
    cur = ip
    for _ in range(n):
        objs.append([cur, rng.choice([0, 1, w - 2, w - 1, w, rng.randint(0, w), rng.randint(0, w)])])
        cur = related(rng, fam, cur if rng.random() < 0.5 else ip)
    if n == 3 and rng.random() < 0.5:
        # a chain: same address, ascending prefix lengths -> z contains y contains x
        ls = sorted(rng.randint(0, w) for _ in range(3))
        objs = [[related(rng, fam, ip) if rng.random() < 0.3 else ip, ls[2]], [ip, ls[1]], [ip, ls[0]]]
    return mk_cmp(fam, objs, tag="rand")


def rand_collapse(rng, fam):
    w = W[fam]
    base = rand_ip(rng, fam)
    n = rng.choice([0, 1, 2, 3, 4, 6, 8, 12])
    objs = []
    for _ in range(n):
        r = rng.random()
        ln = rng.choice([w, w, w - 1, w - 2, w - 3, rng.randint(max(0, w - 8), w), rng.randint(0, w), 0 if rng.random() < 0.1 else w - 1])
        if objs and r < 0.35:       # sibling of an earlier one
            pip, pl = rng.choice(objs)
            ip = pip ^ (1 << (w - pl)) if pl > 0 else pip
            ln = pl
        elif objs and r < 0.5:      # duplicate / same network other host bits
            pip, pl = rng.choice(objs)
            ip, ln = related(rng, fam, pip), pl
        elif r < 0.85:              # close to base
            ip = max(0, min((1 << w) - 1, base + rng.randint(-16, 16)))
        else:
            ip = rand_ip(rng, fam)
        objs.append([ip, max(0, min(w, ln))])
    return mk_collapse(fam, objs)


def rand_inx(rng):
    """2..4 operands around one 32-bit pattern (so that network numbers of the two families are comparable): objects of either
    family with boundary prefix lengths, the two empty objects, a str"""
    base = rand_ip(rng, 4)
    args = []
    for _ in range(rng.choice([2, 3, 3, 4])):
        r = rng.random()
        fam = rng.choice([4, 4, 6])
        if r < 0.18:
            args.append([fam, "e"])
        elif r < 0.24:
            args.append(["o"])
        else:
            w = W[fam]
            ip = related(rng, 4, base) if rng.random() < 0.8 else rand_ip(rng, fam)
            if fam == 6 and rng.random() < 0.3:
                ip = (ip << rng.choice([0, 8, 96])) & ((1 << 128) - 1)
            ln = rng.choice([0, 0, 1, 8, 24, 31, 32, w - 1, w, rng.randint(0, w)])
            args.append([fam, ip, min(ln, w)])
    return mk_inx(args)


BAD_ITEMS = ["int", "str", "none", "addr"]


def rand_collapsex(rng):
    fam = rng.choice([4, 6])
    base = rand_collapse(rng, fam)["objs"] or [[rand_ip(rng, fam), W[fam]]]
    items = [[rng.choice("on"), fam, ip, ln] for ip, ln in base]
    r = rng.random()
    seqkind = rng.choice(["list", "list", "tuple"])
    if r < 0.15:
        seqkind = rng.choice(["set", "iter", "dict", "dictkeys"])
    elif r < 0.30:
        items.insert(rng.randrange(len(items) + 1), ["b", rng.choice(BAD_ITEMS)])
    elif r < 0.38:
        items.insert(rng.randrange(len(items) + 1), ["e", fam])
    elif r < 0.50:
        of = 10 - fam
        items.insert(rng.randrange(len(items) + 1), [rng.choice("on"), of, rand_ip(rng, of), rng.randint(0, W[of])])
    if rng.random() < 0.06:
        items.insert(rng.randrange(len(items) + 1), rng.choice([["b", rng.choice(BAD_ITEMS)], ["e", fam]]))
    if rng.random() < 0.04:
        items = []
    return mk_collapsex(seqkind, items)


def rand_show(rng, fam):
    w = W[fam]
    return mk_show(fam, rand_ip(rng, fam), rng.choice([0, 1, w - 3, w - 2, w - 1, w, rng.randint(0, w), rng.randint(0, w)]))


V6_QUICK_LENS = sorted(set(range(0, 129, 3)) | set(range(118, 129)))


def cases(rng, tier):
    if tier != "search":
        yield from grid(rng, 4, list(range(33)))
        yield from grid(rng, 6, list(range(129)) if tier == "thorough" else V6_QUICK_LENS)
    n = {"quick": 4000, "thorough": 60000, "search": 3000}[tier]
    for i in range(n):
        fam = 4 if i % 2 == 0 else 6
        if i % 5 == 4:
            yield rand_collapse(rng, fam)
        else:
            yield rand_cmp(rng, fam)
    # the other operands __contains__ / collapse_addresses accept or reject, and the bounds `in` compares
    for i in range({"quick": 1500, "thorough": 30000, "search": 900}[tier]):
        if i % 3 == 0:
            yield rand_inx(rng)
        elif i % 3 == 1:
            yield rand_collapsex(rng)
        else:
            yield rand_show(rng, 4 if i % 2 else 6)


def neighbours(case, rng):
    if case["kind"] == "inx":
        for _ in range(300):
            args = [list(a) for a in case["args"]]
            i = rng.randrange(len(args))
            if len(args[i]) == 3:
                w = W[args[i][0]]
                if rng.random() < 0.5:
                    args[i][2] = max(0, min(w, args[i][2] + rng.choice([-1, 1])))
                else:
                    args[i][1] = max(0, min((1 << w) - 1, args[i][1] + rng.choice([-2, -1, 1, 2])))
            else:
                args[i] = rng.choice([[4, "e"], [6, "e"], ["o"], [4, rand_ip(rng, 4), rng.randint(0, 32)]])
            yield mk_inx(args)
        return
    if case["kind"] == "collapsex":
        for _ in range(300):
            items = [list(a) for a in case["items"]]
            if items and rng.random() < 0.7:
                i = rng.randrange(len(items))
                if items[i][0] in "on":
                    w = W[items[i][1]]
                    items[i][3] = max(0, min(w, items[i][3] + rng.choice([-1, 0, 1])))
                    items[i][0] = rng.choice("on")
                else:
                    del items[i]
            else:
                items.append(rng.choice([["b", "int"], ["e", 4], ["o", 4, rand_ip(rng, 4), 32], ["n", 6, rand_ip(rng, 6), 128]]))
            yield mk_collapsex(rng.choice(list(SEQ_KINDS)) if rng.random() < 0.2 else case["seqkind"], items)
        return
    if case["kind"] == "show":
        fam = case["fam"]
        for d in (-2, -1, 1, 2):
            yield mk_show(fam, max(0, min((1 << W[fam]) - 1, case["obj"][0] + d)), case["obj"][1])
        for ln in range(W[fam] + 1):
            yield mk_show(fam, case["obj"][0], ln)
        return
    fam = case["fam"]
    w = W[fam]
    for _ in range(400):
        objs = [list(o) for o in case["objs"]]
        if not objs:
            return
        i = rng.randrange(len(objs))
        if rng.random() < 0.5:
            objs[i][1] = max(0, min(w, objs[i][1] + rng.choice([-1, 1])))
        else:
            objs[i][0] = max(0, min((1 << w) - 1, objs[i][0] + rng.choice([-2, -1, 1, 2])))
        yield (mk_collapse if case["kind"] == "collapse" else mk_cmp)(fam, objs)


def nontrivial(case):
    if case["kind"] == "inx":
        return len(case["args"]) >= 2
    if case["kind"] == "collapsex":
        return len(case["items"]) >= 1
    if case["kind"] == "show":
        return True
    objs = case["objs"]
    if case["kind"] == "collapse":
        return len(objs) >= 2
    for i, a in enumerate(objs):
        for j, b in enumerate(objs):
            if i != j and a != b and 0 < b[1] <= a[1]:
                return True
    return False


def describe(case):
    if case["kind"] == "inx":
        return {"kind": "inx", "operands": [
            "a str" if a[0] == "o" else f"IPv{a[0]}Obj()" if a[1] == "e" else f"IPv{a[0]}Obj({addr_text(a[0], a[1])}/{a[2]})"
            for a in case["args"]]}
    if case["kind"] == "collapsex":
        return {"kind": "collapsex", "argument": case["seqkind"], "items": [
            "IPv%dObj()" % it[1] if it[0] == "e" else "a " + it[1] if it[0] == "b" else
            ("IPv%dObj(%s/%d)" if it[0] == "o" else "IPv%dNetwork(%s/%d, strict=False)") % (it[1], addr_text(it[1], it[2]), it[3])
            for it in case["items"]]}
    if case["kind"] == "show":
        return {"kind": "show", "family": case["fam"], "object": f"{addr_text(case['fam'], case['obj'][0])}/{case['obj'][1]}"}
    fam = case["fam"]
    return {"kind": case["kind"], "family": fam, "tag": case.get("tag"),
            "objects": [f"{addr_text(fam, ip)}/{ln}" for ip, ln in case["objs"]]}


def buckets(case, ans):
    if case["kind"] == "inx":
        out = ["inx"]
        n = len(case["args"])
        cells = ans.split(",")
        for i, a in enumerate(case["args"]):
            for j, b in enumerate(case["args"]):
                if len(cells) == n * n and cells[i * n + j] != "-":
                    what = lambda x: "str" if x[0] == "o" else f"empty{x[0]}" if x[1] == "e" else f"obj{x[0]}"  # noqa: E731
                    out.append(f"inx:{what(a)} in {what(b)}:{cells[i * n + j]}")
        return out
    if case["kind"] == "collapsex":
        forms = sorted({it[0] for it in case["items"]})
        return ["collapsex", "collapsex:%s:%s:%s" % (case["seqkind"], "".join(forms), ans.split(":")[0] if ans.startswith("ok") else ans)]
    if case["kind"] == "show":
        return [f"v{case['fam']}:show", f"v{case['fam']}:show:len-from-top:%d" % min(3, W[case["fam"]] - case["obj"][1])]
    fam = case["fam"]
    out = [f"v{fam}:{case['kind']}", f"v{fam}:{case.get('tag')}"]
    if case["kind"] == "cmp" and "|" in ans:
        bits = ans.split("|")[0].split(",")
        n = len(case["objs"])
        if n >= 2:
            out.append(f"v{fam}:x-in-y:" + bits[1][4])
            out.append(f"v{fam}:y-in-x:" + bits[n][4])
    if case["kind"] == "collapse":
        out.append("collapse-in:%d" % min(12, len(case["objs"])))
        out.append("collapse-out:%d" % (len(ans.split(";")) if ans else 0))
    return out


# ------------------------------------------------------------------ implementation
def exc_name(e):
    return "err:" + type(e).__name__


def build_arg(a):
    quiet_ccp()
    from ciscoconfparse2.ccp_util import IPv4Obj, IPv6Obj
    if a[0] == "o":
        return "10.0.0.1/8"
    cls = IPv4Obj if a[0] == 4 else IPv6Obj
    return cls() if a[1] == "e" else cls(f"{addr_text(a[0], a[1])}/{a[2]}")


def build_item(it):
    quiet_ccp()
    from ciscoconfparse2.ccp_util import IPv4Obj, IPv6Obj
    if it[0] == "e":
        return (IPv4Obj if it[1] == 4 else IPv6Obj)()
    if it[0] == "b":
        return {"int": 1, "str": "10.0.0.0/8", "none": None, "addr": ipaddress.ip_address("10.0.0.1")}[it[1]]
    if it[0] == "o":
        return make_obj(it[1], it[2], it[3])
    return std_net(it[1], it[2], it[3])


def impl(case):
    if case["kind"] == "cmp":
        return impl_cmp(case)[0]
    if case["kind"] == "inx":
        objs = [build_arg(a) for a in case["args"]]
        cells = []
        for a in objs:
            for b in objs:
                if isinstance(b, str):
                    cells.append("-")         # `x in "a str"` is not __contains__ of an address object
                    continue
                try:
                    cells.append(tf(a in b))
                except (ValueError, AttributeError, TypeError, NotImplementedError, AssertionError) as e:
                    cells.append(exc_name(e))
        return ",".join(cells)
    if case["kind"] == "collapsex":
        quiet_ccp()
        from ciscoconfparse2.ccp_util import collapse_addresses
        items = [build_item(it) for it in case["items"]]
        arg = {"list": list, "tuple": tuple, "set": set, "iter": iter, "dictkeys": lambda l: dict.fromkeys(l).keys(),
               "dict": dict.fromkeys}[case["seqkind"]](items)
        try:
            res = list(collapse_addresses(arg))
        except (ValueError, AttributeError, TypeError) as e:
            return exc_name(e)
        return "ok:" + ";".join(f"{int(n.network_address)}/{n.prefixlen}" for n in res)
    if case["kind"] == "show":
        fam = case["fam"]
        o = make_obj(fam, *case["obj"])
        try:
            nh = str(o.numhosts)
        except NotImplementedError as e:
            nh = exc_name(e)
        top = o.as_decimal_broadcast if fam == 4 else o.as_decimal_network_maxint
        return f"{o.as_decimal},{o.as_decimal_network},{o.prefixlen},{top},{nh}"
    quiet_ccp()
    from ciscoconfparse2.ccp_util import collapse_addresses
    fam = case["fam"]
    objs = [make_obj(fam, ip, ln) for ip, ln in case["objs"]]
    res = list(collapse_addresses(objs))
    return ";".join(f"{int(n.network_address)}/{n.prefixlen}" for n in res)


# ------------------------------------------------------------------ oracle (independent of the Lean model)
def oracle_membership(case, ans):
    fam = case["fam"]
    w = W[fam]
    objs = case["objs"]
    n = len(objs)
    bits = ans.split("|")[0].split(",")
    if len(bits) != n * n:
        return [f"malformed answer {ans[:80]}"]
    inside = {}
    fails = []
    for i, (aip, al) in enumerate(objs):
        for j, (bip, bl) in enumerate(objs):
            got = bits[i * n + j][4] == "T"
            inside[i, j] = got
            na = std_net(fam, aip, al)
            nb = std_net(fam, bip, bl)
            want_std = na.subnet_of(nb)
            want_bits = bl <= al and (aip >> (w - bl)) == (bip >> (w - bl))
            assert want_std == want_bits, (case, i, j)
            if got != want_std:
                fails.append(f"{addr_text(fam, aip)}/{al} in {addr_text(fam, bip)}/{bl} is {got}, subnet containment is {want_std}")
            if i == j and not got:
                fails.append("membership is not reflexive")
    for i in range(n):
        for j in range(n):
            for k in range(n):
                if inside[i, j] and inside[j, k] and not inside[i, k]:
                    fails.append(f"membership is not transitive on objects {i},{j},{k}")
    return fails[:3]


def ranges_of(nets):
    iv = sorted((int(n.network_address), int(n.broadcast_address)) for n in nets)
    out = []
    for lo, hi in iv:
        if out and lo <= out[-1][1] + 1:
            out[-1][1] = max(out[-1][1], hi)
        else:
            out.append([lo, hi])
    return out


def oracle_collapse(case, ans):
    fam = case["fam"]
    w = W[fam]
    ins = [std_net(fam, ip, ln) for ip, ln in case["objs"]]
    want = ";".join(f"{int(n.network_address)}/{n.prefixlen}" for n in ipaddress.collapse_addresses(ins))
    fails = []
    if ans != want:
        fails.append(f"collapse gives {ans[:120]} but ipaddress.collapse_addresses gives {want[:120]}")
    # independent of the stdlib routine: same address set, canonical cover
    outs = []
    for item in (ans.split(";") if ans else []):
        a, _, l = item.partition("/")
        a, l = int(a), int(l)
        if a % (1 << (w - l)):
            fails.append(f"result {item} has host bits set")
            return fails[:3]
        outs.append(std_net(fam, a, l))
    if ranges_of(outs) != ranges_of(ins):
        fails.append("collapsed networks do not cover the same addresses as the input")
    for p, q in zip(outs, outs[1:]):
        if not (int(p.broadcast_address) < int(q.network_address)):
            fails.append("collapsed networks overlap or are not ascending")
        elif p.prefixlen == q.prefixlen and p.prefixlen > 0 and p.supernet() == q.supernet():
            fails.append(f"siblings {p} and {q} were not merged")
    return fails[:3]


def oracle_inx(case, ans):
    """the property speaks about two (non-empty) objects of one family; it is silent about empty objects, the other family
    and operands that are no address objects (those cells are only compared with the model)"""
    args = case["args"]
    n = len(args)
    cells = ans.split(",")
    if len(cells) != n * n:
        return [f"malformed answer {ans[:80]}"]
    fails = []
    for i, a in enumerate(args):
        for j, b in enumerate(args):
            if len(a) == 3 and len(b) == 3 and a[0] == b[0]:
                fam, w = a[0], W[a[0]]
                want = b[2] <= a[2] and (a[1] >> (w - b[2])) == (b[1] >> (w - b[2]))
                assert want == std_net(fam, a[1], a[2]).subnet_of(std_net(fam, b[1], b[2]))
                if cells[i * n + j] != tf(want):
                    fails.append(f"{addr_text(fam, a[1])}/{a[2]} in {addr_text(fam, b[1])}/{b[2]} is {cells[i * n + j]}, "
                                 f"subnet containment is {want}")
    return fails[:3]


def oracle_collapsex(case, ans):
    items = case["items"]
    fams = {it[1] for it in items if it[0] in "on"}
    if not SEQ_KINDS[case["seqkind"]] or any(it[0] in "eb" for it in items) or len(fams) > 1:
        return []       # not "a list of address objects" of one family: the property is silent (model comparison only)
    if not ans.startswith("ok:"):
        return [f"a list of address objects / networks of one family raised {ans}"]
    fam = fams.pop() if fams else 4
    # a stdlib network stands for the same network as the object it was built from
    return oracle_collapse({"fam": fam, "objs": [[it[2], it[3]] for it in items]}, ans[3:])


def oracle_show(case, ans):
    fam, (ip, ln) = case["fam"], case["obj"]
    net = std_net(fam, ip, ln)
    want = [str(ip), str(int(net.network_address)), str(ln), str(int(net.broadcast_address))]
    got = ans.split(",")
    return [] if got[:4] == want else [f"(address, network, length, last address) is {got[:4]}, expected {want}"]


def oracle(case, ans):
    if case["kind"] == "inx":
        return oracle_inx(case, ans)
    if case["kind"] == "collapsex":
        return oracle_collapsex(case, ans)
    if case["kind"] == "show":
        return oracle_show(case, ans)
    if ans.startswith("err"):
        return [f"raised {ans}"]
    return oracle_collapse(case, ans) if case["kind"] == "collapse" else oracle_membership(case, ans)
