"""C12 — membership between address objects is exactly subnet containment."""
import ipaddress

import wire
from props.common import quiet_ccp

ID = "C12"
LEAN_MODULES = ["Ccp.Props.C12"]
RULE = ("grid: every pair of prefix lengths (len x, len y) x 7 positions of x's address relative to y's network "
        "{before, first, second, middle, next-to-last, last, after}; y's base address is boundary-biased (0, top of the "
        "address space, all-ones groups, random). IPv4: full 33x33x7 grid in every tier; IPv6: quick = lengths stepped by 3 "
        "plus 0 and 118..128, thorough = full 129x129x7 grid. Each case asks both directions (x in y, y in x) and the "
        "diagonal. Plus random pairs/triples sharing a random number of leading bits (chains x <= y <= z for transitivity), "
        "and random lists (1..12 objects, siblings, duplicates, nested) for collapse_addresses. "
        "non-trivial = the two objects differ and at least one direction is decided by the interval comparison (container "
        "prefix not 0 and not longer than the member's), distinct by request line. Empty objects (IPv4Obj()) and "
        "mixed-family comparisons are not generated.")
LEVEL_TEXT = ("Theorems (Lean 4, all address/prefix pairs, any address width): 'x in y' as computed by IPv4Obj.__contains__ and "
              "IPv6Obj.__contains__ holds iff y's prefix is not longer and the leading len(y) bits agree, iff x's address interval "
              "lies inside y's, iff every address of x's network is an address of y's; it is reflexive and transitive. "
              "collapse_addresses (objects mapped to their networks, then the stdlib dict-merge loop and covered-network pass, modelled "
              "in Lean): for every list of objects the output covers exactly the addresses of the input networks, is well formed, "
              "ascending and pairwise disjoint, has no two networks with the same supernet and none inside another, and every network "
              "inside the covered set lies in one output network (canonical minimal cover). The model is additionally compared with "
              "ipaddress.collapse_addresses and an interval oracle on random lists.")
LEVEL_NOTE = ("Trusted: Lean kernel; axioms propext/Classical.choice/Quot.sound only; the correspondence harness; the value-level "
              "reading of an object as (int(ip_object), network_object). Proved about the model, measured against the code; "
              "the stdlib ipaddress module is the third, independent voice. For collapse_addresses the proved object is the Lean "
              "transcription of ipaddress._collapse_addresses_internal (dict as association list, fuel-bounded loop proved to need at "
              "most 2*len rounds); its agreement with the real stdlib routine is measured (collapse_agrees), not proved.")
EXHAUSTIVE = {"quick": False, "thorough": True}
ASSUMPTIONS = [
    "an object is read as (int(ip_object), int(network_object.network_address), network_object.prefixlen); text forms are C11",
    "ipaddress network_address = ip & (ALL_ONES ^ (ALL_ONES >> prefixlen)) (re-implemented in the model, proved equal to clearing the host bits)",
    "objects are non-empty and of one family per comparison",
    "collapse_addresses: the stdlib routine is the Lean transcription collapseNets (agreement with ipaddress measured on every run)",
]
TRUSTED = ["stdlib ipaddress (used as the independent oracle: subnet_of, collapse_addresses)"]

W = {4: 32, 6: 128}
POSITIONS = ["before", "first", "second", "middle", "next-to-last", "last", "after"]


# ------------------------------------------------------------------ shared helpers (also used by c13)
def addr_text(fam, ip):
    return str(ipaddress.IPv4Address(ip) if fam == 4 else ipaddress.IPv6Address(ip))


def enc_objs(objs):
    return ";".join(f"{ip}/{ln}" for ip, ln in objs)


def make_obj(fam, ip, ln):
    quiet_ccp()
    from ciscoconfparse2.ccp_util import IPv4Obj, IPv6Obj
    cls = IPv4Obj if fam == 4 else IPv6Obj
    return cls(f"{addr_text(fam, ip)}/{ln}")


def std_net(fam, ip, ln):
    cls = ipaddress.IPv4Network if fam == 4 else ipaddress.IPv6Network
    return cls((ip, ln), strict=False)


def tf(b):
    assert b is True or b is False, repr(b)
    return "T" if b else "F"


def impl_cmp(case):
    fam = case["fam"]
    objs = [make_obj(fam, ip, ln) for ip, ln in case["objs"]]
    bits = []
    for a in objs:
        for b in objs:
            bits.append(tf(a < b) + tf(a > b) + tf(a == b) + tf(a != b) + tf(a in b))
    srt = sorted(objs)
    return ",".join(bits) + "|" + ";".join(f"{int(o.ip)}/{o.prefixlen}" for o in srt), objs


def mk_cmp(fam, objs, origin="gen", tag="rand"):
    objs = [[int(ip), int(ln)] for ip, ln in objs]
    return {"kind": "cmp", "fam": fam, "objs": objs, "tag": tag,
            "req": wire.req("ipval", "cmp", str(fam), enc_objs(objs)), "_origin": origin}


def mk_collapse(fam, objs, origin="gen"):
    objs = [[int(ip), int(ln)] for ip, ln in objs]
    return {"kind": "collapse", "fam": fam, "objs": objs, "tag": "collapse",
            "req": wire.req("ipval", "collapse", str(fam), enc_objs(objs)), "_origin": origin}


def from_corpus(c):
    return (mk_collapse if c.get("kind") == "collapse" else mk_cmp)(c["fam"], c["objs"], "corpus")


def rand_ip(rng, fam):
    w = W[fam]
    r = rng.random()
    if r < 0.08:
        return 0
    if r < 0.16:
        return (1 << w) - 1
    if r < 0.3:  # all-ones / all-zero groups
        g = 8 if fam == 4 else 16
        v = 0
        for _ in range(w // g):
            v = (v << g) | rng.choice([0, (1 << g) - 1, rng.getrandbits(g)])
        return v
    return rng.getrandbits(w)


def related(rng, fam, ip):
    """an address sharing a random number of leading bits with `ip`"""
    w = W[fam]
    k = rng.randint(0, w)
    r = rng.random()
    if r < 0.4:      # flip exactly bit k (from the top)
        return ip ^ (1 << (w - 1 - k)) if k < w else ip
    if r < 0.8:      # randomise the low w-k bits
        low = w - k
        return (ip >> low << low) | (rng.getrandbits(low) if low else 0)
    return max(0, min((1 << w) - 1, ip + rng.choice([-2, -1, 1, 2])))


# ------------------------------------------------------------------ generators
def grid(rng, fam, lens):
    w = W[fam]
    top = (1 << w) - 1
    for ly in lens:
        size = 1 << (w - ly)
        nblocks = 1 << ly
        for lx in lens:
            # y's block: boundary-biased (first, second, last, next-to-last block of the space, or random)
            blk = rng.choice([0, 1, nblocks - 1, nblocks - 2, rng.randrange(nblocks), rng.randrange(nblocks)])
            blk = max(0, min(nblocks - 1, blk))
            net = blk * size
            last = net + size - 1
            pos = {"before": net - 1, "first": net, "second": min(net + 1, last), "middle": net + size // 2,
                   "next-to-last": max(last - 1, net), "last": last, "after": last + 1}
            pos["middle"] = min(pos["middle"], last)
            yip = rng.choice([net, last, net + rng.randrange(size)])
            for name in POSITIONS:
                a = pos[name]
                if a < 0 or a > top:
                    continue        # nothing lies before / after the whole address space
                yield mk_cmp(fam, [[a, lx], [yip, ly]], tag="grid:" + name)


def rand_cmp(rng, fam):
    w = W[fam]
    ip = rand_ip(rng, fam)
    n = rng.choice([2, 3, 3])
    objs = []
    cur = ip
    for _ in range(n):
        objs.append([cur, rng.choice([0, 1, w - 2, w - 1, w, rng.randint(0, w), rng.randint(0, w)])])
        cur = related(rng, fam, cur if rng.random() < 0.5 else ip)
    if n == 3 and rng.random() < 0.5:
        # a chain: same address, ascending prefix lengths -> z contains y contains x
        ls = sorted(rng.randint(0, w) for _ in range(3))
        objs = [[related(rng, fam, ip) if rng.random() < 0.3 else ip, ls[2]], [ip, ls[1]], [ip, ls[0]]]
    return mk_cmp(fam, objs, tag="rand")


def rand_collapse(rng, fam):
    w = W[fam]
    base = rand_ip(rng, fam)
    n = rng.choice([0, 1, 2, 3, 4, 6, 8, 12])
    objs = []
    for _ in range(n):
        r = rng.random()
        ln = rng.choice([w, w, w - 1, w - 2, w - 3, rng.randint(max(0, w - 8), w), rng.randint(0, w), 0 if rng.random() < 0.1 else w - 1])
        if objs and r < 0.35:       # sibling of an earlier one
            pip, pl = rng.choice(objs)
            ip = pip ^ (1 << (w - pl)) if pl > 0 else pip
            ln = pl
        elif objs and r < 0.5:      # duplicate / same network other host bits
            pip, pl = rng.choice(objs)
            ip, ln = related(rng, fam, pip), pl
        elif r < 0.85:              # close to base
            ip = max(0, min((1 << w) - 1, base + rng.randint(-16, 16)))
        else:
            ip = rand_ip(rng, fam)
        objs.append([ip, max(0, min(w, ln))])
    return mk_collapse(fam, objs)


V6_QUICK_LENS = sorted(set(range(0, 129, 3)) | set(range(118, 129)))


def cases(rng, tier):
    if tier != "search":
        yield from grid(rng, 4, list(range(33)))
        yield from grid(rng, 6, list(range(129)) if tier == "thorough" else V6_QUICK_LENS)
    n = {"quick": 4000, "thorough": 60000, "search": 3000}[tier]
    for i in range(n):
        fam = 4 if i % 2 == 0 else 6
        if i % 5 == 4:
            yield rand_collapse(rng, fam)
        else:
            yield rand_cmp(rng, fam)


def neighbours(case, rng):
    fam = case["fam"]
    w = W[fam]
    for _ in range(400):
        objs = [list(o) for o in case["objs"]]
        if not objs:
            return
        i = rng.randrange(len(objs))
        if rng.random() < 0.5:
            objs[i][1] = max(0, min(w, objs[i][1] + rng.choice([-1, 1])))
        else:
            objs[i][0] = max(0, min((1 << w) - 1, objs[i][0] + rng.choice([-2, -1, 1, 2])))
        yield (mk_collapse if case["kind"] == "collapse" else mk_cmp)(fam, objs)


def nontrivial(case):
    objs = case["objs"]
    if case["kind"] == "collapse":
        return len(objs) >= 2
    for i, a in enumerate(objs):
        for j, b in enumerate(objs):
            if i != j and a != b and 0 < b[1] <= a[1]:
                return True
    return False


def describe(case):
    fam = case["fam"]
    return {"kind": case["kind"], "family": fam, "tag": case.get("tag"),
            "objects": [f"{addr_text(fam, ip)}/{ln}" for ip, ln in case["objs"]]}


def buckets(case, ans):
    fam = case["fam"]
    out = [f"v{fam}:{case['kind']}", f"v{fam}:{case.get('tag')}"]
    if case["kind"] == "cmp" and "|" in ans:
        bits = ans.split("|")[0].split(",")
        n = len(case["objs"])
        if n >= 2:
            out.append(f"v{fam}:x-in-y:" + bits[1][4])
            out.append(f"v{fam}:y-in-x:" + bits[n][4])
    if case["kind"] == "collapse":
        out.append("collapse-in:%d" % min(12, len(case["objs"])))
        out.append("collapse-out:%d" % (len(ans.split(";")) if ans else 0))
    return out


# ------------------------------------------------------------------ implementation
def impl(case):
    if case["kind"] == "cmp":
        return impl_cmp(case)[0]
    quiet_ccp()
    from ciscoconfparse2.ccp_util import collapse_addresses
    fam = case["fam"]
    objs = [make_obj(fam, ip, ln) for ip, ln in case["objs"]]
    res = list(collapse_addresses(objs))
    return ";".join(f"{int(n.network_address)}/{n.prefixlen}" for n in res)


# ------------------------------------------------------------------ oracle (independent of the Lean model)
def oracle_membership(case, ans):
    fam = case["fam"]
    w = W[fam]
    objs = case["objs"]
    n = len(objs)
    bits = ans.split("|")[0].split(",")
    if len(bits) != n * n:
        return [f"malformed answer {ans[:80]}"]
    inside = {}
    fails = []
    for i, (aip, al) in enumerate(objs):
        for j, (bip, bl) in enumerate(objs):
            got = bits[i * n + j][4] == "T"
            inside[i, j] = got
            na = std_net(fam, aip, al)
            nb = std_net(fam, bip, bl)
            want_std = na.subnet_of(nb)
            want_bits = bl <= al and (aip >> (w - bl)) == (bip >> (w - bl))
            assert want_std == want_bits, (case, i, j)
            if got != want_std:
                fails.append(f"{addr_text(fam, aip)}/{al} in {addr_text(fam, bip)}/{bl} is {got}, subnet containment is {want_std}")
            if i == j and not got:
                fails.append("membership is not reflexive")
    for i in range(n):
        for j in range(n):
            for k in range(n):
                if inside[i, j] and inside[j, k] and not inside[i, k]:
                    fails.append(f"membership is not transitive on objects {i},{j},{k}")
    return fails[:3]


def ranges_of(nets):
    iv = sorted((int(n.network_address), int(n.broadcast_address)) for n in nets)
    out = []
    for lo, hi in iv:
        if out and lo <= out[-1][1] + 1:
            out[-1][1] = max(out[-1][1], hi)
        else:
            out.append([lo, hi])
    return out


def oracle_collapse(case, ans):
    fam = case["fam"]
    w = W[fam]
    ins = [std_net(fam, ip, ln) for ip, ln in case["objs"]]
    want = ";".join(f"{int(n.network_address)}/{n.prefixlen}" for n in ipaddress.collapse_addresses(ins))
    fails = []
    if ans != want:
        fails.append(f"collapse gives {ans[:120]} but ipaddress.collapse_addresses gives {want[:120]}")
    # independent of the stdlib routine: same address set, canonical cover
    outs = []
    for item in (ans.split(";") if ans else []):
        a, _, l = item.partition("/")
        a, l = int(a), int(l)
        if a % (1 << (w - l)):
            fails.append(f"result {item} has host bits set")
            return fails[:3]
        outs.append(std_net(fam, a, l))
    if ranges_of(outs) != ranges_of(ins):
        fails.append("collapsed networks do not cover the same addresses as the input")
    for p, q in zip(outs, outs[1:]):
        if not (int(p.broadcast_address) < int(q.network_address)):
            fails.append("collapsed networks overlap or are not ascending")
        elif p.prefixlen == q.prefixlen and p.prefixlen > 0 and p.supernet() == q.supernet():
            fails.append(f"siblings {p} and {q} were not merged")
    return fails[:3]


def oracle(case, ans):
    if ans.startswith("err"):
        return [f"raised {ans}"]
    return oracle_collapse(case, ans) if case["kind"] == "collapse" else oracle_membership(case, ans)
