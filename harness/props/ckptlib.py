"""C07, integer level: the two checkpoint integers of ConfigList against the model `Ccp.Checkpoint` (channel `ckpt`).

The tuple hash is a parameter of the model; the harness computes `hash((linenum, text))` with Python directly for
every (linenum, text) pair the implementation's list held at some point of the history and sends those rows with the
request (which therefore depends on the implementation run: `impl` returns (answer, request))."""
import wire
from props import treelib as T
from props.common import quiet_ccp

PAYLOADS = [" shutdown", " shutdown", "interface Eth9", "!", " ! c", "  deeper", "x", "", " "]


def mk(lines, ops, origin="gen"):
    return {"kind": "ckpt", "lines": list(lines), "ops": list(ops), "_origin": origin, "req": None,
            "syntax": "ios", "factory": False, "ignore_blank": False, "delims": None}


def rand_case(rng):
    lines = [l for l in T.rand_config(rng, 8, False, None) if wire.wire_safe(l)]
    n = len(lines)
    ops = []
    for _ in range(rng.choice([1, 2, 3, 4, 6, 8])):
        r = rng.random()
        if r < 0.5:
            t = rng.choice(PAYLOADS + lines[:3]) if rng.random() < 0.8 else T.rand_plain_line(rng, None)
            # bursts of identical payloads: a checkpoint that cancels (XOR, set) would go back to the commit value
            k = rng.choice([1, 1, 2, 2, 3, 4])
            for _ in range(k):
                ops.append(["i", rng.randint(0, n), t])
                n += 1
        elif r < 0.62 and n > 0:
            ops.append(["p", rng.randrange(n)])
            n -= 1
        elif r < 0.74 and n > 0:
            ops.append(["t", rng.randrange(n), rng.choice(PAYLOADS)])
        else:
            ops.append(["c"])
            # blank lines are kept (ignore_blank_lines off): n unchanged
    if rng.random() < 0.5:
        ops.append(["c"])
    return mk(lines, ops)


def impl(case):
    quiet_ccp()
    from ciscoconfparse2 import CiscoConfParse
    parse = CiscoConfParse(list(case["lines"]), syntax="ios", factory=False, auto_commit=False)
    rows = {}

    def note():
        for o in parse.objs.data:
            rows[(o.linenum, o.text)] = hash((o.linenum, o.text))
    note()
    out = []
    for op in case["ops"]:
        cl = parse.objs
        if op[0] == "i":
            cl.insert(op[1], op[2])
        elif op[0] == "p":
            cl.pop(op[1])
        elif op[0] == "t":
            cl.data[op[1]].text = op[2]
        else:
            parse.commit()
        note()
        cl = parse.objs
        out.append(f"{cl.current_checkpoint - cl.commit_checkpoint},{'safe' if cl.search_safe else 'unsafe'}")
    ops = []
    for op in case["ops"]:
        if op[0] in ("i", "t"):
            ops.append(f"{op[0]}:{op[1]}:{wire.enc_str(op[2])}")
        elif op[0] == "p":
            ops.append(f"p:{op[1]}")
        else:
            ops.append("c")
    table = " ".join(f"{ln}:{hv}:{wire.enc_str(t)}" for (ln, t), hv in sorted(rows.items()))
    req = wire.req("ckpt", wire.enc_strs(case["lines"]), table, *ops)
    return "|".join(out), req


def oracle(case, ans):
    """independent of the model: after a commit the seatbelt is closed; after list inserts since the last commit it is
    open, unless the hashes of the inserted fresh objects (linenum -1) sum to zero (then the code cannot notice)"""
    got = ans.split("|")
    if len(got) != len(case["ops"]):
        return [f"malformed answer {ans[:80]}"]
    fresh = []
    for op, g in zip(case["ops"], got):
        delta, _, st = g.partition(",")
        if op[0] == "c":
            fresh = []
            if st != "safe" or delta != "0":
                return [f"after commit() the checkpoints differ by {delta} and search_safe is {st}"]
        elif op[0] == "i":
            fresh.append(op[2])
            s = sum(hash((-1, t)) for t in fresh)
            if s != 0 and st != "unsafe":
                return [f"after {len(fresh)} uncommitted insert(s) search_safe is still True (checkpoint difference {delta}); "
                        f"inserted texts {fresh!r}"]
    return []
