"""C19 — typed IOS interface / route models report what the text says; factory transparent."""
import itertools
import re

import wire
from props import treelib as T
from props.common import quiet_ccp

ID = "C19"
LEAN_MODULES = ["Ccp.Props.C19", "Ccp.Props.RxC19"]
# bound of the escalated quick run (source fingerprint changed -> thorough generator): keeps that run near two minutes
ESCALATE_MAX_CASES = 70000
RULE = ("three kinds of case. (1) intf: an interface stanza rendered from a structured description -- name = prefix + 1..3 numbers "
        "[:channel][.sub] + optional class word; ten main attributes (description, address, vrf, mtu, shutdown, bare switchport, "
        "access vlan, native vlan, allowed vlans, channel-group) under all 2^10 presence masks with values over their ranges "
        "(mtu 64..9216, vlans 1..4094 incl. boundaries, the 33 netmasks, vrf names, descriptions with blanks), plus switchport mode, "
        "ip mtu, 0..3 secondary addresses (before/after the primary), allowed-vlan 'add' continuation lines, dhcp/negotiated/no address; "
        "children in every permutation for every 5-subset of the main attributes (thorough; a rotating sample in quick) and random "
        "permutations beyond; unrelated children interleaved; the stanza embedded between other top-level lines and stanzas. Canonical "
        "cases (single blanks, indent 1, no trailing blank) are judged by the oracle; whitespace variants (wider/tab/NBSP gaps, deeper "
        "uniform indent, trailing blanks, nested grandchildren, remove/except lines, whitespace-only children, '.sub:chan' names) and a "
        "malformed stream are compared model-vs-code only. (2) route: 'ip route' lines over the cross product of the optional slots "
        "vrf, interface, next hop, global, distance, name, permanent|track, tag; the corner with neither interface nor next hop is kept "
        "and mapped to known finding F25 when a keyword follows the mask; whitespace variants and malformed lines model-vs-code only. "
        "(3) tree: dumps (texts, parents, children) with factory on vs off for ios/nxos/iosxr/asa on treelib's random configs, "
        "banner/macro blocks, the vendor fixtures and all generated stanzas; a factory parse that raises is allowed; plus junos with the "
        "factory on (brace configs and random lines; oracle only, the tree model has no brace conversion) and a dispatch stream whose lines "
        "walk the class list to its end (indented 'ipv6 route' / 'interface' / 'ip route' / 'hostname', 'aaa accounting|authentication|"
        "authorization', the IOSIntfGlobal commands). (4) factory-guard: config_line_factory called directly with each argument of a wrong "
        "type (all_lines tuple/None/str, line None/int/bytes, comment_delimiters str/tuple, syntax None/int/list/unknown, debug None/str/float) "
        "one at a time and in random pairs; accepted calls must return an object whose text is the line, the others must raise; the exception "
        "class is compared with the model. Observed since the coverage pass: port and ip_addr of an interface; address_family, nexthop_str, "
        "nexthop_vrf and unicast of a route; 'ip address dhcp|negotiated <mask>' and several remove / except lines among the variant children. "
        "non-trivial = a stanza with >= 2 described children / a route with >= 2 optional slots / a config with an indented line.")
LEVEL_TEXT = ("PARTIAL (the regex -> word-matcher step is modelled, not proved). Theorems (Lean 4, all descriptions, no size bound) about the "
              "token-level model Ccp.Ios: lex_render_line -- a line 'indent ++ words joined by single blanks' lexes to exactly that indent and "
              "those words; stanza_family -- for a header 'interface <name words>' at column 0 and children that are renderings of valid items "
              "at indent 1 (no banner start, blank lines kept, 'i' no comment delimiter) Ccp.Tree.parse (via C02 parse_links_eq_spec) gives the "
              "header exactly those children and C05's order yields the flat family; intf_accessors_roundtrip / intf_accessors_on_parse -- for "
              "every structured description d, every list of unrelated lines (incl. 'ip ...' lines whose second word is not address/mtu/vrf/ip) "
              "and every child list that is a permutation/interleaving of both, description, vrf, manual_mtu, manual_ip_mtu, is_shutdown, "
              "ipv4_addr, ipv4_netmask, ipv4_addr_object, portchannel_number, is_in_portchannel, is_switchport, has_manual_switch_access/trunk, "
              "access_vlan and native_vlan of line 0 of the parsed stanza return d's value, or the documented default ('' / -1 / False / 1 for a "
              "switchport); intf_masklength_roundtrip; secondaries_roundtrip -- the secondary loop collects exactly the described (address, "
              "prefix length) pairs; trunk_vlans_roundtrip -- empty for a non-switchport / mode access, else 1..4094 (no line or 'all'), empty "
              "('none'), or the sorted union of the written parts through C14's Range.parse; port_type_roundtrip; ordinal_list_roundtrip -- "
              "through C15's Ccp.Intf.parse and name_roundtrip (one-word names); subinterface_number_roundtrip / interface_number_roundtrip -- the "
              "two lazy regex groups give the whole number word / the number word without the trailing .sub, for prefix+digits+rest names "
              "with any accepted class-word tail; header_roundtrip -- name and dispatch to IOSIntfLine; "
              "route_roundtrip / route_accessors_roundtrip -- for every (vrf?, prefix, mask, intf?, nh?, global?, ad?, name?, permanent|track?, "
              "tag?) with at least one of intf/nh the slot consumer standing for _RE_IP_ROUTE returns every described value and the defaults; "
              "route_f25_witness; port_roundtrip; route_nexthop_str_roundtrip (nexthop_str = interface and next hop joined by one blank, "
              "address_family ip, nexthop_vrf / unicast always raise); factory_guard_spec (config_line_factory reaches its class walk iff all_lines is a "
              "list, line a str, comment_delimiters None or a list, debug an int and syntax in the regenerated ALL_VALID_SYNTAX); factory_transparent -- texts, parents and child lists are a function of (syntax flag, delimiters, ignore_blank, "
              "lines) only: Ccp.Tree.parse has no class/factory input. NOT proved, correspondence only: "
              "ordinal_list with a class word, interface_number of '.sub:chan' names, add/remove/except lines of trunk_vlans_allowed, unrelated lines starting with 'switchport'. The "
              "model is tied to IOSIntfLine / IOSRouteLine / CiscoConfParse(factory=True) by differential runs on every check, incl. whitespace "
              "variants and malformed lines.")
LEVEL_NOTE = ("Trusted: Lean kernel; axioms propext/Classical.choice/Quot.sound only; the correspondence harness. Modelled, not proved: each "
              "regular expression of models_cisco.py is hand-translated into a matcher over (leading whitespace, words, gaps); Python's re is "
              "never executed by the model, agreement is measured. IPv4Obj is re-implemented for canonical quads and contiguous netmasks; "
              "CiscoIOSInterface (ordinal_list) is C15's model Ccp.Intf.parse; CiscoRange text parsing is C14's model. Which class the factory "
              "picks and whether it accepts a line (constructors may raise) is outside the model: factory_transparent is a statement about the "
              "tree builder; that the real factory=True parse yields the same texts/links is measured (tree dumps on vs off), not proved. "
              "The theorems' description grammar has one 'allowed vlan' line; ordinal_list_roundtrip assumes the rendered name has no whitespace "
              "(true for names without class word, not proved). stanza_family keeps the hypothesis 'no line is a banner start': an unanchored "
              "'aaa authentication fail-message' inside a description would make the line a banner start.")
LEVEL_NOTE += (" " + "regexes_as_modelled (Ccp.RxC19): the scan set (regex calls with pattern text and flags, keyword / slice comparisons, separators) of each of the 28 modelled accessors of models_cisco.py (incl. _RE_IP_ROUTE in canonical verbose form) is re-read from /repo's AST on every run and proved equal to the literals the token matchers of Model/IosModels.lean were written for; the scan sets of CiscoIOSInterface (C15) and CiscoRange integer parsing (C14), which ordinal_list / trunk_vlans_allowed go through, are conjuncts too. An edit of any of these regexes breaks an obligation of this check.")
LEVEL_NOTE += (" Scan sets as revised: regexes_as_modelled ties the regex-engine calls with the pattern in canonical form (canonical verbose form without the flag, group names and redundant escapes removed, per-value specialisation of a pattern passed to a same-file helper or built from a name that ranges over a constant collection, always-true searches left out), flags, re.sub replacements and the separator arguments of str.split/join/replace/strip; the literal tests (\"lit\" in x, == against string literals and their subscripts, startswith) are informational definitions Gen.rx...Info, no theorem is about them.")
EXHAUSTIVE = {"quick": False, "thorough": False}
ASSUMPTIONS = [
    "no line-break character inside a config line; ASCII digits only",
    "addresses are canonical dotted quads, masks contiguous netmasks (IPv4Obj re-implemented on that region only)",
    "interface names: letters/hyphen prefix, 1..3 slash-separated numbers, optional :channel and .sub, optional class word",
    "route theorem: at least one of interface / next hop (F25 corner excluded), words separated by single blanks",
]
TRUSTED = ["hand translation of the regular expressions of models_cisco.py into token matchers (measured, not proved)"]

INTF_FIELDS = ["name", "port_type", "ordinal_list", "interface_number", "subinterface_number", "is_portchannel_intf",
               "description", "ipv4_addr", "ipv4_netmask", "ipv4_masklength", "ipv4_addr_object", "ip_secondary_addresses",
               "ip_secondary_networks", "vrf", "manual_mtu", "manual_ip_mtu", "is_shutdown", "is_switchport",
               "has_manual_switch_access", "has_manual_switch_trunk", "access_vlan", "native_vlan", "trunk_vlans_allowed",
               "portchannel_number", "is_in_portchannel", "port", "ip_addr"]
ROUTE_FIELDS = ["vrf", "network", "netmask", "masklen", "next_hop_interface", "next_hop_addr", "admin_distance", "route_name",
                "tracking_object_name", "tag", "permanent", "multicast", "global_next_hop",
                "address_family", "nexthop_str", "nexthop_vrf", "unicast"]

MAIN = ["description", "addr", "vrf", "mtu", "shutdown", "switchport", "access_vlan", "native_vlan", "allowed", "channel_group"]
MASKS = [".".join(str((((0xFFFFFFFF << (32 - n)) & 0xFFFFFFFF) >> s) & 255) for s in (24, 16, 8, 0)) for n in range(33)]
PREFIXES = ["GigabitEthernet", "FastEthernet", "Ethernet", "Serial", "ATM", "Loopback", "Vlan", "Port-channel", "Tunnel", "Gi",
            "TenGigabitEthernet", "Dialer", "mgmt", "Virtual-Template", "Te", "POS"]
CLASSES = ["point-to-point", "multipoint", "l2transport"]
VRFS = ["BLUE", "mgmt-vrf", "CUST:100", "a", "VRF_1", "Mgmt-intf", "10"]
DESCRS = ["uplink", "to core sw1 port 3", "mtu 1500", "shutdown", "ip address 1.1.1.1 255.0.0.0", "x", "### WAN ###",
          "switchport access vlan 5", "Link to R2 (Gi0/1)", "vrf forwarding X", "été 5", "description", "a  b", "1"]
UNRELATED = ["no ip proxy-arp", "duplex auto", "speed 1000", "spanning-tree portfast", "service-policy output FOO", "ip ospf cost 10",
             "mtux 5", "ip mtux 5", "no shutdown", "no switchport", "no ip address", "ip helper-address 10.1.1.1", "bandwidth 1000",
             "standby 1 ip 10.0.0.254", "load-interval 30", "no mtu", "ip addressx 1.1.1.1 255.0.0.0", "no channel-group",
             "no description", "ip vrf receive X", "vrf forwardingx Y", "channel-groupx 4", "cdp enable", "ip address", "nameif outside",
             "ipv6 address 2001:db8::1/64", "no ip vrf forwarding", "ip unnumbered Loopback0", "keepalive 10", "negotiation auto"]
WSGAPS = [" ", " ", " ", "  ", "   ", "\t", " \t", " ", " "]
BEFORE = [[], [], ["hostname R1"], ["!"], ["interface Loopback9", " description other", " mtu 1400", " ip address 9.9.9.9 255.255.255.255", "!"],
          ["interface Vlan7", " switchport", " shutdown", " channel-group 9 mode on"], ["version 15.2", "!", "ip vrf BLUE", " rd 1:1"]]
AFTER = [[], [], ["!"], ["interface Vlan1", " shutdown", " vrf forwarding Z", " switchport access vlan 77"], ["end"],
         ["ip route 0.0.0.0 0.0.0.0 10.0.0.1"], ["!", "router ospf 1", " network 10.0.0.0 0.0.0.255 area 0"]]
ROUTE_INTFS = ["Null0", "GigabitEthernet0/1", "Serial1/0:3", "Vlan10", "Tunnel1", "Dialer1", "Port-channel5.100", "Gi0/0/0", "Et1"]
ROUTE_NAMES = ["foo", "DEFAULT", "to-core", "name", "track", "10", "a", "tag"]


# ------------------------------------------------------------------ structured descriptions
def rand_quad(rng):
    return ".".join(str(rng.choice([0, 1, 9, 10, 99, 100, 127, 128, 172, 192, 200, 254, 255, rng.randint(0, 255)])) for _ in range(4))


def rand_vlan(rng):
    return rng.choice([1, 2, 9, 10, 99, 100, 1000, 1002, 4093, 4094, rng.randint(1, 4094)])


def rand_parts(rng):
    parts = []
    for _ in range(rng.choice([1, 1, 2, 3, 5])):
        lo = rand_vlan(rng)
        if rng.random() < 0.5:
            parts.append((lo, None))
        else:
            parts.append((lo, min(4094, lo + rng.choice([0, 1, 2, 5, 50, 500]))))
    return parts


def render_parts(parts):
    return ",".join(str(lo) if hi is None else f"{lo}-{hi}" for lo, hi in parts)


def expand_parts(parts):
    out = set()
    for lo, hi in parts:
        out.update([lo] if hi is None else range(lo, hi + 1))
    return out


def rand_name(rng, variant=False):
    nums = [rng.choice([0, 1, 2, 9, 10, 25, 48, 100, rng.randint(0, 300)]) for _ in range(rng.choice([1, 1, 2, 2, 3]))]
    return {
        "prefix": rng.choice(PREFIXES), "nums": nums,
        "chan": rng.choice([0, 1, 5, 23]) if rng.random() < 0.15 else None,
        "sub": rng.choice([0, 1, 9, 10, 100, 4094, rng.randint(0, 99999)]) if rng.random() < 0.4 else None,
        "order": "sc" if variant and rng.random() < 0.3 else "cs",
        "cls": rng.choice(CLASSES) if rng.random() < 0.2 else None,
        "space": rng.random() < 0.1,
    }


def number_word(n):
    w = "/".join(map(str, n["nums"]))
    chan = "" if n["chan"] is None else ":%d" % n["chan"]
    sub = "" if n["sub"] is None else ".%d" % n["sub"]
    return w + (chan + sub if n["order"] == "cs" else sub + chan)


def name_words(n):
    first = [n["prefix"], number_word(n)] if n["space"] else [n["prefix"] + number_word(n)]
    return first + ([n["cls"]] if n["cls"] else [])


def rand_desc(rng, mask=None, variant=False):
    """mask: dict attr -> present?, for the ten main attributes (random when None)"""
    if mask is None:
        mask = {a: rng.random() < 0.5 for a in MAIN}
    d = {"name": rand_name(rng, variant), "secondaries": [], "mode": None, "ip_mtu": None, "adds": [], "others": [], "extra": []}
    d["description"] = rng.choice(DESCRS) if mask["description"] else None
    if mask["addr"]:
        r = rng.random()
        if r < 0.8:
            d["addr"] = ["static", rand_quad(rng), rng.choice(MASKS)]
            for _ in range(rng.choice([0, 0, 0, 1, 2, 3])):
                d["secondaries"].append([rand_quad(rng), rng.choice(MASKS)])
        else:
            d["addr"] = [rng.choice(["dhcp", "negotiated"])]
    else:
        d["addr"] = None
    d["vrf"] = [rng.random() < 0.5, rng.choice(VRFS)] if mask["vrf"] else None
    d["mtu"] = rng.choice([64, 68, 1500, 1501, 4470, 9000, 9216, rng.randint(64, 9216)]) if mask["mtu"] else None
    if rng.random() < 0.25:
        d["ip_mtu"] = rng.choice([68, 1400, 1500, rng.randint(68, 9000)])
    d["shutdown"] = rng.choice(["shutdown", "shutdown", "shut"]) if mask["shutdown"] else None
    d["switchport"] = bool(mask["switchport"])
    if rng.random() < 0.4:
        d["mode"] = rng.choice(["access", "trunk", "trunk"])
    d["access_vlan"] = rand_vlan(rng) if mask["access_vlan"] else None
    d["native_vlan"] = rand_vlan(rng) if mask["native_vlan"] else None
    if mask["allowed"]:
        r = rng.random()
        d["allowed"] = "all" if r < 0.12 else "none" if r < 0.24 else rand_parts(rng)
        for _ in range(rng.choice([0, 0, 0, 1, 2])):
            d["adds"].append(rand_parts(rng))
    else:
        d["allowed"] = None
    d["channel_group"] = [rng.choice([0, 1, 5, 48, 255, rng.randint(1, 255)]), rng.choice([None, "on", "active", "passive"])] \
        if mask["channel_group"] else None
    for _ in range(rng.choice([0, 0, 1, 2, 3])):
        d["others"].append(rng.choice(UNRELATED))
    return d


def items_of(d):
    """the command lines of a description as (kind, words-text); canonical child order"""
    out = []
    if d["description"] is not None:
        out.append(("description", "description " + d["description"]))
    if d["addr"]:
        if d["addr"][0] == "static":
            out.append(("addr", "ip address %s %s" % (d["addr"][1], d["addr"][2])))
        else:
            out.append(("addr", "ip address " + d["addr"][0]))
    for a, m in d["secondaries"]:
        out.append(("secondary", f"ip address {a} {m} secondary"))
    if d["vrf"]:
        out.append(("vrf", ("ip " if d["vrf"][0] else "") + "vrf forwarding " + d["vrf"][1]))
    if d["mtu"] is not None:
        out.append(("mtu", "mtu %d" % d["mtu"]))
    if d["ip_mtu"] is not None:
        out.append(("ip_mtu", "ip mtu %d" % d["ip_mtu"]))
    if d["shutdown"]:
        out.append(("shutdown", d["shutdown"]))
    if d["switchport"]:
        out.append(("switchport", "switchport"))
    if d["mode"]:
        out.append(("mode", "switchport mode " + d["mode"]))
    if d["access_vlan"] is not None:
        out.append(("access_vlan", "switchport access vlan %d" % d["access_vlan"]))
    if d["native_vlan"] is not None:
        out.append(("native_vlan", "switchport trunk native vlan %d" % d["native_vlan"]))
    if d["allowed"] is not None:
        v = d["allowed"] if isinstance(d["allowed"], str) else render_parts(d["allowed"])
        out.append(("allowed", "switchport trunk allowed vlan " + v))
    for p in d["adds"]:
        out.append(("add", "switchport trunk allowed vlan add " + render_parts(p)))
    if d["channel_group"]:
        n, mode = d["channel_group"]
        out.append(("channel_group", "channel-group %d" % n + (" mode " + mode if mode else "")))
    for o in d["others"]:
        out.append(("other", o))
    return out


def expected(d):
    """the property's reading of a description: what each accessor must return"""
    n = d["name"]
    e = {}
    e["name"] = wire.enc_str(" ".join(name_words(n)))
    e["port_type"] = wire.enc_str(n["prefix"])
    nums = n["nums"]
    slot, card, port = (-1, -1, nums[0]) if len(nums) == 1 else (nums[0], -1, nums[1]) if len(nums) == 2 else tuple(nums)
    e["ordinal_list"] = ",".join(map(str, [slot, card, port, -1 if n["sub"] is None else n["sub"], -1 if n["chan"] is None else n["chan"], -1]))
    nw = number_word(n)
    if n["order"] == "cs" or n["chan"] is None or n["sub"] is None:
        base = "/".join(map(str, nums)) + ("" if n["chan"] is None else ":%d" % n["chan"])
        e["interface_number"] = wire.enc_str(base)
    e["subinterface_number"] = wire.enc_str(nw)
    e["is_portchannel_intf"] = "T" if "channel" in " ".join(name_words(n)).lower() else "F"
    e["description"] = wire.enc_str(d["description"] or "")
    static = d["addr"] and d["addr"][0] == "static"
    e["ipv4_addr"] = wire.enc_str(d["addr"][1] if static else "")
    e["ipv4_netmask"] = wire.enc_str(d["addr"][2] if static else "")
    e["ipv4_masklength"] = str(MASKS.index(d["addr"][2])) if static else "-1"
    e["ipv4_addr_object"] = "%s/%d" % (d["addr"][1], MASKS.index(d["addr"][2])) if static else "-"
    e["ip_secondary_addresses"] = " ".join(sorted({a for a, _ in d["secondaries"]}))
    e["ip_secondary_networks"] = " ".join(sorted({"%s/%d" % (a, MASKS.index(m)) for a, m in d["secondaries"]}))
    e["vrf"] = wire.enc_str(d["vrf"][1] if d["vrf"] else "")
    e["manual_mtu"] = str(d["mtu"] if d["mtu"] is not None else -1)
    e["manual_ip_mtu"] = str(d["ip_mtu"] if d["ip_mtu"] is not None else -1)
    e["is_shutdown"] = "T" if d["shutdown"] else "F"
    sw = bool(d["switchport"] or d["mode"] or d["access_vlan"] is not None or d["native_vlan"] is not None
              or d["allowed"] is not None or d["adds"])
    e["is_switchport"] = "T" if sw else "F"
    e["has_manual_switch_access"] = "T" if d["mode"] == "access" else "F"
    e["has_manual_switch_trunk"] = "T" if d["mode"] == "trunk" else "F"
    e["access_vlan"] = str(d["access_vlan"] if d["access_vlan"] is not None else (1 if sw else -1))
    e["native_vlan"] = str(d["native_vlan"] if d["native_vlan"] is not None else (1 if sw else -1))
    if sw and d["mode"] != "access":
        if d["allowed"] is None or d["allowed"] == "all":
            vl = set(range(1, 4095))
        elif d["allowed"] == "none":
            vl = set()
        else:
            vl = expand_parts(d["allowed"])
        for p in d["adds"]:
            vl |= expand_parts(p)
    else:
        vl = set()
    e["trunk_vlans_allowed"] = vl
    e["portchannel_number"] = str(d["channel_group"][0] if d["channel_group"] else -1)
    e["is_in_portchannel"] = "T" if d["channel_group"] else "F"
    e["port"] = str(port)
    e["ip_addr"] = e["ipv4_addr"]
    return e


def expand_compressed(s):
    """independent reader of a compressed range string"""
    out = set()
    if s == "":
        return out
    for part in s.split(","):
        if "-" in part:
            a, b = part.split("-")
            out.update(range(int(a), int(b) + 1))
        else:
            out.add(int(part))
    return out


# ------------------------------------------------------------------ case construction
def mk_intf(lines, idx, desc=None, canonical=False, origin="gen", stream="intf"):
    case = {"kind": "intf", "lines": list(lines), "idx": idx, "desc": desc, "canonical": bool(canonical and desc is not None),
            "stream": stream, "_origin": origin}
    if all(wire.wire_safe(l) for l in lines):
        case["req"] = wire.req("ios", "intf", str(idx), wire.enc_strs(lines))
    else:
        case["req"] = None
    return case


def mk_route(line, desc=None, canonical=False, origin="gen", stream="route"):
    return {"kind": "route", "line": line, "desc": desc, "canonical": bool(canonical and desc is not None), "stream": stream,
            "_origin": origin, "req": wire.req("ios", "route", wire.enc_str(line)) if wire.wire_safe(line) else None}


def mk_tree(syntax, ign, delims, lines, origin="gen", stream="tree"):
    c = T.mk_case("all", syntax, False, ign, delims, lines, origin)
    c["kind"] = "tree"
    c["stream"] = stream
    if len(lines) > 400:
        c["req"] = None          # large fixtures: factory on/off compared by the oracle only
    return c


AL_KINDS = {"list": True, "tuple": False, "None": False, "str": False}
LINE_KINDS = {"str": True, "None": False, "int": False, "bytes": False}
DELIM_KINDS = {"None": "-", "list": "1", "str": "0", "tuple": "0"}
DEBUG_KINDS = {"0": True, "1": True, "True": True, "None": False, "str": False, "float": False}


def mk_factory(al, ln, ds, syn, dbg, line="hostname R1", origin="gen"):
    """a direct call of config_line_factory: which Python type each argument has; syn = ["str", text] or ["None"] / ["int"] / ["list"]"""
    case = {"kind": "factory", "al": al, "ln": ln, "ds": ds, "syn": list(syn), "dbg": dbg, "line": line, "stream": "factory-guard",
            "canonical": False, "_origin": origin}
    case["req"] = wire.req("factory", "guard", "1" if AL_KINDS[al] else "0", "1" if LINE_KINDS[ln] else "0", DELIM_KINDS[ds],
                           wire.enc_str(syn[1]) if syn[0] == "str" else "-", "1" if DEBUG_KINDS[dbg] else "0")
    return case


def from_corpus(c):
    if c["kind"] == "factory":
        return mk_factory(c["al"], c["ln"], c["ds"], c["syn"], c["dbg"], c.get("line", "hostname R1"), "corpus")
    if c["kind"] == "intf":
        return mk_intf(c["lines"], c["idx"], c.get("desc"), c.get("canonical", False), "corpus")
    if c["kind"] == "route":
        return mk_route(c["line"], c.get("desc"), c.get("canonical", False), "corpus")
    return mk_tree(c["syntax"], c.get("ignore_blank", False), c.get("delims"), c["lines"], "corpus")


def stanza_case(rng, d, order=None, embed=True, stream="intf"):
    items = items_of(d)
    if order is None:
        rng.shuffle(items)
    else:
        items = [items[i] for i in order]
    before = rng.choice(BEFORE) if embed else []
    after = rng.choice(AFTER) if embed else []
    lines = list(before) + ["interface " + " ".join(name_words(d["name"]))] + [" " + t for _, t in items] + list(after)
    return mk_intf(lines, len(before), d, True, stream=stream)


def variant_case(rng, d):
    """whitespace variants and shapes outside the theorem's rendering: compared model-vs-code only"""
    items = items_of(d)
    extra = []
    r = rng.random()
    if r < 0.25:
        extra.append(("x", "switchport trunk allowed vlan %s %s" % (rng.choice(["remove", "except"]), render_parts(rand_parts(rng)))))
    if rng.random() < 0.15:
        extra.append(("x", "switchport trunk allowed vlan " + render_parts(rand_parts(rng))))
    if rng.random() < 0.1:
        extra.append(("x", rng.choice(["mtu 1500 x", "mtu", "mtu x", "channel-group 12x", "channel-group x", "switchport access vlan",
                                       "switchport access vlan x", "switchport trunk native vlan 5 6", "description", "shutdown now",
                                       "ip address 1.1.1.1", "ip address 1.1.1.1 255.0.0.0 secondary extra", "vrf forwarding",
                                       "vrf forwarding A B", "ip ip vrf forwarding Q", "switchport trunk allowed vlan 1-3, 7",
                                       "switchport trunk allowed vlan add", "switchport trunk allowed vlan none x", "ip address dhcp x",
                                       "switchport trunk allowed vlan ALL", "switchport access vlan +7", "mtu 1_0",
                                       "ip address dhcp 1.2.3.4", "ip address negotiated 255.0.0.0", "ip address dhcp 255.255.255.0",
                                       "ip address negotiated 255.255.255.255"])))
    if rng.random() < 0.15:
        # several remove / except lines in one stanza (each kind accumulates)
        kind = rng.choice(["remove", "except"])
        for _ in range(rng.choice([2, 2, 3])):
            extra.append(("x", "switchport trunk allowed vlan %s %s" % (kind if rng.random() < 0.8 else rng.choice(["remove", "except", "add"]),
                                                                        render_parts(rand_parts(rng)))))
    items = items + extra
    rng.shuffle(items)
    ind = rng.choice([" ", " ", "  ", "   ", "\t", "  "])
    gapmode = rng.random()

    def render(text):
        ws = text.split(" ")
        out = ws[0]
        for w in ws[1:]:
            if w == "":
                out += " "
                continue
            out += (rng.choice(WSGAPS) if gapmode < 0.6 and rng.random() < 0.4 else " ") + w
        if rng.random() < 0.12:
            out += rng.choice([" ", "  ", "\t"])
        return out

    kids = []
    for _, t in items:
        kids.append(ind + render(t))
        if rng.random() < 0.06:
            kids.append(ind + " " + rng.choice(["mtu 9000", "vbr-nrt 704 704", "description nested", "switchport access vlan 9",
                                                "ip address 7.7.7.7 255.0.0.0 secondary", "shutdown", "channel-group 3"]))
        if rng.random() < 0.03:
            kids.append(rng.choice([" ", "  ", ind, " !", ind + "! c"]))
    n = d["name"]
    hdr = "interface" + rng.choice([" ", " ", "  ", "\t"]) + rng.choice([" ", "  "]).join(name_words(n)) + rng.choice(["", "", " ", "  "])
    before = rng.choice(BEFORE)
    lines = list(before) + [hdr] + kids + list(rng.choice(AFTER))
    return mk_intf(lines, len(before), d, False, stream="intf-variant")


MALFORMED_HDR = ["interface X", "interface Ethernet", "interface 1/2", "interface Gi1/2/3/4", "interface Eth1.2.3", "interface Serial 4/1/2 . 3",
                 " interface Gi0/1", "interface Gi0/1.", "interface Gi0/1:", "interface Gi-0/1", "interface Gi0/1 a  b", "interface Gi0/1.5 a b c",
                 "interface range Gi0/1 - 2", "interface Vlan", "interface Gi0/1/", "interface Port-channel5.100 x",
                 "interface  Gi0/1.7  multipoint", "interfaces Gi0/1", "interface Gi0/1.12.5 x"]


def rand_route(rng, mask=None):
    keys = ["vrf", "intf", "nh", "global", "ad", "name", "pt", "tag"]
    if mask is None:
        mask = {k: rng.random() < 0.5 for k in keys}
    d = {"prefix": rand_quad(rng), "mask": rng.choice(MASKS)}
    d["vrf"] = rng.choice(VRFS) if mask["vrf"] else None
    d["intf"] = rng.choice(ROUTE_INTFS) if mask["intf"] else None
    d["nh"] = rand_quad(rng) if mask["nh"] else None
    d["global"] = bool(mask["global"])
    d["ad"] = rng.choice([1, 2, 10, 200, 254, 255, rng.randint(1, 255)]) if mask["ad"] else None
    d["name"] = rng.choice(ROUTE_NAMES) if mask["name"] else None
    pt = mask["pt"]
    if pt is True:
        pt = rng.choice(["permanent", "track"])
    d["permanent"] = pt == "permanent"
    d["track"] = rng.choice([1, 3, 10, 500, 1000]) if pt == "track" else None
    d["tag"] = rng.choice([1, 100, 65535, 4294967295]) if mask["tag"] else None
    return d


def route_words(d):
    w = ["ip", "route"]
    if d["vrf"]:
        w += ["vrf", d["vrf"]]
    w += [d["prefix"], d["mask"]]
    if d["intf"]:
        w.append(d["intf"])
    if d["nh"]:
        w.append(d["nh"])
    if d["global"]:
        w.append("global")
    if d["ad"] is not None:
        w.append(str(d["ad"]))
    if d["name"]:
        w += ["name", d["name"]]
    if d["permanent"]:
        w.append("permanent")
    if d["track"] is not None:
        w += ["track", str(d["track"])]
    if d["tag"] is not None:
        w += ["tag", str(d["tag"])]
    return w


def route_expected(d):
    return {
        "vrf": wire.enc_str(d["vrf"] or ""), "network": wire.enc_str(d["prefix"]), "netmask": wire.enc_str(d["mask"]),
        "masklen": str(MASKS.index(d["mask"])), "next_hop_interface": wire.enc_str(d["intf"] or ""),
        "next_hop_addr": wire.enc_str(d["nh"] or ""), "admin_distance": str(d["ad"] if d["ad"] is not None else 1),
        "route_name": wire.enc_str(d["name"] or ""), "tracking_object_name": wire.enc_str("" if d["track"] is None else str(d["track"])),
        "tag": wire.enc_str("" if d["tag"] is None else str(d["tag"])), "permanent": "T" if d["permanent"] else "F",
        "multicast": "F", "global_next_hop": "T" if (not d["vrf"] or d["global"]) else "F",
        "address_family": wire.enc_str("ip"),
        # next hop as one string: interface and address, whichever are there (surrounding blanks are not judged)
        "nexthop_str": " ".join(x for x in (d["intf"], d["nh"]) if x),
    }


MALFORMED_ROUTES = ["ip route", "ip route ", "ip route vrf", "ip route vrf X", "ip route 10.0.0.0", "ip route 10.0.0.0 255.0.0.0",
                    "ip route 10.0.0 255.0.0.0 Null0", "ip route 10.0.0.0 255.0.0.0x Null0", "ip route 10.0.0.0 255.0.0.0 X",
                    "ip route 10.0.0.0 255.0.0.0 1.1.1.1x 5", "ip route 10.0.0.0 255.0.0.0 1.1.1.1 12abc name n", "ip  route 10.0.0.0 255.0.0.0 Null0",
                    "ip route 10.0.0.0 255.0.0.0 Null0 tag 5 name foo", "ip route 10.0.0.0 255.0.0.0 Null0 name", "ip route 10.0.0.0 255.0.0.0 Null0 track x",
                    "ip route 10.0.0.0 255.0.0.0 1.1.1.1 dhcp", "ip route 10.0.0.0 255.0.0.0 dhcp", "ip route 10.0.0.0 255.0.0.0 dhcp 5",
                    "ip route 10.0.0.0 255.0.0.0 1.1.1.1 multicast", "ip route 10.0.0.0 255.0.0.0 1.1.1.1 globalx 5", "ip route vrf 1.1.1.1 255.0.0.0 Null0",
                    "ip route vrf vrf 1.1.1.1 255.0.0.0 Null0", "ip route 10.0.0.0 255.0.0.0 1.1.1.1 permanent track 3", " ip route 10.0.0.0 255.0.0.0 Null0",
                    "ip route 10.0.0.0 255.0.0.0 Null0 1.1.1.1 1.1.1.2", "ip route 10.0.0.0 255.0.0.0 Null0 Null1", "ip route 10.0.0.0 255.0.0.0 5 6",
                    "ip route 10.0.0.0 255.0.0.0.0 Null0", "ip route 10.0.0.0 255.0.0.0 1.1.1 5", "ip route 10.0.0.0 255.0.0.0 Null0 name foo tag", "ip routes 1.1.1.1 255.0.0.0 Null0",
                    "ip route 10.0.0.0 255.0.0.0 Null0 track 3x tag 5", "ip route 10.0.0.0 255.0.0.0 n"]


def route_variant(rng, d):
    ws = route_words(d)
    out = "ip route"
    for w in ws[2:]:
        out += rng.choice(WSGAPS) + w
    if rng.random() < 0.2:
        out += rng.choice([" ", "  ", "\t"])
    return mk_route(out, d, False, stream="route-variant")


# ------------------------------------------------------------------ the case stream
def cases(rng, tier):
    T.selfcheck()
    quick = tier == "quick"
    if tier != "search":
        # (1a) all presence masks of the ten main attributes
        for rep in range(1 if quick else 6):
            for bits in range(1 << len(MAIN)):
                mask = {a: bool(bits >> i & 1) for i, a in enumerate(MAIN)}
                yield stanza_case(rng, rand_desc(rng, mask), stream="intf-mask")
        # (1b) every permutation of the children, for 5-subsets of the main attributes
        subsets = list(itertools.combinations(MAIN, 5))
        if quick:
            rng.shuffle(subsets)
            subsets = subsets[:6]
        for sub in subsets:
            d = rand_desc(rng, {a: a in sub for a in MAIN})
            d["secondaries"], d["adds"], d["others"], d["mode"], d["ip_mtu"] = [], [], [], None, None
            n = len(items_of(d))
            for order in itertools.permutations(range(n)):
                yield stanza_case(rng, d, order=list(order), embed=False, stream="intf-perm")
        # (1c) secondaries before / after the primary, every position
        for _ in range(20 if quick else 300):
            d = rand_desc(rng, {a: a in ("addr", "description") for a in MAIN})
            d["addr"] = ["static", rand_quad(rng), rng.choice(MASKS)]
            d["secondaries"] = [[rand_quad(rng), rng.choice(MASKS)] for _ in range(rng.choice([1, 2, 3]))]
            d["others"] = []
            n = len(items_of(d))
            perms = list(itertools.permutations(range(n)))
            for order in (perms if len(perms) <= 24 else rng.sample(perms, 24)):
                yield stanza_case(rng, d, order=list(order), embed=False, stream="intf-secondary")
        for h in MALFORMED_HDR:
            yield mk_intf([h, " description x", " shutdown"], 0, None, False, stream="intf-malformed")
        # (2) routes: the cross product of the optional slots
        for rep in range(2 if quick else 25):
            for bits in itertools.product([False, True], repeat=7):
                for pt in (None, "permanent", "track"):
                    mask = dict(zip(["vrf", "intf", "nh", "global", "ad", "name", "tag"], bits))
                    mask["pt"] = pt
                    d = rand_route(rng, mask)
                    yield mk_route(" ".join(route_words(d)), d, True)
        for line in MALFORMED_ROUTES:
            yield mk_route(line, None, False, stream="route-malformed")
        # (4) config_line_factory called directly: one argument of a wrong type / an unknown syntax at a time, and pairs
        good = ("list", "str", "None", ["str", "ios"], "0")
        alts = [list(AL_KINDS), list(LINE_KINDS), list(DELIM_KINDS),
                [["str", x] for x in ("ios", "nxos", "iosxr", "asa", "junos", "foo", "", "IOS")] + [["None"], ["int"], ["list"]], list(DEBUG_KINDS)]
        for pos, vals in enumerate(alts):
            for v in vals:
                a = list(good)
                a[pos] = v
                yield mk_factory(*a)
                b = list(a)
                b[2] = "list"
                yield mk_factory(*b)
        # (3) vendor fixtures, factory on vs off
        for name, lines in T.fixture_configs():
            syn = "asa" if name.endswith(".asa") else "nxos" if name.endswith(".nxos") else "iosxr" if name.endswith(".iosxr") else "ios"
            yield mk_tree(syn, False, None, lines, stream="tree-fixture")
            if not quick:
                for other in T.SYNTAXES:
                    if other != syn:
                        yield mk_tree(other, False, None, lines, stream="tree-fixture")
    n_rand = {"quick": 1200, "thorough": 25000, "search": 1500}[tier]
    for _ in range(n_rand):
        yield stanza_case(rng, rand_desc(rng), stream="intf-random")
    for _ in range({"quick": 1200, "thorough": 25000, "search": 1500}[tier]):
        yield variant_case(rng, rand_desc(rng, variant=True))
    for _ in range({"quick": 600, "thorough": 12000, "search": 800}[tier]):
        yield route_variant(rng, rand_route(rng))
    for _ in range({"quick": 150, "thorough": 3000, "search": 300}[tier]):
        base = rng.choice(MALFORMED_ROUTES + [" ".join(route_words(rand_route(rng)))])
        ws = base.split(" ")
        if len(ws) > 2 and rng.random() < 0.7:
            i = rng.randrange(2, len(ws))
            r = rng.random()
            if r < 0.3:
                del ws[i]
            elif r < 0.6:
                ws.insert(i, rng.choice(["name", "tag", "track", "5", "1.1.1.1", "Null0", "vrf", "global", "permanent", "x", "dhcp", "multicast", "7x"]))
            else:
                ws[i] = ws[i] + rng.choice(["x", "1", ".", ""])
        yield mk_route(" ".join(ws), None, False, stream="route-malformed")
    for _ in range({"quick": 60, "thorough": 1500, "search": 60}[tier]):
        syn = rng.choice([["str", rng.choice(["ios", "nxos", "iosxr", "asa", "junos", "foo", ""])], ["None"], ["int"], ["list"], ["str", "ios"], ["str", "nxos"]])
        yield mk_factory(rng.choice(["list"] * 3 + list(AL_KINDS)), rng.choice(["str"] * 3 + list(LINE_KINDS)), rng.choice(list(DELIM_KINDS)), syn,
                         rng.choice(["0"] * 3 + list(DEBUG_KINDS)),
                         line=rng.choice(["hostname R1", "interface Gi0/1", "ip route 10.0.0.0 255.0.0.0 Null0", " shutdown", "!", "", "ipv6 route ::/0 Null0"]))
    # (3b) junos with the factory on (brace conversion first; outside the tree model: on/off dumps compared by the oracle only),
    #      and lines that walk the class dispatch of the other syntaxes to its end
    DISPATCH = [" ipv6 route ::/0 Null0", "ipv6 route ::/0 Null0", " interface Gi0/9", "aaa accounting exec default start-stop group tacacs+",
                " aaa accounting commands 15 default none", "aaa authentication login default local", " aaa authorization exec default local",
                "no cdp run", "logging event link-status global", "spanning-tree portfast default", "spanning-tree portfast bpduguard default",
                " hostname inner", " ip route 10.0.0.0 255.0.0.0 Null0", "aaa new-model"]
    for _ in range({"quick": 120, "thorough": 3000, "search": 100}[tier]):
        syn = rng.choice(["ios", "ios", "nxos", "iosxr", "asa"])
        lines = T.rand_config(rng, maxlen=6, banners=False, delims=None)
        for _ in range(rng.choice([1, 2, 3])):
            lines.insert(rng.randrange(len(lines) + 1), rng.choice(DISPATCH))
        yield mk_tree(syn, False, None, lines, stream="tree-dispatch")
    for _ in range({"quick": 80, "thorough": 2000, "search": 60}[tier]):
        r = rng.random()
        if r < 0.5:
            lines = ["interfaces {", "    ge-0/0/%d {" % rng.randint(0, 3), "        unit 0 {", "            family inet {",
                     "                address 10.0.%d.1/24;" % rng.randint(0, 9), "            }", "        }", "    }", "}",
                     "system {", "    host-name R%d;" % rng.randint(1, 9), "}"]
            if rng.random() < 0.5:
                del lines[rng.randrange(len(lines))]
        else:
            lines = T.rand_config(rng, maxlen=8, banners=False, delims=None)
        c = mk_tree("junos", False, None, lines, stream="tree-junos")
        c["req"] = None
        yield c
    # (3) transparency on treelib's generators, every syntax
    for _ in range({"quick": 800, "thorough": 16000, "search": 500}[tier]):
        delims = rng.choice(T.DELIM_SETS)
        syn = rng.choice(T.SYNTAXES)
        r = rng.random()
        if r < 0.55:
            lines = T.rand_config(rng, maxlen=14, banners=True, delims=delims)
        elif r < 0.8:
            d = rand_desc(rng)
            lines = stanza_case(rng, d)["lines"] + rng.choice([[], [" ".join(route_words(rand_route(rng)))], ["ip route garbage"],
                                                                 ["ipv6 route ::/0 Null0"], ["hostname X", "line vty 0 4", " exec-timeout 5 0"]])
        else:
            lines = T.rand_config(rng, maxlen=8, banners=False, delims=delims) + rng.choice(
                [["interface Ethernet1/1", " ip address 1.1.1.1 255.0.0.0", " no shutdown"], ["object-group network A", " network-object host 1.1.1.1"],
                 ["vpc domain 1", " peer-keepalive destination 1.1.1.1"], ["access-list 101 extended permit ip any any"],
                 ["name 1.1.1.1 host1", "object network X", " host 2.2.2.2"], ["interface"], ["interface "], ["hostname"]])
        yield mk_tree(syn, rng.random() < 0.2, delims, lines)


def neighbours(case, rng):
    if case["kind"] == "intf":
        for _ in range(200):
            ls = list(case["lines"])
            i = rng.randrange(len(ls))
            r = rng.random()
            if r < 0.3 and len(ls) > 1 and i != case["idx"]:
                del ls[i]
                idx = case["idx"] - (1 if i < case["idx"] else 0)
            elif r < 0.6:
                ls.insert(i + 1, " " + rng.choice(UNRELATED + [t for _, t in items_of(rand_desc(rng))]))
                idx = case["idx"] + (1 if i + 1 <= case["idx"] else 0)
            else:
                ls[i] = ls[i].replace(" ", rng.choice(WSGAPS), 1) if rng.random() < 0.5 else ls[i] + " "
                idx = case["idx"]
            yield mk_intf(ls, idx, None, False, stream="intf-neighbour")
    elif case["kind"] == "route":
        for _ in range(200):
            ws = case["line"].split(" ")
            i = rng.randrange(len(ws))
            if rng.random() < 0.5 and len(ws) > 3:
                del ws[i]
            else:
                ws.insert(i, rng.choice(["", "name", "5", "x"]))
            yield mk_route(" ".join(ws), None, False, stream="route-neighbour")


def nontrivial(case):
    if case["kind"] == "factory":
        return False
    if case["kind"] == "intf":
        return case["desc"] is not None and len(items_of(case["desc"])) - len(case["desc"]["others"]) >= 2
    if case["kind"] == "route":
        d = case["desc"]
        return d is not None and sum(bool(x) for x in (d["vrf"], d["intf"], d["nh"], d["global"], d["ad"], d["name"], d["permanent"], d["track"], d["tag"])) >= 2
    return any(l[:1].isspace() and l.strip() for l in case["lines"])


def describe(case):
    if case["kind"] == "factory":
        return {k: case[k] for k in ("kind", "al", "ln", "ds", "syn", "dbg", "line")}
    if case["kind"] == "intf":
        return {"kind": "intf", "lines": case["lines"], "idx": case["idx"], "canonical": case["canonical"], "stream": case["stream"]}
    if case["kind"] == "route":
        return {"kind": "route", "line": case["line"], "canonical": case["canonical"], "stream": case["stream"]}
    return {"kind": "tree", "syntax": case["syntax"], "ignore_blank": case["ignore_blank"], "delims": case["delims"],
            "lines": case["lines"][:40], "n_lines": len(case["lines"])}


def buckets(case, ans):
    out = ["stream:" + case["stream"]]
    if case["kind"] == "factory":
        out.append("factory-answer:" + ans.rsplit("#", 1)[0].split("|")[0])
        return out
    if case["kind"] == "intf":
        d = case["desc"]
        if d is not None and case["canonical"]:
            out.append("children:%d" % min(12, len(items_of(d))))
            for a in MAIN:
                present = d[a] if a != "switchport" else d["switchport"]
                out.append("attr:%s=%d" % (a, 1 if present not in (None, False) else 0))
            out.append("secondaries:%d" % len(d["secondaries"]))
            out.append("name-nums:%d" % len(d["name"]["nums"]))
        if "err:" in ans.split("#")[0]:
            out.append("intf-answer:has-error-field")
    elif case["kind"] == "route":
        out.append("route-answer:" + (ans if ans.startswith(("err", "notroute")) else "parsed"))
        d = case["desc"]
        if d is not None:
            out.append("route-slots:%d" % sum(bool(x) for x in (d["vrf"], d["intf"], d["nh"], d["global"], d["ad"] is not None, d["name"],
                                                                   d["permanent"], d["track"] is not None, d["tag"] is not None)))
            if not d["intf"] and not d["nh"]:
                out.append("route:neither-intf-nor-nh")
    else:
        out.append("tree-syntax:" + case["syntax"])
        tail = ans.rsplit("#", 1)[-1]
        out.append("factory:" + (tail if tail == "same" or tail.startswith("raise:") else "DIFFERENT"))
    return out


# ------------------------------------------------------------------ implementation
def _safe(fn, enc):
    quiet_ccp()
    from ciscoconfparse2.errors import InvalidCiscoRange
    import ipaddress
    try:
        return enc(fn())
    except IndexError:
        return "err:IndexError"
    except (ipaddress.AddressValueError, ipaddress.NetmaskValueError):
        return "err:ip"
    except InvalidCiscoRange:
        return "err:range"
    except ValueError:
        return "err:ValueError"


def _enc_bool(b):
    assert b is True or b is False, b
    return "T" if b else "F"


def _enc_obj(o):
    if getattr(o, "empty", False):
        return "-"
    return "%s/%d" % (o.ip, o.prefixlen)


def _parse(lines, factory, syntax="ios", **kw):
    quiet_ccp()
    from ciscoconfparse2 import CiscoConfParse
    return CiscoConfParse(list(lines), syntax=syntax, factory=factory, **kw)


def _transparency(lines, p_on):
    p_off = _parse(lines, False)
    a, b = T.dump_all(p_on), T.dump_all(p_off)
    return "same" if a == b else "DIFF"


def impl_intf(case):
    p = _parse(case["lines"], True)
    o = list(p.objs)[case["idx"]]
    if type(o).__name__ != "IOSIntfLine":
        return "notintf#-"
    g = lambda a: (lambda: getattr(o, a))  # noqa: E731
    s = wire.enc_str
    out = [
        _safe(g("name"), s), _safe(g("port_type"), s),
    ]
    try:
        out.append(",".join(str(int(x)) for x in o.ordinal_list))
    except Exception:  # InvalidCiscoInterface / NoRegexMatch / ... (CiscoIOSInterface is C15's subject)
        out.append("err")
    out += [
        _safe(g("interface_number"), s), _safe(g("subinterface_number"), s), _safe(g("is_portchannel_intf"), _enc_bool),
        _safe(g("description"), s), _safe(g("ipv4_addr"), s), _safe(g("ipv4_netmask"), s), _safe(g("ipv4_masklength"), str),
        _safe(g("ipv4_addr_object"), _enc_obj),
        _safe(g("ip_secondary_addresses"), lambda v: " ".join(sorted(v))),
        _safe(g("ip_secondary_networks"), lambda v: " ".join(sorted(v))),
        _safe(g("vrf"), s), _safe(g("manual_mtu"), str), _safe(g("manual_ip_mtu"), str), _safe(g("is_shutdown"), _enc_bool),
        _safe(g("is_switchport"), _enc_bool), _safe(g("has_manual_switch_access"), _enc_bool),
        _safe(g("has_manual_switch_trunk"), _enc_bool), _safe(g("access_vlan"), str), _safe(g("native_vlan"), str),
        _safe(g("trunk_vlans_allowed"), lambda v: s(v.as_compressed_str())),
        _safe(g("portchannel_number"), str), _safe(g("is_in_portchannel"), _enc_bool),
    ]
    try:
        out.append(str(int(o.port)))
    except Exception:  # NoRegexMatch / InvalidCiscoInterface from CiscoIOSInterface (C15's subject)
        out.append("err")
    out.append(_safe(g("ip_addr"), s))
    return "|".join(out) + "#" + _transparency(case["lines"], p)


def impl_route(case):
    try:
        p = _parse([case["line"]], True)
    except ValueError:
        # config_line_factory re-raises the constructor's ValueError; is it a route line at all?
        return ("err:ValueError" if case["line"][0:9] == "ip route " else "harness:unexpected ValueError") + "#-"
    o = list(p.objs)[0]
    if type(o).__name__ != "IOSRouteLine":
        return "notroute#" + _transparency([case["line"]], p)
    s = wire.enc_str
    out = []
    for a in ROUTE_FIELDS:
        try:
            v = getattr(o, a)
        except AttributeError:
            out.append("err")        # masklen: network_object is None
            continue
        except (ValueError, NotImplementedError) as e:       # nexthop_vrf / unicast of an `ip route` object
            out.append("err:" + type(e).__name__)
            continue
        out.append(_enc_bool(v) if isinstance(v, bool) else str(v) if isinstance(v, int) else s(v))
    return "|".join(out) + "#" + _transparency([case["line"]], p)


def impl_tree(case):
    off = T.run_impl(dict(case, factory=False), T.dump_all)
    try:
        p_on = T.parse_impl(dict(case, factory=True))
    except BaseException as e:  # noqa: BLE001 -- the factory may refuse a config
        return off + "#raise:" + type(e).__name__
    on = T.dump_all(p_on)
    return off + "#" + ("same" if on == off else on)


def impl_factory(case):
    """config_line_factory(...) called directly; `ok|<class name>|<text>` or the exception class"""
    quiet_ccp()
    from ciscoconfparse2.ciscoconfparse2 import config_line_factory
    from ciscoconfparse2.ccp_abc import BaseCfgLine
    line = case["line"]
    kw = {
        "all_lines": {"list": [line], "tuple": (line,), "None": None, "str": line}[case["al"]],
        "line": {"str": line, "None": None, "int": 5, "bytes": line.encode()}[case["ln"]],
        "index": 0,
        "syntax": {"str": case["syn"][-1], "None": None, "int": 5, "list": ["ios"]}[case["syn"][0]],
        "debug": {"0": 0, "1": 1, "True": True, "None": None, "str": "0", "float": 1.5}[case["dbg"]],
    }
    if case["ds"] != "None":
        kw["comment_delimiters"] = {"list": ["!"], "str": "!", "tuple": ("!",)}[case["ds"]]
    try:
        o = config_line_factory(**kw)
    except Exception as e:  # noqa: BLE001 - the class is the observation
        return "err:" + type(e).__name__ + "#-"
    if not isinstance(o, BaseCfgLine):
        return "notaline:" + type(o).__name__ + "#-"
    if not isinstance(o.text, str):
        return "ok|" + type(o).__name__ + "|!text-is-" + type(o.text).__name__ + "#-"
    return "ok|" + type(o).__name__ + "|" + wire.enc_str(o.text) + "#-"


def impl(case):
    return {"intf": impl_intf, "route": impl_route, "tree": impl_tree, "factory": impl_factory}[case["kind"]](case)


def compare(case, impl_ans, model_ans):
    if case["kind"] == "factory":        # the model answers the argument checks only: ok / exception class
        return impl_ans.rsplit("#", 1)[0].split("|")[0] == model_ans
    return impl_ans.rsplit("#", 1)[0] == model_ans


# ------------------------------------------------------------------ oracle (independent of the Lean model)
def oracle(case, ans):
    head, _, tail = ans.rpartition("#")
    fails = []
    if not (tail == "same" or tail == "-" or (case["kind"] == "tree" and tail.startswith("raise:"))):
        fails.append("factory on/off: texts or family links differ (%s)" % tail[:60])
    if case["kind"] == "factory":
        well_typed = (case["al"] == "list" and case["ln"] == "str" and case["ds"] in ("None", "list") and DEBUG_KINDS[case["dbg"]]
                      and case["syn"][0] == "str" and case["syn"][1] in ("ios", "nxos", "iosxr", "asa", "junos"))
        if well_typed:
            f = head.split("|")
            if f[0] != "ok":
                fails.append("config_line_factory refused a well-typed call: " + head[:60])
            elif f[2].startswith("!") or wire.dec_str(f[2]) != case["line"]:
                fails.append("the factory object's text %s differs from the line %r" % (_show(f[2]), case["line"]))
        elif not head.startswith("err:"):
            fails.append("config_line_factory accepted an ill-typed call / unknown syntax: " + head[:60])
        return fails
    if case["kind"] == "tree" or not case["canonical"]:
        return fails
    if case["kind"] == "intf":
        got = dict(zip(INTF_FIELDS, head.split("|")))
        if len(got) != len(INTF_FIELDS):
            return fails + ["interface stanza not served by IOSIntfLine: " + head[:60]]
        exp = expected(case["desc"])
        for k, want in exp.items():
            have = got[k]
            if k == "trunk_vlans_allowed":
                if have.startswith("err") or expand_compressed(wire.dec_str(have)) != want:
                    fails.append("trunk_vlans_allowed is %s, described %d vlans" % (have[:40], len(want)))
            elif have != want:
                fails.append("%s is %s, described %s" % (k, _show(have), _show(want)))
    else:
        if head.startswith("err") or head == "notroute" or head.startswith("harness"):
            return fails + ["well-formed route line not parsed: " + head]
        got = dict(zip(ROUTE_FIELDS, head.split("|")))
        for k, want in route_expected(case["desc"]).items():
            if k == "nexthop_str":
                have = _show(got[k])
                if got[k].startswith("err") or wire.dec_str(got[k]).strip() != want:
                    fails.append("route nexthop_str is %s, described %r" % (have, want))
                continue
            if got[k] != want:
                fails.append("route %s is %s, described %s" % (k, _show(got[k]), _show(want)))
    return fails[:4]


def _show(v):
    if v.startswith("s") and (len(v) == 1 or v[1].isdigit()):
        try:
            return repr(wire.dec_str(v))
        except Exception:  # noqa: BLE001
            return v
    return v


KEYWORDS_AFTER_MASK = ("global", "name", "permanent", "track", "tag")


def known_id(case, failure):
    """F25: a route with neither interface nor next hop whose first word after the mask is a keyword"""
    if case["kind"] == "route" and case.get("desc") and failure.startswith("route "):
        d = case["desc"]
        if not d["intf"] and not d["nh"]:
            ws = route_words(d)
            i = 6 if d["vrf"] else 4
            if i < len(ws) and ws[i] in KEYWORDS_AFTER_MASK:
                return "F25"
    return None
