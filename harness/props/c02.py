"""C02 — parent/child links follow the indentation rule."""
import wire
from props import treelib as T

ID = "C02"
LEAN_MODULES = ["Ccp.Props.C02"]
RULE = ("exhaustive: every sequence of length <= 4 (quick) / <= 5 (thorough) over {indent 0..3} x {config, comment, blank}, "
        "two texts per symbol; random beyond (length <= 40, indents <= 9, tabs/NBSP/EM SPACE in the indent, leading indented "
        "lines, custom comment delimiters); no banner or macro starts (the property is about lines outside such bodies); "
        "x syntax x factory. non-trivial = some line is indented; distinct by request.")
LEVEL_TEXT = ("Theorems (Lean 4, all line lists, no size bound): cache_inv -- the parent cache of the bootstrap loop is sound (every cached "
              "entry k->p is the walk-back answer for indent k over the processed lines and 0 < k <= max_indent; holds initially, preserved "
              "by every iteration, and under it the chosen parent is the specified one); linkByIndent_eq_spec -- pass 1 returns one parent "
              "per line and parent(i) = specParent(i): i itself if indent 0 or a comment under a deeper line, else the largest j < i that is a "
              "config line with smaller indent, i if none (specParent_spec, nearestShallower_some/_none state that reading of the spec); children_eq_spec / "
              "linkByIndent_children -- derived child lists = specified children; parse_links_eq_spec -- for lists without banner start and "
              "(ios) macro start, ignore_blank_lines off, the final tree after bootstrap + commit has texts = input, parents = spec, children = "
              "spec; parse_links_eq_spec_ignore_blank -- the same with ignore_blank_lines on, over the non-blank lines; links_syntax_independent / parse_links_syntax_independent -- links depend on the configuration only through the comment "
              "delimiters, not the syntax. Tied to the code by exhaustive small patterns and random configs.")
LEVEL_NOTE = ("Trusted: Lean kernel, standard axioms, the harness. The final-tree theorems exclude banner/macro starts as the property does "
              "(hypotheses on the line list); the typed-model factory is not modelled (links compared by the correspondence "
              "with factory on and off).")
ASSUMPTIONS = ["line texts contain no banner / macro start (generator-enforced)"]
TRUSTED = []
EXHAUSTIVE = {"quick": True, "thorough": True}


def mk(syntax, factory, delims, lines, origin="gen"):
    return T.mk_case("links", syntax, factory, False, delims, lines, origin)


def from_corpus(c):
    return mk(c["syntax"], c.get("factory", False), c.get("delims"), c["lines"], "corpus")


SAFE_WORDS = ["cmd", "other", "interface Ethernet1", "ip address 1.1.1.1 255.0.0.0", "x(y", "a.b*", "{", "}", "été", "€5", "end"]


def rand_lines(rng, delims):
    n = rng.choice([1, 2, 3, 5, 8, 13, 21, 40])
    out = []
    for _ in range(n):
        k = rng.choice([0, 0, 1, 1, 2, 2, 3, 4, 6, 9])
        ind = " " * k if rng.random() < 0.85 else "".join(rng.choice(T.WS) for _ in range(k))
        r = rng.random()
        if r < 0.65:
            out.append(ind + rng.choice(SAFE_WORDS))
        elif r < 0.85:
            out.append(ind + rng.choice((delims or ["!"]) + ["!", "#"]) + rng.choice(["", " c"]))
        else:
            out.append(ind)
    return out


def cases(rng, tier):
    T.selfcheck()
    if tier != "search":
        maxlen = 4 if tier == "quick" else 5
        k = 0
        for lines in T.pattern_configs(maxlen):
            yield mk(T.SYNTAXES[k % 4], False, None, lines, "pattern")
            k += 1
    n = {"quick": 1500, "thorough": 60000, "search": 4000}[tier]
    for _ in range(n):
        delims = rng.choice(T.DELIM_SETS)
        yield mk(rng.choice(T.SYNTAXES), rng.random() < 0.15, delims, rand_lines(rng, delims))


def neighbours(case, rng):
    for _ in range(200):
        ls = list(case["lines"])
        if len(ls) > 1 and rng.random() < 0.6:
            del ls[rng.randrange(len(ls))]
        else:
            ls.insert(rng.randrange(len(ls) + 1), rand_lines(rng, case["delims"])[0])
        yield mk(case["syntax"], case["factory"], case["delims"], ls)


def impl(case):
    return T.run_impl(case, T.dump_links)


def compare(case, impl_ans, model_ans):
    if case["factory"] and impl_ans.startswith("err:"):
        return True
    return impl_ans == model_ans


def oracle(case, ans):
    if ans.startswith("err:"):
        return [] if case["factory"] else [f"parse raised {ans}"]
    parents_w, children_w = ans.split("|")
    want = T.ref_parents(case["lines"], T.cfg_delims(case["syntax"], case["delims"]))
    fails = []
    if parents_w != wire.enc_nats(want):
        fails.append(f"parents {parents_w[:80]} expected {wire.enc_nats(want)[:80]}")
    kids = [[j for j, p in enumerate(want) if p == i and j != i] for i in range(len(want))]
    if children_w != ";".join(wire.enc_nats(k) for k in kids):
        fails.append(f"child lists {children_w[:80]} do not mirror the parents")
    return fails


def nontrivial(case):
    return any(l[:1].isspace() for l in case["lines"])


def describe(case):
    return {k: case[k] for k in ("syntax", "factory", "delims", "lines")}


def buckets(case, ans):
    return ["syntax:" + case["syntax"], "factory:%d" % case["factory"], "delims:" + str(case["delims"]),
            "len:%d" % min(41, len(case["lines"])), "origin:" + case.get("_origin", "gen"),
            "answer:" + (ans if ans.startswith("err:") else "ok")]
