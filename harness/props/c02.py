"""C02 — parent/child links follow the indentation rule."""
import wire
from props import treelib as T

ID = "C02"
LEAN_MODULES = ["Ccp.Props.C02"]
RULE = ("stream 1 (indentation only, no banner/macro start): exhaustive, every sequence of length <= 4 (quick) / <= 5 (thorough) over "
        "{indent 0..3} x {config, comment, blank}, two texts per symbol; random beyond (length <= 40, indents <= 9, tabs/NBSP/EM SPACE "
        "in the indent, leading indented lines, custom comment delimiters) x syntax x factory. "
        "stream 2 (banner / macro bodies, what parse_links_eq_spec_full talks about): exhaustive, every sequence of length <= 4 (quick) / "
        "<= 5 (thorough) containing a start over {two banner starts with different delimiters, macro start, closing line plain / "
        "indented / embedded for each delimiter, '@', body lines at indent 1, 2, 0, blank} x {ios, nxos}; random token sequences "
        "(length <= 14: ten banner-start forms incl. one-line, delimiter-less, set-prefixed, fail-message, four macro-start forms, "
        "closing lines at indents 0..2, '@' with trailing / leading white space, comments, deeper body lines, dedenting tails) and "
        "banner / macro blocks of C01's generator spliced INTO one another (nested and overlapping starts, macro inside banner and "
        "banner inside macro, unterminated stretches), x syntax x comment delimiters x ignore_blank_lines (25 %). The buckets "
        "'feat:*' count how many cases show each situation (overlap beyond the outer end, banner outliving a macro, indented closing "
        "line, line after a stretch whose indentation parent is a body line, ...). "
        "Coverage stream (harness/covreport.py, notes/coverage/C02.json): one random case in eight of both streams is parsed under one more "
        "parse option set -- config as a tuple, debug 1/2/4/5 (executes the 'if debug' statements of bootstrap, "
        "_build_bootstrap_parent_child and _add_child_to_parent, debug >= 4 included), auto_commit=False, auto_indent_width 0/3/8 -- "
        "none of which is an input of the model: the links must not change. 10-15 % of the random cases of both streams use a comment "
        "delimiter set beyond the four standard ones (a letter, a brace, the euro sign, a tab or blank, duplicates, three at once, "
        "banner delimiter characters). "
        "non-trivial = some line is indented or a banner / macro start is present; distinct by request.")
LEVEL_TEXT = ("Theorems (Lean 4, all line lists, no size bound): cache_inv -- the parent cache of the bootstrap loop is sound (every cached "
              "entry k->p is the walk-back answer for indent k over the processed lines and 0 < k <= max_indent; holds initially, preserved "
              "by every iteration, and under it the chosen parent is the specified one); linkByIndent_eq_spec -- pass 1 returns one parent "
              "per line and parent(i) = specParent(i): i itself if indent 0 or a comment under a deeper line, else the largest j < i that is a "
              "config line with smaller indent, i if none (specParent_spec, nearestShallower_some/_none state that reading of the spec); children_eq_spec / "
              "linkByIndent_children -- derived child lists = specified children; parse_links_eq_spec -- for lists without banner start and "
              "(ios) macro start, ignore_blank_lines off, the final tree after bootstrap + commit has texts = input, parents = spec, children = "
              "spec; parse_links_eq_spec_ignore_blank -- the same with ignore_blank_lines on, over the non-blank lines; links_syntax_independent / parse_links_syntax_independent -- links depend on the configuration only through the comment "
              "delimiters, not the syntax. BANNER AND MACRO BODIES INCLUDED (Spec/BannerLinks.lean, no hypotheses on the line list): "
              "specParentFull(i) = the last 'macro name' line (syntax ios) whose stretch reaches i, else the last banner start whose stretch "
              "reaches i, else specParent(i); stretch of a banner start with recognised delimiter d occurring once on the start line = the "
              "following lines up to AND INCLUDING the first one containing d (to the end of the config if none), empty for a one-line or "
              "delimiter-less banner; stretch of a macro start = up to and including the first '@' line (coverB_spec, coverM_spec, "
              "bannerStretch_eq_body_plus_close, covers_spec, lastCover_some/_none, specParentFull_spec state this reading position by "
              "position). link_links_eq_spec_full -- passes 1-3 return texts unchanged, parents = specParentFull, child lists = "
              "specChildrenFull for EVERY line list (nested / overlapping / unterminated starts included); parse_links_eq_spec_all -- the "
              "final tree after bootstrap + commit under every option set has parents = specParentFull of its own texts; "
              "parse_links_eq_spec_full -- with ignore_blank_lines off: texts = input, parents and children = the full spec (this drops both "
              "hypotheses of parse_links_eq_spec); parse_links_eq_spec_full_ignore_blank -- with ignore_blank_lines on: texts = the lines "
              "selected by C01's keepSpec, links = the full spec over those kept lines; specParentFull_eq_specParent_of_no_start -- without "
              "starts the full spec is the indentation rule; parse_links_syntax_independent_full -- equal delimiter sets and no 'macro name' "
              "line give equal final parents, banners included. Tied to the code by exhaustive small patterns and random configs "
              "(indentation-only and banner/macro-heavy streams).")
LEVEL_NOTE = ("Trusted: Lean kernel, standard axioms, the harness. The per-line recognisers the specification is built from (isBannerStart, "
              "bannerDelim -- hand-written scanners for the two banner regexes, with \\w restricted to code points < 256 -- and isMacroStart) "
              "are modelled, not verified: the correspondence compares them with the real regexes on every run and the generator stays "
              "inside that region. The typed-model factory is not modelled (links compared by the correspondence with factory on and off). "
              "Anchored statements never executed by the quick run: 29 of 150 before the option stream, 22 after (legacy keyword arguments "
              "of BaseCfgLine.__init__, the children setter / type guard, is_comment of an object outside a config, bootstrap's argument "
              "checks: direct-construction API outside the property; one optimised-away 'pass').")
ASSUMPTIONS = ["banner type words use only word characters < U+0100 (generator-enforced)"]
TRUSTED = ["hand-written scanners for the banner regexes"]
EXHAUSTIVE = {"quick": True, "thorough": True}


def mk(syntax, factory, delims, lines, origin="gen", ignore_blank=False):
    return T.mk_case("links", syntax, factory, ignore_blank, delims, lines, origin)


def from_corpus(c):
    return mk(c["syntax"], c.get("factory", False), c.get("delims"), c["lines"], "corpus", c.get("ignore_blank", False))


SAFE_WORDS = ["cmd", "other", "interface Ethernet1", "ip address 1.1.1.1 255.0.0.0", "x(y", "a.b*", "{", "}", "été", "€5", "end"]


def rand_lines(rng, delims):
    n = rng.choice([1, 2, 3, 5, 8, 13, 21, 40])
    out = []
    for _ in range(n):
        k = rng.choice([0, 0, 1, 1, 2, 2, 3, 4, 6, 9])
        ind = " " * k if rng.random() < 0.85 else "".join(rng.choice(T.WS) for _ in range(k))
        r = rng.random()
        if r < 0.65:
            out.append(ind + rng.choice(SAFE_WORDS))
        elif r < 0.85:
            out.append(ind + rng.choice((delims or ["!"]) + ["!", "#"]) + rng.choice(["", " c"]))
        else:
            out.append(ind)
    return out


def cases(rng, tier):
    T.selfcheck()
    if tier != "search":
        maxlen = 4 if tier == "quick" else 5
        k = 0
        for lines in T.pattern_configs(maxlen):
            yield mk(T.SYNTAXES[k % 4], False, None, lines, "pattern")
            k += 1
    n = {"quick": 1500, "thorough": 60000, "search": 4000}[tier]
    for _ in range(n):
        delims = rng.choice(T.DELIM_SETS) if rng.random() < 0.85 else rng.choice(T.EXOTIC_DELIM_SETS)
        # one case in eight runs under one more parse option set (tuple config, debug 1..5, auto_commit off, auto_indent_width):
        # the `if debug` statements of the anchored loop are executed and must not change the links
        yield T.with_options(mk(rng.choice(T.SYNTAXES), rng.random() < 0.15, delims, rand_lines(rng, delims)), T.rand_options(rng, 0.125))
    # stream 2: banner / macro bodies
    if tier != "search":
        k = 0
        for lines in T.link_pattern_configs(4 if tier == "quick" else 5):
            yield mk(("ios", "nxos")[k % 2], False, None, lines, "link-pattern")
            k += 1
    n2 = {"quick": 2400, "thorough": 60000, "search": 4000}[tier]
    for k in range(n2):
        delims = rng.choice(T.DELIM_SETS) if rng.random() < 0.9 else rng.choice(T.EXOTIC_DELIM_SETS)
        lines = T.rand_link_config(rng, delims) if k % 2 == 0 else T.rand_nested_config(rng, delims)
        yield T.with_options(mk(rng.choice(["ios", "ios"] + T.SYNTAXES), rng.random() < 0.1, delims, lines,
                                "link-random" if k % 2 == 0 else "link-nested", rng.random() < 0.25), T.rand_options(rng, 0.125))


def has_start(lines):
    return any(T.BANNER_RE.search(l) or l[:11] == "macro name " for l in lines)


def neighbours(case, rng):
    heavy = has_start(case["lines"])
    for _ in range(200):
        ls = list(case["lines"])
        if len(ls) > 1 and rng.random() < 0.6:
            del ls[rng.randrange(len(ls))]
        elif heavy:
            ls.insert(rng.randrange(len(ls) + 1), rng.choice(T.LINK_TOKENS))
        else:
            ls.insert(rng.randrange(len(ls) + 1), rand_lines(rng, case["delims"])[0])
        yield T.with_options(mk(case["syntax"], case["factory"], case["delims"], ls, "gen", case["ignore_blank"]), case.get("opts"))


def impl(case):
    return T.run_impl_opts(case, T.dump_links)


def compare(case, impl_ans, model_ans):
    if case["factory"] and impl_ans.startswith("err:"):
        return True
    return impl_ans == model_ans


def oracle(case, ans):
    if ans.startswith("err:"):
        return [] if case["factory"] else [f"parse raised {ans}"]
    parents_w, children_w = ans.split("|")
    # the lines that remain (C01's reference), then the validated full link specification on them; without
    # banner / macro starts ref_parents_full IS the indentation rule ref_parents
    kept = T.ref_kept(case["lines"], case["syntax"] == "ios", case["ignore_blank"])
    want = T.ref_parents_full(kept, case["syntax"] == "ios", T.cfg_delims(case["syntax"], case["delims"]))
    if not has_start(kept):
        assert want == T.ref_parents(kept, T.cfg_delims(case["syntax"], case["delims"]))
    fails = []
    if parents_w != wire.enc_nats(want):
        fails.append(f"parents {parents_w[:80]} expected {wire.enc_nats(want)[:80]}")
    kids = [[j for j, p in enumerate(want) if p == i and j != i] for i in range(len(want))]
    if children_w != ";".join(wire.enc_nats(k) for k in kids):
        fails.append(f"child lists {children_w[:80]} do not mirror the parents")
    return fails


def nontrivial(case):
    return any(l[:1].isspace() for l in case["lines"]) or has_start(case["lines"])


def describe(case):
    return {k: case[k] for k in ("syntax", "factory", "ignore_blank", "delims", "lines", "opts") if k in case}


def buckets(case, ans):
    out = ["syntax:" + case["syntax"], "factory:%d" % case["factory"], "delims:" + str(case["delims"]),
           "len:%d" % min(41, len(case["lines"])), "origin:" + case.get("_origin", "gen"),
           "ignore_blank:%d" % case["ignore_blank"],
           "answer:" + (ans if ans.startswith("err:") else "ok")] + T.opt_buckets(case)
    if has_start(case["lines"]):
        kept = T.ref_kept(case["lines"], case["syntax"] == "ios", case["ignore_blank"])
        feats = T.link_features(kept, case["syntax"] == "ios", T.cfg_delims(case["syntax"], case["delims"]))
        out += ["feat:" + f for f in sorted(feats)] or ["feat:none"]
    return out
