"""Helpers shared by property modules."""
import os
import sys

REPO = os.environ.get("CCP2_REPO", "/repo")
if REPO not in sys.path:
    sys.path.insert(0, REPO)

_quiet = False


def quiet_ccp():
    """Import the package under test from /repo and silence loguru."""
    global _quiet
    import warnings
    warnings.filterwarnings("ignore", category=SyntaxWarning)
    if not os.path.isfile(os.path.join(REPO, "ciscoconfparse2", "__init__.py")):
        # without this the import below silently falls through to the editable install of /repo at the end of sys.path
        raise RuntimeError(f"CCP2_REPO={REPO} contains no ciscoconfparse2 package (was the scratch tree removed while "
                           f"the check was running?)")
    if sys.path[0] != REPO:
        sys.path.insert(0, REPO)
    import ciscoconfparse2  # noqa: F401
    if not _quiet:
        from loguru import logger
        logger.remove()
        _quiet = True
    here = os.path.realpath(os.path.dirname(ciscoconfparse2.__file__))
    want = os.path.realpath(os.path.join(REPO, "ciscoconfparse2"))
    assert here == want, f"ciscoconfparse2 imported from {here}, expected {want}"
    return ciscoconfparse2


def exc_class(e):
    return "err:" + type(e).__name__
