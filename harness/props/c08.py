"""C08 — brace-delimited configs become an indentation tree that mirrors the nesting."""
import os
import re

import wire
from props.common import quiet_ccp, exc_class, REPO

ID = "C08"
LEAN_MODULES = ["Ccp.Props.C08", "Ccp.Props.RxC08"]
RULE = ("statement trees (depth 0..6, fan-out 0..5, first statement level may be empty) whose words are drawn from the "
        "whitespace-separated tokens of the junos and F5 fixture files under tests/fixtures/configs (no Palo-Alto fixture exists "
        "in the repo; its set-style words are covered by the hand list) plus a hand list ('[', ']', 'a:80', '1.2.3.4/24', "
        "quoted strings, '*', ';x', 'a;b', '##', '#'; 2% of the statements read 'banner motd ^' / 'banner login ^C' / "
        "'set banner exec ^' so that a banner pass on a brace syntax would show), rendered with a random layout per node: whitespace before the "
        "statement (indent of blanks and/or tabs, blank lines, CR LF), semicolon present/absent, whitespace after the text "
        "(trailing blanks, or line breaks that put the opening brace on the next line), childless statements optionally "
        "written as an empty block, whitespace before and after the closing brace (one-line blocks, compact 'a{b}', "
        "several blocks on one line); styles: junos canonical, F5 (no semicolons), one-line, Allman, compact, tabs, fully random. "
        "A '#' comment line is a statement for BraceParse (it never consults comment_delimiters), so comments are generated as "
        "leaf statements, in the main stream only where the bootstrap's legacy comment exception cannot apply. "
        "Streams: tree (the property's quantifier), drop (one structural '}' deleted, an error is expected), quotestart "
        "(a statement begins with a quote character: F31), cmtafter (a '#' line follows a nested block inside a block: F32), "
        "every stream compares texts AND parent links of CiscoConfParse(syntax='junos') with the model (conversion + pass 1 of the "
        "shared bootstrap model); "
        "fixture (the 7 brace-syntax fixture files, implementation vs model plus an independent line-based converter where "
        "the file is in one-statement-per-line form), adversarial (character soup over braces, quotes, backslashes, tabs, CR, "
        "vertical tab, non-ASCII: implementation vs model only). Non-ASCII statements raise in pyparsing and are outside the "
        "property's alphabets: generated only in the adversarial stream. non-trivial = a tree of depth>=2 with >=4 statements "
        "rendered in a non-canonical layout, or a dropped brace, distinct by request line. "
        "OPTIONS AND ARGUMENT FORMS (added after a line/branch coverage report of the anchored functions, notes/coverage/C08.json; "
        "channel `bracex`, model Ccp.Model.BraceOpts): stream opts (330) = a well-formed tree in a random layout through one entry point with "
        "valid option values: BraceParse(...) directly (stop_width in 0,1,2,3,4,5,8,-1,-3; semicolon_end on/off — the oracle then expects "
        "the semicolons the renderer wrote; comment_delimiters omitted / ['#'] / [] / ['!','#'] / ['a']), convert_junos_to_ios(lines, "
        "stop_width, comment_delimiters omitted or given), CiscoConfParse(lines, syntax='junos') with factory=True or "
        "ignore_blank_lines=True (texts and parent links), handle_ccp_brace_syntax with junos or an indentation syntax (lines pass "
        "through) and the lines as list or tuple; stream args (170) = values the entry points must refuse, several at once so that "
        "the order of the checks shows: input_list as tuple / None / str / int / dict, stop_width '4' / 4.0 / None, comment_delimiters as "
        "str / tuple / set or holding a brace, debug not an int, an empty list, config_txt None / int, syntax 'f5' / None / 'JUNOS' / '', "
        "a tuple of lines with syntax junos (must parse to the tree of the list form: texts and parents are compared with the statement "
        "tree; it was refused before the repair of finding FC08a); stream blankstmt (110) = trees with statements that are a lone ';' "
        "(they convert to blank lines) parsed with ignore_blank_lines on and off, the oracle expecting the flattening without those "
        "statements when the option is on. Not generated: a first argument of CiscoConfParse that is no sequence of lines (file names: "
        "C09/C10), a stop_width of BraceParse that is not an int (refused by typeguard before the code runs).")
LEVEL_TEXT = ("Theorems (Lean 4, all well-formed statement trees, all layouts whose white space is blank/tab/LF/CR — indentation, "
              "blank lines, trailing white space, semicolons present or absent, brace on the same or a later line, one-line and "
              "empty blocks): converting the rendering returns exactly the preorder flattening with 4 blanks per level "
              "(brace_roundtrip); on that flattening the shared bootstrap model verified by C01-C03 (linkByIndent = C02's "
              "specParent) links every statement to the statement that opened its innermost enclosing block "
              "(flatten_parent_shared, local_rule_is_specParent, junos_tree); every accepted brace-syntax input yields a C03 "
              "forest (junos_forest); deleting any one closing brace yields ParseException (missing_close_errors, quotes inside "
              "statements and tabs allowed). The model (tab expansion, pyparsing nested_expr/quoted_string tokenizer, recursive "
              "descent, unpack, then pass 1 of the shared bootstrap) is tied to convert_junos_to_ios / "
              "CiscoConfParse(syntax='junos') texts and parent links by differential runs on every check. "
              "Options (Ccp.Model.BraceOpts, same differential runs): for EVERY stop_width w (any int, negative = 0) a well-formed tree in "
              "any layout converts to its flattening with w blanks per enclosing block, through BraceParse directly whatever "
              "comment_delimiters is and through convert_junos_to_ios with any brace-free delimiter list (brace_roundtrip_any_width, "
              "flattenW 4 = flatten; proof by re-indenting the width-4 result); the parse of a rendered tree is the same with and without "
              "ignore_blank_lines — a well-formed statement never converts to a blank line (junos_tree_any_options) — and for every accepted "
              "input the texts are the converted lines minus, with the option, the blank ones, linked by the shared pass 1, a C03 forest "
              "(junos_options); the argument ladder of convert_junos_to_ios (tuple / non-list, non-int stop_width, non-list delimiters, "
              "non-int debug: InvalidParameters in that order; empty list or a brace among the delimiters: ValueError; "
              "convert_argument_checks), BraceParse(None) = NotImplementedError, handle_ccp_brace_syntax (invalid syntax, then non-sequence: "
              "InvalidParameters; indentation syntaxes pass list and tuple through; junos converts a list and a tuple alike; "
              "handleBrace_spec, junos_tuple_is_list: the parse of a tuple of lines is the parse of the list, junos_tree_tuple: hence the "
              "statement tree -- they replace junos_tuple_refused, which stated the refusal before finding FC08a was repaired in /repo); options_default ties the option model to the model above at the default values.")
LEVEL_NOTE = ("Trusted: Lean kernel; axioms propext/Classical.choice/Quot.sound only; the correspondence harness; pyparsing is "
              "modelled, not verified (behaviour re-implemented by hand and measured). Hypotheses of the theorems: words are "
              "non-empty visible ASCII without braces, the first word of a statement does not start with a quote (F31), the last "
              "word does not end with ';'; for the parent theorem additionally no statement starts with '#' (a '#' line under a "
              "deeper line is a root by C02's legacy comment exception: F32). Proved about the model, measured against the code. "
              "semicolon_end=True: only the token-level statement is proved (semicolon_end_partial: the statement text is the stripped "
              "token, semicolon included); that the conversion of a rendered tree keeps exactly the semicolons the layout wrote is "
              "measured (stream opts, oracle) — not proved. The factory has no parameter in the model (it only chooses the class of the "
              "line objects); factory=True parses are compared with the same model answer. Finding FC08a "
              "(CiscoConfParse(tuple_of_lines, syntax='junos') raised InvalidParameters: handle_ccp_brace_syntax let a tuple through, "
              "convert_junos_to_ios insists on a list) is repaired in /repo by 'fix: CiscoConfParse accepts a tuple of lines with "
              "syntax='junos''; convert_junos_to_ios called directly still refuses a tuple (convert_argument_checks). "
              "Anchored lines never executed by the quick run: 40 of 134 before the option/argument streams, 11 after: debug logging, the "
              "unreachable final else of handle_ccp_brace_syntax, bootstrap's own argument checks and the banner / macro passes of the "
              "indentation syntaxes (C01/C07), which a brace syntax skips.")
LEVEL_NOTE += (" " + "regexes_as_modelled (Ccp.RxC08): the arguments of the pyparsing calls reached from BraceParse.__init__ (Word(printables, exclude_chars='{}'), White(' '), nested_expr(opener='{', closer='}', content=..) without ignore_expr, parse_string('{'+txt+'}') without parse_all), the ';' test, and the constants of the installed pyparsing (printables, DEFAULT_WHITE_CHARS, the two quoted_string regexes, the ignore_expr / parse_all defaults) are re-read on every run and proved equal to what Model/Brace.lean was written for.")
LEVEL_NOTE += (" Scan sets as revised: regexes_as_modelled ties the regex-engine calls with the pattern in canonical form (canonical verbose form without the flag, group names and redundant escapes removed, per-value specialisation of a pattern passed to a same-file helper or built from a name that ranges over a constant collection, always-true searches left out), flags, re.sub replacements and the separator arguments of str.split/join/replace/strip; the literal tests (\"lit\" in x, == against string literals and their subscripts, startswith) are informational definitions Gen.rx...Info, no theorem is about them.")
EXHAUSTIVE = {"quick": False, "thorough": False}
ASSUMPTIONS = [
    "pyparsing 3.1.1 nested_expr/quoted_string/expandtabs behave as the hand-written tokenizer (measured, not proved)",
    "words are non-empty printable ASCII without braces; the first word of a statement does not start with a quote "
    "(F31); the last word does not end with ';'",
    "layout white space is blank / tab / LF / CR",
    "parent theorem: no statement starts with '#' (comment lines are linked by C02's rule, including its legacy exception)",
    "for a brace syntax the bootstrap is pass 1 of the shared tree model only (no banner / macro pass), blank lines kept",
]
TRUSTED = ["pyparsing 3.1.1 (modelled)", "str.expandtabs (modelled)"]

FIXDIR = os.path.join(REPO, "tests", "fixtures", "configs")
FIXTURES = ["sample_01.junos", "sample_02.junos", "sample_03.junos", "sample_04.junos",
            "sample_01.f5", "sample_02.f5", "sample_03.f5"]
HAND_WORDS = ["[", "]", "a:80", "1.2.3.4/24", "*", ";x", "a;b", "10.0.0.1:http", "2001:db8::1/64", "ge-0/0/0",
              "unit", "0", "family", "inet", "address", "set", "deviceconfig", "vsys1", "rulebase", "security",
              "'it", "\"two", "words\"", "x'", "\"$1$y7Ar\"", "/Common/pool-1", "!", "a=b", "\\", "\\x4", "~", "@", "."]
COMMENT_WORDS = ["#", "##", "#TMSH-VERSION:"]
_words = None


def words_pool():
    global _words
    if _words is None:
        pool = set(HAND_WORDS)
        for fn in FIXTURES:
            try:
                txt = open(os.path.join(FIXDIR, fn), encoding="utf-8", errors="replace").read()
            except OSError:
                continue
            for w in txt.split():
                w = w.rstrip(";")
                if w and all(33 <= ord(c) <= 126 and c not in "{}" for c in w) and not w.endswith(";"):
                    pool.add(w)
        _words = sorted(pool)
    return _words


# ------------------------------------------------------------------ trees, layouts, rendering
def isq(w):
    return w[:1] in ("'", '"')


def gen_words(rng, first_ok=lambda w: not isq(w) and not w.startswith("#")):
    pool = words_pool()
    if rng.random() < 0.02:
        # looks like an IOS banner start: a brace syntax must not run the banner pass on it
        return rng.choice([["banner", "motd", "^"], ["banner", "login", "^C"], ["set", "banner", "exec", "^"]])
    n = rng.choice([1, 1, 2, 2, 3, 4, 6])
    ws = [rng.choice(pool) for _ in range(n)]
    for _ in range(50):
        if first_ok(ws[0]):
            break
        ws[0] = rng.choice(pool)
    else:
        ws[0] = "x"
    return ws


def gen_tree(rng, depth, maxdepth, fan):
    """a list of nodes [words, children]"""
    if depth > maxdepth:
        return []
    out = []
    for _ in range(rng.randint(0 if depth else 1, fan)):
        kids = gen_tree(rng, depth + 1, maxdepth, fan) if rng.random() < 0.55 else []
        out.append([gen_words(rng), kids])
    return out


def tree_depth(t):
    return 0 if not t else 1 + max(tree_depth(c) for _, c in t)


def tree_size(t):
    return sum(1 + tree_size(c) for _, c in t)


WS_ANY = ["", " ", "  ", "\n", "\n\n", " \n", "\n    ", "\n  \n  ", "    ", "\r\n", "\r\n  ", "\r"]
WS_TAB = ["\t", "\n\t", " \t ", "\t\t", "\n\t\t", "  \t"]


def node_layout(rng, style, depth, has_kids):
    ind = "    " * depth
    if style == "junos":
        return dict(pre=ind, semi=not has_kids, post=" " if has_kids else "", block=False, close="\n" + ind, after="\n")
    if style == "f5":
        return dict(pre=ind, semi=False, post=" " if has_kids else "", block=rng.random() < 0.2,
                    close=rng.choice([" ", "\n" + ind]), after="\n")
    if style == "oneline":
        return dict(pre=" ", semi=rng.random() < 0.8, post=rng.choice(["", " ", "  "]), block=rng.random() < 0.1,
                    close=" ", after=rng.choice(["", " ", "\n"]))
    if style == "allman":
        return dict(pre=ind, semi=not has_kids, post="\n" + ind if has_kids else rng.choice(["", "  "]), block=False,
                    close="\n" + ind, after="\n")
    if style == "compact":
        return dict(pre="", semi=rng.random() < 0.5, post="", block=rng.random() < 0.1, close="", after="")
    ws = WS_ANY + (WS_TAB if style == "tabs" else [])
    if style == "tabs" and rng.random() < 0.5:
        ind = "\t" * depth
        return dict(pre=ind, semi=not has_kids, post=rng.choice(["", " ", "\t"]), block=False, close="\n" + ind,
                    after=rng.choice(["\n", "\t\n"]))
    return dict(pre=rng.choice(ws), semi=rng.random() < 0.5, post=rng.choice(ws), block=rng.random() < 0.15,
                close=rng.choice(ws), after=rng.choice(ws))


def render(rng, tree, style, depth=0, rec=None):
    """layout choices are drawn while rendering; returns the text (`rec`, if given, receives in preorder whether each
    statement was written with a semicolon)"""
    out = []
    for i, (words, kids) in enumerate(tree):
        lay = node_layout(rng, style, depth, bool(kids))
        if rec is not None:
            rec.append(bool(lay["semi"]))
        # (a statement that is a lone ';' — stream blankstmt — is its own terminator)
        s = lay["pre"] + " ".join(words) + (";" if lay["semi"] and words != [";"] else "") + lay["post"]
        if kids or lay["block"]:
            s += "{" + render(rng, kids, style, depth + 1, rec) + lay["close"] + "}" + lay["after"]
        elif i + 1 < len(tree):
            s += "\n"          # a leaf and its next sibling are separated by a line break
        out.append(s)
    return "".join(out)


def flat(tree, depth=0, out=None, width=4, semis=None):
    """the preorder flattening, `width` blanks per enclosing block (`semis`: an iterator over the per-statement
    "written with a semicolon" flags — the semicolon is kept, as BraceParse(semicolon_end=True) does)"""
    out = [] if out is None else out
    for words, kids in tree:
        semi = ";" if (semis is not None and next(semis)) else ""
        text = "" if words == [";"] else " ".join(words) + semi      # a lone ';' converts to a blank line
        out.append(" " * (max(width, 0) * depth) + text)
        flat(kids, depth + 1, out, width, semis)
    return out


def tree_parents(tree, par=None, out=None):
    out = [] if out is None else out
    for _, kids in tree:
        me = len(out)
        out.append(par)
        tree_parents(kids, me, out)
    return out


def mk(kind, lines, op="conv", **extra):
    c = {"kind": kind, "lines": lines, "op": op, "req": wire.req("brace", op, wire.enc_strs(lines))}
    c.update(extra)
    return c


def from_corpus(c):
    return mk(c.get("kind", "adversarial"), c["lines"], c.get("op", "txt"), **{k: v for k, v in c.items()
                                                                              if k not in ("kind", "lines", "op")})


STYLES = ["junos", "f5", "oneline", "allman", "compact", "tabs", "random", "random"]


def tree_case(rng, kind="tree"):
    maxdepth = rng.choice([0, 1, 2, 3, 3, 4, 4, 5, 6])
    fan = rng.choice([1, 2, 3, 3, 4, 5])
    tree = gen_tree(rng, 0, maxdepth, fan)
    while tree_size(tree) > 120:
        tree = gen_tree(rng, 0, maxdepth, max(1, fan - 1))
        fan = max(1, fan - 1)
    style = rng.choice(STYLES)
    if kind == "tree" and rng.random() < 0.3:
        _add_comments(rng, tree, safe=True)
    if kind == "quotestart":
        _quote_some(rng, tree)
    if kind == "cmtafter":
        _add_comments(rng, tree, safe=False)
    if kind == "blankstmt":
        _add_comments(rng, tree, safe=True, blank=True)
        if not any(n[0] == [";"] for n in _walk(tree)):
            tree.append([[";"], []])
    semis = []
    text = render(rng, tree, style, rec=semis)
    return mk(kind, text.split("\n"), op="conv", tree=tree, style=style, semis=semis)


def _walk(tree):
    for n in tree:
        yield n
        yield from _walk(n[1])


def _quote_some(rng, tree):
    nodes = list(_walk(tree))
    for n in rng.sample(nodes, k=min(len(nodes), rng.choice([1, 1, 2]))):
        n[0] = rng.choice([['"k', '1"', "value"], ["'a'", "b"], ['"/Common/Bot', 'x"'], ['"abc"'], ["'x", "q"]])


def _add_comments(rng, tree, safe, depth=0, blank=False):
    """insert '#' leaf statements; safe = never directly after a statement that has children, unless at depth 0
    (blank: insert lone ';' statements instead — they convert to blank lines, which the bootstrap links like comments)"""
    i = 0
    while i <= len(tree):
        prev_has_kids = i > 0 and bool(tree[i - 1][1])
        ok = (depth == 0 or not prev_has_kids) if safe else (depth > 0 and prev_has_kids)
        if ok and rng.random() < (0.25 if safe else 0.7):
            if blank:
                tree.insert(i, [[";"], []])
            else:
                tree.insert(i, [gen_words(rng, first_ok=lambda w: True)[:3], []])
                tree[i][0][0] = rng.choice(COMMENT_WORDS)
            i += 1
        i += 1
    for _, kids in tree:
        if kids:
            _add_comments(rng, kids, safe, depth + 1, blank)


def drop_case(rng):
    for _ in range(100):
        c = tree_case(rng)
        text = "\n".join(c["lines"])
        pos = [i for i, ch in enumerate(text) if ch == "}"]
        if pos:
            p = rng.choice(pos)
            text2 = text[:p] + text[p + 1:]
            return mk("drop", text2.split("\n"), op="conv", tree=c["tree"], style=c["style"], dropped=p)
    return mk("drop", ["a {", "b;"], op="conv", tree=[["a"], [["b"], []]], style="junos", dropped=0)


SOUP = ['{', '}', '{', '}', ' ', ' ', '\t', '"', "'", ';', '\\', 'x', 'a', '1', 'f', 'g', '#', '\n', '\r', '\x0b',
        '\x0c', '\xe9', '\x1c', '\xa0', ':', '/', '[', ']', ' ']


def soup_case(rng):
    n = rng.choice([0, 1, 2, 3, 5, 8, 13, 21, 40])
    w = list(SOUP)
    if rng.random() < 0.6:
        w = [c for c in w if c not in '\xe9\x0b\x0c\x1c\xa0 ']
    txt = ''.join(rng.choice(w) for _ in range(n))
    if rng.random() < 0.6:
        txt = 'h {' + txt + '}'
    lines = txt.split('\n') if rng.random() < 0.7 else [txt]
    return mk("adversarial", lines, op="conv")


HAND = [[""], ["", ""], [";"], ["a {", ";", "}"], ['"k 1" value;'], ['x "a""'], ['"a""'], ['"a\\', 'b" c'], ["a\tb;\t"],
        ["a\x0bb"], ["a\rb"], ["\xe9"], ["{"], ["}"], [" {}"], [" { a }"], ["a;;"], ["a ;"], ["a } b {"], ["a {", "b;"],
        ["a { b; c; }"], ["a { b; } c;"], ["a{b{c{d{e{f{g}}}}}}"], ["\ta {", "\t\tb;\t", "\t}"], ["a {}}"],
        ["banner motd ^", "a {", "b;", "c {", "d;", "}", "}", "e ^;"], ['d "x { y" ;'], ['"x { y" z;'], ["'a\\x4g' b"], ["'a\\xg' b"], ["a {", "b;  ", "}"]]


# ------------------------------------------------------------------ options and argument forms (channel `bracex`)
STOPS = [0, 1, 2, 3, 4, 4, 5, 8, -1, -3]
DELIMS = [None, ["#"], [], ["!", "#"], ["a"]]


def enc_lines(form, lines):
    return [form, wire.enc_strs(lines if form != "X" else [])]


def enc_delims(d):
    return "X" if d == "X" else ("N" if d is None else "=" + wire.enc_strs(d))


def mkx(kind, sub, lines, **extra):
    """one call of the API around the conversion; `sub`:
    bp  BraceParse(config_txt, comment_delimiters, stop_width, semicolon_end) directly
    cj  convert_junos_to_ios(input_list, stop_width, comment_delimiters, debug)
    hb  CiscoConfParse.handle_ccp_brace_syntax(tmp_lines, syntax)
    pw  CiscoConfParse(lines, syntax='junos', factory=.., ignore_blank_lines=..): texts and parent links"""
    c = {"kind": kind, "sub": sub, "lines": lines, "op": sub}
    c.update(extra)
    form = c.get("form", "L")
    if sub == "bp":
        c["req"] = wire.req("bracex", "bp", c.get("txtform", "S"), wire.enc_str("\n".join(lines)), enc_delims(c.get("delims")),
                            str(c.get("stop", 4)), "1" if c.get("semi_end") else "0")
    elif sub == "cj":
        c["req"] = wire.req("bracex", "cj", *enc_lines(form, lines), str(c.get("stop", 4)), enc_delims(c.get("delims")),
                            "0" if c.get("debug_bad") else "1")
    elif sub == "hb":
        c["req"] = wire.req("bracex", "hb", c.get("syn", "J"), *enc_lines(form, lines))
    else:
        c["req"] = wire.req("bracex", "pw", "1" if c.get("ign") else "0", *enc_lines(form, lines))
    return c


def opts_case(rng):
    """a well-formed tree in a random layout, through one of the entry points with valid option values"""
    base = tree_case(rng)
    lines, keep = base["lines"], dict(tree=base["tree"], style=base["style"], semis=base["semis"])
    r = rng.random()
    if r < 0.30:
        return mkx("opts", "bp", lines, stop=rng.choice(STOPS), semi_end=rng.random() < 0.5, delims=rng.choice(DELIMS), **keep)
    if r < 0.55:
        return mkx("opts", "cj", lines, stop=rng.choice(STOPS), delims=rng.choice(DELIMS), **keep)
    if r < 0.85:
        ign = rng.random() < 0.5
        return mkx("opts", "pw", lines, ign=ign, factory=(not ign and rng.random() < 0.7), **keep)
    return mkx("opts", "hb", lines, syn=rng.choice(["J", "J", "I"]), synname=rng.choice(["ios", "nxos", "asa", "iosxr"]),
               form=rng.choice(["L", "L", "T"]), **keep)


def args_case(rng):
    """argument values the entry points must refuse (several at once: the order of the checks shows)"""
    base = tree_case(rng)
    lines = base["lines"]
    r = rng.random()
    if r < 0.5:
        return mkx("args", "cj", [] if rng.random() < 0.15 else lines,
                   form=rng.choice(["L", "L", "T", "X"]), stop=rng.choice([4, 4, 2, "X"]),
                   delims=rng.choice([None, ["#"], "X", ["{"], ["#", "}"], ["{", "}"]]), debug_bad=rng.random() < 0.25)
    if r < 0.6:
        return mkx("args", "bp", lines, txtform="X", stop=rng.choice(STOPS), semi_end=rng.random() < 0.5)
    if r < 0.85:
        return mkx("args", "hb", lines, syn=rng.choice(["J", "I", "X", "X"]), synname=rng.choice(["ios", "asa"]),
                   badsyn=rng.choice(["f5", None, "JUNOS", ""]), form=rng.choice(["L", "T", "X", "X"]))
    # (a value that is no sequence of lines at all is the constructor's business — file names, C09/C10 — not generated)
    # a tuple of lines through the whole constructor: judged like the list form (texts and parents of the statement tree)
    return mkx("opts", "pw", lines, form="T", ign=rng.random() < 0.3, tree=base["tree"], style=base["style"], semis=base["semis"])


def blank_case(rng):
    """statements that are a lone ';' convert to blank lines (their text is empty: outside the property's trees, but
    the text / indentation / parent rule reads the same for them); ignore_blank_lines drops them before the lines
    are linked"""
    base = tree_case(rng, "blankstmt")
    lines, keep = base["lines"], dict(tree=base["tree"], style=base["style"], semis=base["semis"])
    if rng.random() < 0.7:
        return mkx("blankstmt", "pw", lines, ign=rng.random() < 0.6, factory=False, **keep)
    return mkx("blankstmt", "cj", lines, stop=rng.choice(STOPS), delims=["#"], **keep)


def cases(rng, tier):
    if tier != "search":
        for h in HAND:
            yield mk("adversarial", h, op="conv")
        yield mk("adversarial", [], op="txt")
        for fn in FIXTURES:
            path = os.path.join(FIXDIR, fn)
            if os.path.exists(path):
                lines = open(path, encoding="utf-8").read().splitlines()
                yield mk("fixture", lines, op="conv", name=fn)
    n = {"quick": 1500, "thorough": 40000, "search": 1500}[tier]
    for i in range(n):
        r = rng.random()
        if r < 0.62:
            yield tree_case(rng)
        elif r < 0.77:
            yield drop_case(rng)
        elif r < 0.83:
            yield tree_case(rng, "quotestart")
        elif r < 0.87:
            yield tree_case(rng, "cmtafter")
        else:
            yield soup_case(rng)
    # the option / argument streams come last: the cases above are, seed by seed, the ones generated before they existed
    nx = {"quick": (330, 170, 110), "thorough": (9000, 4000, 2500), "search": (400, 200, 100)}[tier]
    for _ in range(nx[0]):
        yield opts_case(rng)
    for _ in range(nx[1]):
        yield args_case(rng)
    for _ in range(nx[2]):
        yield blank_case(rng)


def neighbours(case, rng):
    text = "\n".join(case["lines"])
    for _ in range(300):
        s = list(text)
        if s and rng.random() < 0.5:
            del s[rng.randrange(len(s))]
        else:
            s.insert(rng.randrange(len(s) + 1), rng.choice(SOUP[:18]))
        yield mk("adversarial", "".join(s).split("\n"), op="conv")


def _canonical_layout(case):
    return case.get("style") == "junos"


def nontrivial(case):
    if case["kind"] == "drop":
        return True
    if case["kind"] == "opts":
        return tree_depth(case["tree"]) >= 2 and tree_size(case["tree"]) >= 4
    if case["kind"] in ("args", "blankstmt"):
        return True
    if case["kind"] != "tree":
        return False
    t = case["tree"]
    return tree_depth(t) >= 2 and tree_size(t) >= 4 and not _canonical_layout(case)


def describe(case):
    d = {"kind": case["kind"], "lines": case["lines"][:40]}
    for k in ("style", "name", "dropped", "sub", "form", "stop", "delims", "semi_end", "debug_bad", "syn", "synname", "badsyn",
              "ign", "factory", "txtform"):
        if k in case:
            d[k] = case[k]
    return d


def buckets(case, ans):
    out = ["kind:" + case["kind"], "answer:" + (ans.split("|")[0])]
    if "sub" in case:
        out.append("entry:" + case["sub"])
        for k in ("stop", "semi_end", "form", "syn", "ign", "factory", "txtform", "debug_bad"):
            if k in case:
                out.append(f"opt:{case['sub']}:{k}={case[k]}")
        if "delims" in case:
            out.append(f"opt:{case['sub']}:delims={'omitted' if case['delims'] is None else case['delims']}")
    if "tree" in case:
        out.append("levels:%d" % tree_depth(case["tree"]))
        out.append("statements:%s" % ("0" if not tree_size(case["tree"]) else "1-3" if tree_size(case["tree"]) < 4 else
                                      "4-15" if tree_size(case["tree"]) < 16 else "16+"))
        out.append("style:" + case["style"])
        text = "\n".join(case["lines"])
        out.append("tabs:" + ("yes" if "\t" in text else "no"))
        if "\r" in text:
            out.append("has:CR")
        if re.search(r"\{[^\n{}]*\}", text):
            out.append("has:one-line-block")
        if re.search(r"\n\s*\{", text):
            out.append("has:brace-on-next-line")
        if re.search(r"\n[ \t]*\n", text):
            out.append("has:blank-line")
        if re.search(r"(^|\n)\s*#", text):
            out.append("has:comment-line")
        if re.search(r";[ \t]+(\n|$)", text):
            out.append("has:blanks-after-semicolon")
    return out


# ------------------------------------------------------------------ implementation
def py_lines(case):
    form = case.get("form", "L")
    if form == "L":
        return list(case["lines"])
    if form == "T":
        return tuple(case["lines"])
    return [None, "a { b; }", 5, {"a": 1}][len(case["lines"]) % 4]


def impl_x(case):
    """the entry points around the conversion, with the option values / argument forms of the case"""
    ccp = quiet_ccp()
    from ciscoconfparse2.ciscoconfparse2 import convert_junos_to_ios, BraceParse
    sub = case["sub"]
    try:
        if sub == "bp":
            txt = "\n".join(case["lines"]) if case.get("txtform", "S") == "S" else [None, 5][len(case["lines"]) % 2]
            kw = dict(stop_width=case.get("stop", 4), semicolon_end=bool(case.get("semi_end")))
            if case.get("delims") is not None:
                kw["comment_delimiters"] = list(case["delims"])
            return "ok|" + wire.enc_strs([o.text for o in BraceParse(config_txt=txt, **kw).get_junoscfgline_list()])
        if sub == "cj":
            kw = {}
            stop = case.get("stop", 4)
            kw["stop_width"] = ["4", 4.0, None][len(case["lines"]) % 3] if stop == "X" else stop
            d = case.get("delims")
            if d == "X":
                kw["comment_delimiters"] = ["#", ("#",), {"#"}][len(case["lines"]) % 3]
            elif d is not None:
                kw["comment_delimiters"] = list(d)
            if case.get("debug_bad"):
                kw["debug"] = ["1", None, 1.5][len(case["lines"]) % 3]
            return "ok|" + wire.enc_strs(convert_junos_to_ios(py_lines(case), **kw))
        if sub == "hb":
            p = ccp.CiscoConfParse(["x"], syntax="junos")
            syn = {"J": "junos", "I": case.get("synname", "ios")}.get(case.get("syn", "J"), case.get("badsyn"))
            out = p.handle_ccp_brace_syntax(tmp_lines=py_lines(case), syntax=syn)
            return "ok|" + wire.enc_strs(list(out))
        p = ccp.CiscoConfParse(py_lines(case), syntax="junos", factory=bool(case.get("factory")),
                               ignore_blank_lines=bool(case.get("ign")))
        parents = [("r" if o.parent is o else str(o.parent.linenum)) for o in p.objs]
        if [o.linenum for o in p.objs] != list(range(len(p.objs))):
            return "bad-linenums"
        return "ok|" + wire.enc_strs(p.get_text()) + "|" + ",".join(parents)
    except Exception as e:  # noqa: BLE001 — the class is the outcome
        return exc_class(e)


def impl(case):
    if "sub" in case:
        return impl_x(case)
    ccp = quiet_ccp()
    from ciscoconfparse2.ciscoconfparse2 import convert_junos_to_ios
    lines = case["lines"]
    try:
        out = convert_junos_to_ios(list(lines), comment_delimiters=["#"])
        conv = None
    except Exception as e:  # ParseException (pyparsing) or ValueError
        out, conv = None, exc_class(e)
    if not lines:
        return conv if conv else "ok|" + wire.enc_strs(out)
    try:
        p = ccp.CiscoConfParse(list(lines), syntax="junos")
        gt = p.get_text()
        parents = [("r" if o.parent is o else str(o.parent.linenum)) for o in p.objs]
        gerr = None
    except Exception as e:
        gt, parents, gerr = None, None, exc_class(e)
    if conv is not None:
        return conv if gerr == conv else conv + "|parse:" + str(gerr or "ok")
    if gerr is not None:
        return "ok|" + wire.enc_strs(out) + "|parse:" + gerr
    ans = "ok|" + wire.enc_strs(out)
    if case["op"] == "conv":
        ans += "|" + ",".join(parents)
    if gt != out:
        ans += "|get_text-differs"
    return ans


# ------------------------------------------------------------------ oracle (independent of the Lean model)
def canon_convert(lines):
    """line-based converter for files written one statement per line; None when the file is not in that form"""
    out, depth = [], 0
    for ln in lines:
        s = ln.strip()
        if not s:
            continue
        if s.count('"') % 2 or s[0] in "\"'" and not re.fullmatch(r'"[^"]*" \{( \})?', s):
            return None
        m = re.fullmatch(r"([^{}]*[^{} ]) \{ \}", s)
        if m:
            out.append(" " * (4 * depth) + m.group(1))
        elif s == "}":
            depth -= 1
            if depth < 0:
                return None
        elif s.endswith(" {") and "{" not in s[:-1] and "}" not in s:
            out.append(" " * (4 * depth) + s[:-2].strip())
            depth += 1
        elif "{" in s or "}" in s:
            return None
        else:
            out.append(" " * (4 * depth) + (s[:-1].strip() if s.endswith(";") else s))
    return out if depth == 0 else None


def want_error(case):
    """the documented refusal of an entry point for the argument forms of the case (None = must be accepted)"""
    sub, form = case["sub"], case.get("form", "L")
    if sub == "bp":
        return "err:NotImplementedError" if case.get("txtform", "S") == "X" else None
    if sub == "cj":
        if form != "L" or case.get("stop") == "X" or case.get("delims") == "X" or case.get("debug_bad"):
            return "err:InvalidParameters"
        d = case.get("delims") or []
        if not case["lines"] or "{" in d or "}" in d:
            return "err:ValueError"
        return None
    if sub == "hb":
        if case.get("syn") == "X" or form == "X":
            return "err:InvalidParameters"
        return None
    return "err:InvalidParameters" if form == "X" else None


def oracle_x(case, ans):
    kind, sub = case["kind"], case["sub"]
    we = want_error(case)
    if we is not None:
        return [] if ans == we else [f"{sub} with malformed arguments: {ans}, expected {we}"]
    if case.get("form") == "T" and not (sub == "hb" and case.get("syn") == "I"):
        # a tuple of lines is a sequence of lines like a list (handle_ccp_brace_syntax lets it through)
        if ans.startswith("err:"):
            return [f"tuple-input: a well-formed brace config given as a tuple of lines is rejected with {ans}"]
    if kind == "args":
        if sub == "hb" and case.get("syn") == "I":
            return [] if ans == "ok|" + wire.enc_strs(case["lines"]) else ["non-brace syntax: the lines are not passed through unchanged"]
        if ans.startswith("err:"):
            return [f"{sub}: valid arguments rejected with {ans}"]
        return []
    # kind == "opts" / "blankstmt": a well-formed tree
    if not ans.startswith(("ok|", "err:")):
        return [f"{sub}: {ans}"]
    tree = case["tree"]
    if kind == "blankstmt" and case.get("ign"):
        tree = _without_blank(tree)      # ignore_blank_lines: as if the lone ';' statements were not there
    if ans.startswith("err:"):
        return [f"{sub}: well-formed brace config rejected with {ans}"]
    f = ans.split("|")
    got = wire.dec_strs(f[1])
    if sub == "hb" and case.get("syn") == "I":
        return [] if got == case["lines"] else ["non-brace syntax: the lines are not passed through unchanged"]
    if sub in ("bp", "cj"):
        width = case.get("stop", 4)
        want = flat(tree, width=width, semis=iter(case["semis"]) if (sub == "bp" and case.get("semi_end")) else None)
    else:
        want = flat(tree)
    if got != want:
        i = next((i for i, (a, b) in enumerate(zip(got, want)) if a != b), min(len(got), len(want)))
        return [f"{sub} {({k: case[k] for k in ('stop', 'semi_end', 'ign', 'factory', 'delims') if k in case})}: texts differ at "
                f"line {i}: got {got[i:i+2]!r} expected {want[i:i+2]!r} ({len(got)} vs {len(want)} lines)"]
    if sub == "pw":
        gp = f[2].split(",") if len(f) > 2 and f[2] else []
        wp = [("r" if p is None else str(p)) for p in tree_parents(tree)]
        if gp != wp:
            i = next(i for i, (a, b) in enumerate(zip(gp, wp)) if a != b)
            return [f"pw: parent of line {i} ({want[i]!r}) is {gp[i]} expected {wp[i]}"]
    return []


def _without_blank(tree):
    return [[w, _without_blank(k)] for w, k in tree if w != [";"]]


def oracle(case, ans):
    if "sub" in case:
        return oracle_x(case, ans)
    kind = case["kind"]
    fails = []
    if "get_text-differs" in ans or "|parse:" in ans:
        fails.append("CiscoConfParse(syntax='junos') and convert_junos_to_ios disagree: " + ans[-60:])
    if kind == "drop":
        if not ans.startswith("err:"):
            fails.append("a config with a missing closing brace was accepted")
        return fails
    if kind in ("tree", "quotestart", "cmtafter"):
        want = flat(case["tree"])
        if ans.startswith("err:"):
            return fails + [f"well-formed brace config rejected with {ans}"]
        f = ans.split("|")
        got = wire.dec_strs(f[1])
        if got != want:
            i = next((i for i, (a, b) in enumerate(zip(got, want)) if a != b), min(len(got), len(want)))
            fails.append(f"texts differ at line {i}: got {got[i:i+2]!r} expected {want[i:i+2]!r} ({len(got)} vs {len(want)} lines)")
        elif case["op"] == "conv" or kind == "cmtafter":
            if case["op"] == "conv":
                gp = f[2].split(",") if f[2] else []
            else:
                gp = _impl_parents(case)
            wp = [("r" if p is None else str(p)) for p in tree_parents(case["tree"])]
            if gp != wp:
                i = next(i for i, (a, b) in enumerate(zip(gp, wp)) if a != b)
                fails.append(f"parent of line {i} ({want[i]!r}) is {gp[i]} expected {wp[i]}")
        return fails
    if kind == "fixture":
        want = canon_convert(case["lines"])
        if want is not None:
            if ans.startswith("err:"):
                return fails + [f"fixture {case.get('name')} rejected with {ans}"]
            got = wire.dec_strs(ans.split("|")[1])
            if got != want:
                i = next((i for i, (a, b) in enumerate(zip(got, want)) if a != b), min(len(got), len(want)))
                fails.append(f"fixture {case.get('name')}: texts differ at line {i}: got {got[i:i+1]!r} expected {want[i:i+1]!r}")
        return fails
    return fails


def _impl_parents(case):
    ccp = quiet_ccp()
    p = ccp.CiscoConfParse(list(case["lines"]), syntax="junos")
    return [("r" if o.parent is o else str(o.parent.linenum)) for o in p.objs]


def known_id(case, failure):
    if case["kind"] == "quotestart" and failure.startswith("texts differ") and \
            any(isq(n[0][0]) for n in _walk(case["tree"])):
        return "F31"
    if case["kind"] == "quotestart" and failure.startswith("well-formed brace config rejected with err:ParseException"):
        # two statements that each START with an unbalanced quote character (`'x q`): on one physical line the two quote
        # characters pair up as a pyparsing quoted string that swallows the braces between them
        lone = [n for n in _walk(case["tree"]) if n[0] and n[0][0][:1] in ("'", '"')
                and " ".join(n[0]).count(n[0][0][0]) % 2 == 1]
        if len(lone) >= 2:
            return "F31b"
    if case["kind"] == "cmtafter" and " is r expected " in failure and \
            re.match(r"parent of line \d+ \(['\"]\s*#", failure):
        return "F32"
    return None
