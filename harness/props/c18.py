"""C18 — the command-line greps are order-preserving filters; parent/child/branch/diff print
exactly what the API returns.

Implementation side: the real `ccp_script_entry("ccp_faked …")`, reading `CliApplication.stdout`
(and the captured process stdout), on files in a scratch directory that is removed afterwards.
Model side: `cli` channel of `ccpdrv`; the request carries the oracle rows the model needs
(`re.split`, `IPv4Obj(word)`/`IPv6Obj(word)` → (ip, len), address texts, `re.search(…, re.I)`,
and — for the four sub-commands — the results of the direct API calls).
Oracle: recomputed from scratch with stdlib `ipaddress` and `re` (greps) or by calling the API
directly with the same terms, files, syntax and diff method (sub-commands); never the Lean model.
"""
import contextlib
import io
import ipaddress
import itertools
import os
import re
import shlex
import shutil
import sys
import tempfile

import wire
from props.common import quiet_ccp

ID = "C18"
LEAN_MODULES = ["Ccp.Props.C18", "Ccp.Props.RxC18"]
# bound of the escalated quick run (source fingerprint changed -> thorough generator): keeps that run near two minutes
ESCALATE_MAX_CASES = 25000
SCRATCH = os.environ.get("C18_SCRATCH", tempfile.gettempdir())

RULE = (
    "ipgrep: texts of 1..8 lines x 0..7 words; words are drawn from (a) addresses placed on the requested subnets' edges "
    "(network address, last address, one below, one above, first/last host) and inside/outside them, written bare, with /len, "
    "with a dotted netmask or, when the delimiter keeps blanks, as 'addr mask'; IPv6 compressed / upper case / embedded dotted quad; "
    "(b) boundary and invalid look-alikes (octet 256, /33, /129, three or five octets, leading zeros, '1::2::3', nine groups, "
    "trailing punctuation, empty words from adjacent delimiters); (c) plain words. Subnet lists: 1..4 of IPv4 / IPv6 / mixed, "
    "nested and overlapping prefixes (/0 /8 /24 /30 /31 /32, /0 /32 /64 /127 /128), duplicates, host-bit-set forms, or -4 / -6 / -4 -6; "
    "options: the cross product of {--unique | --line | neither} x --show-cidr x --show-networks x --exclude-hosts, "
    "word delimiter in {\\s+ (default), ',', '[,\\s]+', ';'}, lines joined by \\n, \\r\\n, \\r or another str.splitlines boundary "
    "(VT, FF, FS, NEL, U+2028), occasionally a non-ASCII \\s character between words; plus malformed invocations (no -s, -s with -4, empty -s, bad subnet, "
    "--line with --show-cidr). macgrep: words in every spelling of macaddress (dash, colon, dotted quad of 16 bits, bare hex; 48 and 64 bit; "
    "mixed case), near misses (one digit short/long, wrong separator, 'g'), regex lists of 1..3 items (anchored, separators in any style, "
    "alternations, '.'), --unique / --line. parent/child/branch: small indentation configs (3 levels, duplicates, blank lines) and brace "
    "configs for junos, 1..3 terms taken from the config (plus misses, '' and regex forms), delimiters ',', ';', '::', every syntax, "
    "-o raw_text / original (branch) / json, one or two files. diff: pairs of such configs x {diff, rollback} x every syntax, always "
    "including a hostname change (nxos / iosxr treat it as idempotent, ios does not). "
    "input source stream (ipgrep / macgrep): the same texts piped through standard input with no FILE argument, and no FILE with a terminal as "
    "standard input (the parser's 'file argument is required' error). namespace stream (CliApplication built from a hand-made argparse.Namespace, "
    "ArgParser given its input string): ipgrep with exclude_networks on / off (an attribute no option sets) over all flag sets, text from a file "
    "object or None; diff with a method outside {diff, rollback}; a command that is none of the six sub-commands (channel clins, model CliNs). "
    "non-trivial = the expected output is non-empty and differs from the unfiltered input (greps) or the API result is non-empty (sub-commands). "
    "Not generated: scoped IPv6 ('%eth0', rejected by IPv6Obj, accepted by the stdlib), "
    "invalid regexes, arguments beginning with '-', NUL / newline inside an argument, non-UTF-8 files."
)
LEVEL_TEXT = (
    "Theorems (Lean 4, for all texts, subnet lists, option values and all oracle functions re.split / IPv4Obj / IPv6Obj / address text / "
    "re.search / API): word mode prints words.filterMap of 'valid address, inside at least one requested subnet of its family, not excluded "
    "-> its rendering' (ipgrep_filter, wordOut_spec), hence a subsequence of the input words in input order with one line per kept occurrence "
    "(ipgrep_sublist), independent of order and multiplicity of the requested subnets, which the code keeps in a Python set "
    "(ipgrep_subnets_irrelevant); --unique prints exactly the first occurrences of that output (ipgrep_unique; firstOccs_spec: duplicate free, "
    "same members, subsequence, = List.eraseDups); the rendering is address / CIDR address / network as requested and the unique key is the "
    "printed text (render_spec, uniqueKey_eq_render); --exclude-hosts drops host routes and, unless networks are shown, addresses with host "
    "bits (hostExcluded_spec); `addr in subnet` is C12's subnet containment (hit_is_containment); line mode prints in order and once exactly the "
    "lines with a kept hit and no excluded hit (ipgrep_line_filter; without --exclude-hosts exactly the lines having a contained word, "
    "ipgrep_line_filter_plain); option plumbing -4/-6/-s, word vs line mode (ipgrep_subnet_options, ipgrep_word_mode, ipgrep_line_mode); "
    "macgrep word mode = words.filter(is MAC/EUI-64 in any spelling (C16's constructors, macgrep_word_is_mac) and some regex finds one of the "
    "spellings dash/colon/cisco/bare), --unique = first occurrences by spelling, line mode = lines.filter (macgrep_filter, macgrep_unique, "
    "macgrep_line_filter, macWordMatches_iff, macgrep_modes); parent/child/branch/diff print exactly the API result for the arguments the code "
    "passes: CiscoConfParse(config=file, syntax=-s).find_parent_objects/find_child_objects/find_object_branches(args.split(delimiter)) file after "
    "file, Diff(read(f0), read(f1), syntax=-s).get_diff()/get_rollback() by -m (cli_is_api_parent, cli_is_api_child, cli_is_api_branch_raw, "
    "cli_is_api_branch_original, sortLines_spec, cli_is_api_diff, diff_honours_syntax — F48, `diff` not passing -s, was repaired in /repo); "
    "the greps are the same whether the text comes from the FILE argument or from standard input, and end with the parser's error when there is "
    "neither (grep_source_irrelevant, grep_needs_input); a Namespace carrying exclude_networks drops exactly the non-host hits and the filter "
    "theorems (stated for every Opts) apply (ipgrepX_modes, netExcluded_spec); an unknown command is refused (other_command_rejected). "
    "The model is tied to cli_script.py by differential runs of the real ccp_script_entry on every check."
)
LEVEL_NOTE = (
    "Trusted: Lean kernel; axioms propext/Classical.choice/Quot.sound only; the correspondence harness. Modelled, not verified: argparse "
    "(the model starts from the parsed Namespace), file reading, re.split / re.search (oracle rows computed with `re` directly), the text -> "
    "(ip, prefixlen) reading of IPv4Obj/IPv6Obj and the address text (oracle rows; C11), the CiscoConfParse / Diff API results (oracle rows "
    "obtained by direct API calls; C04/C10). In line mode with --exclude-hosts the code drops a line as soon as one of its contained words is a "
    "host; the theorem states that reading."
)
LEVEL_NOTE += (" " + "regexes_as_modelled (Ccp.RxC18): the argparse / getattr defaults of cli_script.py (--word_delimiter \\s+, --regex '.', --delimiter ',', --output raw_text, --syntax ios, --method diff), the literal separators of ipgrep / macgrep and the re.I flag of MACEUISearch.search_all_formats are re-read from /repo's AST on every run and proved equal to what Model/Cli.lean and this harness hard-wire (the regex engine itself is a parameter of the model).")
LEVEL_NOTE += (" Scan sets as revised: regexes_as_modelled ties the regex-engine calls with the pattern in canonical form (canonical verbose form without the flag, group names and redundant escapes removed, per-value specialisation of a pattern passed to a same-file helper or built from a name that ranges over a constant collection, always-true searches left out), flags, re.sub replacements and the separator arguments of str.split/join/replace/strip; the literal tests (\"lit\" in x, == against string literals and their subscripts, startswith) are informational definitions Gen.rx...Info, no theorem is about them.")
EXHAUSTIVE = {"quick": False, "thorough": False}
ASSUMPTIONS = [
    "no word is accepted both by IPv4Obj and by IPv6Obj (checked on every generated word; the theorems that need it take it as hypothesis `Disjoint`)",
    "the address text str(IPv4Address(n)) / str(IPv6Address(n)) is injective (hypothesis of hostExcluded_spec only)",
    "files are UTF-8, read with universal newlines, exactly as the harness reads them back",
]
TRUSTED = [
    "argparse option parsing is not modelled; the model starts from the Namespace values",
    "re.split / re.search, IPv4Obj/IPv6Obj text parsing, ipaddress text rendering, CiscoConfParse / Diff results enter the model as oracle rows",
]

SYNTAXES = ["ios", "nxos", "iosxr", "asa", "junos"]


# ------------------------------------------------------------------------------------------
# running the CLI
class _Stdin(io.StringIO):
    """standard input as the argument parser sees it: piped text, or a terminal nobody types into"""

    def __init__(self, text, tty):
        super().__init__(text)
        self._tty = tty

    def isatty(self):
        return self._tty


def run_cli(argv, stdin=None):
    """argv: list of arguments after `ccp`. stdin: None (untouched), a str (piped text) or "tty" given as ("tty",).
    Returns (answer, process stdout)."""
    quiet_ccp()
    from ciscoconfparse2.cli_script import ccp_script_entry
    cmd = "ccp_faked " + " ".join(shlex.quote(a) for a in argv)
    buf = io.StringIO()
    saved_argv, saved_stdin = sys.argv, sys.stdin
    try:
        if stdin is not None:
            sys.stdin = _Stdin("", True) if stdin == ("tty",) else _Stdin(stdin, False)
        with contextlib.redirect_stdout(buf), contextlib.redirect_stderr(io.StringIO()):
            app = ccp_script_entry(cmd)
        ans = "ok|" + wire.enc_strs(app.stdout)
    except SystemExit:
        ans = "err:SystemExit"
    except Exception as e:  # noqa: BLE001 - the class is the observation
        ans = "err:" + type(e).__name__
    finally:
        sys.argv, sys.stdin = saved_argv, saved_stdin
    return ans, buf.getvalue()


def run_ns(**attrs):
    """CliApplication built from a hand-made argparse.Namespace (what the argument parser would hand over, plus
    attribute values no command line can produce). Returns (answer, process stdout)."""
    quiet_ccp()
    from argparse import Namespace
    from ciscoconfparse2.cli_script import ArgParser, CliApplication
    buf = io.StringIO()
    try:
        with contextlib.redirect_stdout(buf), contextlib.redirect_stderr(io.StringIO()):
            app = CliApplication(ArgParser("ccp " + str(attrs.get("command"))), Namespace(**attrs))
        ans = "ok|" + wire.enc_strs(app.stdout)
    except SystemExit:
        ans = "err:SystemExit"
    except Exception as e:  # noqa: BLE001 - the class is the observation
        ans = "err:" + type(e).__name__
    return ans, buf.getvalue()


@contextlib.contextmanager
def scratch(files):
    """files: {basename: text}. Yields {basename: path}; the directory is removed afterwards."""
    d = tempfile.mkdtemp(prefix="c18-", dir=SCRATCH)
    try:
        paths = {}
        for name, text in files.items():
            p = os.path.join(d, name)
            with open(p, "w", encoding="utf-8", newline="") as fh:
                fh.write(text)
            paths[name] = p
        yield paths
    finally:
        shutil.rmtree(d, ignore_errors=True)


def read_back(path):
    with open(path, encoding="utf-8") as fh:
        return fh.read()


# ------------------------------------------------------------------------------------------
# ipgrep
def ip_argv(case, path):
    argv = ["ipgrep"]
    if case["subnets"] is not None:
        argv += ["-s", case["subnets"]]
    fl = case["flags"]
    for c, opt in (("4", "-4"), ("6", "-6"), ("c", "--show-cidr"), ("n", "--show-networks"),
                   ("H", "--exclude-hosts"), ("l", "--line"), ("u", "--unique")):
        if c in fl:
            argv.append(opt)
    if case["delim"] is not None:
        argv += ["-w", case["delim"]]
    if path is not None:
        argv.append(path)
    return argv


def ip_namespace(case, text):
    """the Namespace `ccp ipgrep ...` hands over (word_delimiter default included), plus exclude_networks"""
    fl = case["flags"]
    return dict(command="ipgrep", ipgrep_file=None if text is None else io.StringIO(text), subnets=case["subnets"],
                ipv4="4" in fl, ipv6="6" in fl, word_delimiter=case["delim"] if case["delim"] is not None else r"\s+",
                show_cidr="c" in fl, show_networks="n" in fl, exclude_hosts="H" in fl, line="l" in fl, unique="u" in fl,
                exclude_networks=bool(case.get("xn")))


def _obj_pair(cls, w):
    try:
        o = cls(w)
        return (int(o.ip), int(o.prefixlen))
    except Exception:  # noqa: BLE001 - exactly what the CLI catches
        return None


def ip_rows(case, text):
    """oracle rows for the model, computed with `re`, the IPv4Obj/IPv6Obj constructors and stdlib ipaddress"""
    from ciscoconfparse2.ccp_util import IPv4Obj, IPv6Obj
    delim = case["delim"] if case["delim"] is not None else r"\s+"
    keys = [text] + text.splitlines()
    splits = {}
    for k in keys:
        splits.setdefault(k, re.split(delim, k))
    words = set(w for ws in splits.values() for w in ws)
    sub = case["subnets"]
    if sub is None:
        sub = "0.0.0.0/0,::/0"
    words |= set(sub.split(","))
    addr_rows, txt_rows = [], {}
    both = False
    for w in sorted(words):
        p4, p6 = _obj_pair(IPv4Obj, w), _obj_pair(IPv6Obj, w)
        both = both or (p4 is not None and p6 is not None)
        enc = lambda p: "-" if p is None else f"{p[0]}:{p[1]}"  # noqa: E731
        addr_rows.append(f"{wire.enc_str(w)}={enc(p4)}/{enc(p6)}")
        for ver, p, A, N in ((4, p4, ipaddress.IPv4Address, ipaddress.IPv4Network), (6, p6, ipaddress.IPv6Address, ipaddress.IPv6Network)):
            if p is not None:
                net = int(N((p[0], p[1]), strict=False).network_address)
                for n in (p[0], net):
                    txt_rows[(ver, n)] = str(A(n))
    split_rows = [f"{wire.enc_str(k)}={wire.enc_strs(v)}" for k, v in splits.items()]
    txts = [f"{ver}:{n}={wire.enc_str(t)}" for (ver, n), t in sorted(txt_rows.items())]
    return ";".join(split_rows), ";".join(addr_rows), ";".join(txts), both


def ip_impl(case):
    source = case.get("source", "file")
    with scratch({"in.txt": case["text"]}) as paths:
        text = read_back(paths["in.txt"])
        if case.get("ns"):
            ans, out = run_ns(**ip_namespace(case, None if source == "tty" else text))
        elif source == "file":
            ans, out = run_cli(ip_argv(case, paths["in.txt"]))
        elif source == "stdin":
            ans, out = run_cli(ip_argv(case, None), stdin=text)
        else:
            ans, out = run_cli(ip_argv(case, None), stdin=("tty",))
    splits, addrs, txts, both = ip_rows(case, text)
    case["_proc"] = out
    case["_both"] = both
    case["_read"] = text
    sub = "-" if case["subnets"] is None else wire.enc_str(case["subnets"])
    if source == "file" and not case.get("ns"):
        req = wire.req("cli", "ipgrep", case["flags"], sub, wire.enc_str(text), splits, addrs, txts)
    else:
        req = wire.req("clins", "ipgrep", {"file": "f", "stdin": "s", "tty": "t"}[source], "1" if case.get("xn") else "0",
                       case["flags"], sub, wire.enc_str(text), splits, addrs, txts)
    return ans, req


def ref_iface(w):
    """A word as the property reads it: an address with optional /len, /mask or ' mask'."""
    s = w.strip()
    m = re.fullmatch(r"(\S+)\s+(\S+)", s)
    if m:
        s = m.group(1) + "/" + m.group(2)
    if "%" in s:
        return None
    try:
        return ipaddress.ip_interface(s)
    except ValueError:
        return None


def ref_ipgrep(case, text):
    """expected CliApplication.stdout, or an error family"""
    fl = case["flags"]
    sub = case["subnets"]
    if case.get("source") == "tty":
        return "err:SystemExit"          # nothing to read: the argument parser's error, whatever else is given
    xn = bool(case.get("xn"))
    if sub is None:
        if "4" in fl and "6" in fl:
            sub = "0.0.0.0/0,::/0"
        elif "4" in fl:
            sub = "0.0.0.0/0"
        elif "6" in fl:
            sub = "::/0"
        else:
            return "err:SystemExit"
    elif "4" in fl or "6" in fl or sub == "":
        return "err:SystemExit"
    nets = []
    for s in sub.split(","):
        i = ref_iface(s)
        if i is None:
            return "err:ValueError"
        nets.append(i.network)
    delim = case["delim"] if case["delim"] is not None else r"\s+"
    show_net = "n" in fl
    show_cidr = "c" in fl or show_net

    def classify(w):
        i = ref_iface(w)
        if i is None:
            return None
        if not any(n.version == i.version and i.network.subnet_of(n) for n in nets):
            return None
        host = i.network.prefixlen == i.max_prefixlen or (not show_net and i.ip != i.network.network_address)
        excluded = ("H" in fl and host) or (xn and i.network.prefixlen != i.max_prefixlen)   # exclude_networks: all but /32, /128
        if show_net:
            r = str(i.network)
        elif show_cidr:
            r = f"{i.ip}/{i.network.prefixlen}"
        else:
            r = str(i.ip)
        return excluded, r

    if "l" in fl:
        if show_cidr:
            return "err:SystemExit"
        out = []
        for line in text.splitlines():
            hits = [c for c in map(classify, re.split(delim, line)) if c is not None]
            if hits and not any(e for e, _ in hits):
                out.append(line)
        return out
    out = []
    for w in re.split(delim, text):
        c = classify(w)
        if c is not None and not c[0]:
            if "u" in fl and c[1] in out:
                continue
            out.append(c[1])
    return out


def check_lines(ans, want, what):
    if isinstance(want, str):
        return [] if ans == want else [f"{what}: expected {want}, got {ans[:60]}"]
    if not ans.startswith("ok|"):
        return [f"{what}: raised {ans} instead of printing {len(want)} lines"]
    got = wire.dec_strs(ans[3:])
    if got == want:
        return []
    for i, (g, w) in enumerate(itertools.zip_longest(got, want)):
        if g != w:
            return [f"{what}: output line {i} is {g!r}, expected {w!r} ({len(got)} lines printed, {len(want)} expected)"]
    return [f"{what}: outputs differ"]


def proc_check(case, ans, exact):
    """process stdout = the stdout list printed line by line (after the rich header for sub-commands)"""
    if not ans.startswith("ok|"):
        return []
    body = "".join(s + "\n" for s in wire.dec_strs(ans[3:]))
    out = case.get("_proc", "")
    if exact and out != body:
        return [f"process stdout differs from CliApplication.stdout: {out[:80]!r}"]
    if not exact and not out.endswith(body):
        return ["process stdout does not end with the lines of CliApplication.stdout"]
    return []


def ip_oracle(case, ans):
    fails = []
    if case.get("_both"):
        fails.append("a word is accepted by IPv4Obj and by IPv6Obj (assumption Disjoint does not hold)")
    want = ref_ipgrep(case, case["_read"])
    fails += check_lines(ans, want, "ipgrep")
    fails += proc_check(case, ans, exact=True)
    return fails


# ------------------------------------------------------------------------------------------
# macgrep
def mac_argv(case, path):
    argv = ["macgrep"]
    if case["regex"] is not None:
        argv += ["-r", case["regex"]]
    if "l" in case["flags"]:
        argv.append("--line")
    if "u" in case["flags"]:
        argv.append("--unique")
    if case["delim"] is not None:
        argv += ["-w", case["delim"]]
    if path is not None:
        argv.append(path)
    return argv


HEX = "[0-9A-Fa-f]"
MAC_FORMS = []
for nbytes in (6, 8):
    MAC_FORMS.append((nbytes, re.compile(f"{HEX}{{2}}(?:-{HEX}{{2}}){{{nbytes - 1}}}")))
    MAC_FORMS.append((nbytes, re.compile(f"{HEX}{{2}}(?::{HEX}{{2}}){{{nbytes - 1}}}")))
    MAC_FORMS.append((nbytes, re.compile(f"{HEX}{{4}}(?:\\.{HEX}{{4}}){{{nbytes // 2 - 1}}}")))
    MAC_FORMS.append((nbytes, re.compile(f"{HEX}{{{2 * nbytes}}}")))


def ref_mac(w):
    """(nbytes, value) when `w` is a MAC / EUI-64 in one of the spellings, else None"""
    for nbytes, rx in MAC_FORMS:
        if rx.fullmatch(w) and not w.endswith("\n"):
            return nbytes, int(re.sub(r"[-:.]", "", w), 16)
    return None


def ref_spellings(nbytes, v):
    h = format(v, "0%dx" % (2 * nbytes))
    by = [h[i:i + 2] for i in range(0, len(h), 2)]
    return ["-".join(by), ":".join(by), ".".join(h[i:i + 4] for i in range(0, len(h), 4)), h]


def mac_rows(case, text):
    from ciscoconfparse2.cli_script import MACEUISearch
    delim = case["delim"] if case["delim"] is not None else r"\s+"
    regex = case["regex"] if case["regex"] is not None else "."
    keys = [text] + text.splitlines()
    splits = {}
    for k in keys:
        splits.setdefault(k, re.split(delim, k))
    rows = {}
    for w in set(w for ws in splits.values() for w in ws):
        obj = MACEUISearch(w).mac_retval
        if obj is None:
            continue
        for t in (obj.dash, obj.colon, obj.cisco, obj.dash.replace("-", "")):
            for rgx in regex.split(","):
                rows[(rgx, t)] = re.search(rgx, t, re.I) is not None
    split_rows = [f"{wire.enc_str(k)}={wire.enc_strs(v)}" for k, v in splits.items()]
    rx_rows = [f"{wire.enc_str(r)}~{wire.enc_str(t)}={int(b)}" for (r, t), b in sorted(rows.items())]
    return ";".join(split_rows), ";".join(rx_rows)


def mac_impl(case):
    source = case.get("source", "file")
    with scratch({"in.txt": case["text"]}) as paths:
        text = read_back(paths["in.txt"])
        if source == "file":
            ans, out = run_cli(mac_argv(case, paths["in.txt"]))
        elif source == "stdin":
            ans, out = run_cli(mac_argv(case, None), stdin=text)
        else:
            ans, out = run_cli(mac_argv(case, None), stdin=("tty",))
    splits, rxs = mac_rows(case, text)
    case["_proc"] = out
    case["_read"] = text
    rgx = wire.enc_str(case["regex"] if case["regex"] is not None else ".")
    if source == "file":
        req = wire.req("cli", "macgrep", case["flags"], rgx, wire.enc_str(text), splits, rxs)
    else:
        req = wire.req("clins", "macgrep", {"stdin": "s", "tty": "t"}[source], case["flags"], rgx, wire.enc_str(text), splits, rxs)
    return ans, req


def ref_macgrep(case, text):
    if case.get("source") == "tty":
        return "err:SystemExit"
    delim = case["delim"] if case["delim"] is not None else r"\s+"
    regexes = (case["regex"] if case["regex"] is not None else ".").split(",")

    def matches(w):
        m = ref_mac(w)
        if m is None:
            return False
        return any(re.search(r, t, re.I) for r in regexes for t in ref_spellings(*m))

    if "l" in case["flags"]:
        return [ln for ln in text.splitlines() if any(matches(w) for w in re.split(delim, ln))]
    out = []
    for w in re.split(delim, text):
        if matches(w) and not ("u" in case["flags"] and w in out):
            out.append(w)
    return out


def mac_oracle(case, ans):
    return check_lines(ans, ref_macgrep(case, case["_read"]), "macgrep") + proc_check(case, ans, exact=True)


# ------------------------------------------------------------------------------------------
# parent / child / branch
def find_argv(case, paths):
    argv = [case["cmd"], "-a", case["delimiter"].join(case["terms"]) if case.get("args") is None else case["args"]]
    if case["delimiter"] != ",":
        argv += ["-d", case["delimiter"]]
    if case["syntax"] is not None:
        argv += ["-s", case["syntax"]]
    if case["output"] is not None:
        argv += ["-o", case["output"]]
    if case.get("all_children"):
        argv.append("-A")          # accepted by `parent`, stored, never used
    argv += [paths[n] for n in sorted(paths)]
    return argv


def enc_line(o):
    return f"{o.linenum}:{wire.enc_str(o.text)}"


def _api(fn, enc):
    try:
        return enc(fn())
    except Exception as e:  # noqa: BLE001
        return "err:" + type(e).__name__


def enc_branches(bs):
    return "&".join(",".join("-" if o is None else enc_line(o) for o in b) for b in bs)


def find_rows(case, paths, args_text):
    """results of the direct API calls, for the requested syntax and for the default"""
    from ciscoconfparse2 import CiscoConfParse
    terms = args_text.split(case["delimiter"])
    syn_req = case["syntax"] if case["syntax"] is not None else "ios"
    rows = []
    for name in sorted(paths):
        for syn in dict.fromkeys([syn_req, "ios"]):
            key = f"{wire.enc_str(name)}|{wire.enc_str(syn)}"
            try:
                p = CiscoConfParse(config=paths[name], syntax=syn)
            except Exception as e:  # noqa: BLE001
                rows.append(f"X|{key}=err:{type(e).__name__}")
                continue
            rows.append(f"X|{key}=ok")
            tk = wire.enc_strs(terms)
            enc_objs = lambda objs: ",".join(enc_line(o) for o in objs)  # noqa: E731
            rows.append(f"P|{key}|{tk}=" + _api(lambda: p.find_parent_objects(terms), enc_objs))
            rows.append(f"C|{key}|{tk}=" + _api(lambda: p.find_child_objects(terms), enc_objs))
            rows.append(f"B|{key}|{tk}=" + _api(lambda: p.find_object_branches(terms), enc_branches))
            if len(terms) == 1:
                try:
                    parents = p.find_parent_objects([terms[0]])
                except Exception:  # noqa: BLE001
                    parents = []
                for o in parents:
                    rows.append(f"A|{key}|{enc_line(o)}=" + enc_objs(o.all_children))
    return ";".join(dict.fromkeys(rows))


def find_files(case):
    return {f"f{i}.cfg": t for i, t in enumerate(case["configs"])}


def find_impl(case):
    args_text = case["delimiter"].join(case["terms"])
    with scratch(find_files(case)) as paths:
        ans, out = run_cli(find_argv(case, paths))
        rows = find_rows(case, paths, args_text)
        case["_want"] = ref_find(case, paths, args_text)
    case["_proc"] = out
    req = wire.req("cli", "find", case["cmd"], wire.enc_str(args_text), wire.enc_str(case["delimiter"]),
                   wire.enc_str(case["syntax"] if case["syntax"] is not None else "ios"),
                   wire.enc_str(case["output"] if case["output"] is not None else "raw_text"),
                   wire.enc_strs(sorted(find_files(case))), rows)
    return ans, req


def ref_find(case, paths, args_text):
    """what the corresponding API call returns for the same terms, files and syntax"""
    from ciscoconfparse2 import CiscoConfParse
    terms = args_text.split(case["delimiter"])
    syn = case["syntax"] if case["syntax"] is not None else "ios"
    output = case["output"] if case["output"] is not None else "raw_text"
    out = []
    try:
        for name in sorted(paths):
            p = CiscoConfParse(config=paths[name], syntax=syn)
            if output == "json" or (output == "original" and case["cmd"] != "branch"):
                return "err:*"
            if case["cmd"] == "parent":
                out += [o.text for o in p.find_parent_objects(terms)]
            elif case["cmd"] == "child":
                out += [o.text for o in p.find_child_objects(terms)]
            elif output == "raw_text":
                if len(terms) == 1:
                    return "err:NotImplementedError"
                for b in p.find_object_branches(terms):
                    out += [o.text for o in b]
            else:
                if len(terms) == 1:
                    objs = []
                    for o in p.find_parent_objects([terms[0]]):
                        objs += [o] + list(o.all_children)
                else:
                    objs = [o for b in p.find_object_branches(terms) for o in b]
                seen = {}
                for o in objs:
                    seen.setdefault(o.linenum, o.text)
                out += [seen[k] for k in sorted(seen)]
    except Exception as e:  # noqa: BLE001
        return "err:" + type(e).__name__
    return out


def find_oracle(case, ans):
    want = case["_want"]
    if want == "err:*":
        return [] if ans.startswith("err:") else [f"{case['cmd']}: an unsupported output format printed {ans[:60]}"]
    return check_lines(ans, want, case["cmd"]) + proc_check(case, ans, exact=False)


# ------------------------------------------------------------------------------------------
# diff
def diff_argv(case, paths):
    argv = ["diff"]
    if case["method"] is not None:
        argv += ["-m", case["method"]]
    if case["syntax"] is not None:
        argv += ["-s", case["syntax"]]
    return argv + [paths["f0.cfg"], paths["f1.cfg"]]


def _diff_api(old, new, syn):
    from ciscoconfparse2 import Diff
    d = Diff(old, new, syntax=syn)
    return d.get_diff(), d.get_rollback()


def diff_impl(case):
    with scratch({"f0.cfg": case["old"], "f1.cfg": case["new"]}) as paths:
        old, new = read_back(paths["f0.cfg"]), read_back(paths["f1.cfg"])
        if case.get("ns"):       # a hand-made Namespace: any `method` string
            ans, out = run_ns(command="diff", file=[paths["f0.cfg"], paths["f1.cfg"]],
                              method=case["method"] if case["method"] is not None else "diff",
                              syntax=case["syntax"] if case["syntax"] is not None else "ios")
        else:
            ans, out = run_cli(diff_argv(case, paths))
    syn_req = case["syntax"] if case["syntax"] is not None else "ios"
    rows = [f"R|{wire.enc_str('f0.cfg')}={wire.enc_str(old)}", f"R|{wire.enc_str('f1.cfg')}={wire.enc_str(new)}"]
    for syn in dict.fromkeys([syn_req, "ios"]):
        key = f"D|{wire.enc_str(old)}|{wire.enc_str(new)}|{wire.enc_str(syn)}"
        try:
            d, r = _diff_api(old, new, syn)
            rows.append(f"{key}={wire.enc_strs(d)}>{wire.enc_strs(r)}")
        except Exception as e:  # noqa: BLE001
            rows.append(f"{key}=err:{type(e).__name__}")
    case["_proc"] = out
    case["_read"] = [old, new]
    req = wire.req("cli", "diff", wire.enc_strs(["f0.cfg", "f1.cfg"]),
                   wire.enc_str(case["method"] if case["method"] is not None else "diff"),
                   wire.enc_str(syn_req), ";".join(rows))
    return ans, req


def diff_oracle(case, ans):
    old, new = case["_read"]
    syn = case["syntax"] if case["syntax"] is not None else "ios"
    method = case["method"] if case["method"] is not None else "diff"
    if method not in ("diff", "rollback"):
        return [] if ans.startswith("err:") else [f"diff method {method!r} is neither diff nor rollback, but lines were printed"]
    try:
        d, r = _diff_api(old, new, syn)
        want = d if method == "diff" else r
    except Exception as e:  # noqa: BLE001
        want = "err:" + type(e).__name__
    fails = check_lines(ans, want, f"diff -s {syn} -m {method}")
    if fails and syn != "ios":
        # does the output equal what syntax='ios' gives?  then -s was ignored
        try:
            d0, r0 = _diff_api(old, new, "ios")
            if not check_lines(ans, d0 if method == "diff" else r0, "x"):
                fails = [f"diff: -s {syn} ignored (output is that of Diff(old, new, syntax='ios')): " + fails[0]]
        except Exception:  # noqa: BLE001
            pass
    return fails + proc_check(case, ans, exact=False)


def known_id(case, failure):
    return None      # F48 (diff ignored -s) is repaired; a recurrence is a violation


# ------------------------------------------------------------------------------------------
# a Namespace naming no sub-command
def command_impl(case):
    ans, out = run_ns(command=case["name"])
    case["_proc"] = out
    return ans, wire.req("clins", "command", wire.enc_str(case["name"]))


def command_oracle(case, ans):
    known = ("parent", "child", "branch", "diff", "ipgrep", "macgrep")
    if case["name"] not in known and not ans.startswith("err:"):
        return [f"command {case['name']!r} is no sub-command, but the application ran: {ans[:40]}"]
    return []


# ------------------------------------------------------------------------------------------
# dispatch
IMPL = {"ipgrep": ip_impl, "macgrep": mac_impl, "find": find_impl, "diff": diff_impl, "command": command_impl}
ORACLE = {"ipgrep": ip_oracle, "macgrep": mac_oracle, "find": find_oracle, "diff": diff_oracle, "command": command_oracle}


def impl(case):
    return IMPL[case["kind"]](case)


def oracle(case, ans):
    if ans.startswith("harness-exc:"):
        return []
    return ORACLE[case["kind"]](case, ans)[:3]


def from_corpus(c):
    return dict(c)


# ------------------------------------------------------------------------------------------
# generators
PLAIN = ["interface", "ip", "address", "route", "via", "host", "permit", "any", "eq", "80", "1.5", "Gi0/1", "::", "a:b", "-", "ge", "255"]
BAD4 = ["10.0.0.256", "10.0.0", "1.2.3.4.5", "10.0.0.1/33", "010.0.0.1", "10.0.0.01", "10.0.0.1/", "10.0.0.1/24/2", "10.0.0.1/-1",
        "10.0.0.1.", ".10.0.0.1", "10.0.0.1:80", "(10.0.0.1)", "10.0.0.1/255.0.255.0", "10..0.1", "0x0a.0.0.1", "10.0.0.1/a"]
BAD6 = ["1::2::3", "1:2:3:4:5:6:7:8:9", "12345::1", "::g", "fd01::5/129", ":::", "fd01:", "[::1]", "::1/", "1:2:3:4:5:6:7", "fd01::5/-1"]


def v4(n):
    return str(ipaddress.IPv4Address(n & 0xFFFFFFFF))


def v6(n):
    return str(ipaddress.IPv6Address(n & ((1 << 128) - 1)))


def rand_net(rng, ver):
    if ver == 4:
        ln = rng.choice([0, 1, 8, 16, 23, 24, 24, 28, 30, 31, 32])
        base = rng.choice([0x0A000000, 0x0A000100, 0xAC100000, 0xC0A80100, 0xFFFFFF00, 0, rng.getrandbits(32)])
        return ipaddress.IPv4Network((base, ln), strict=False)
    ln = rng.choice([0, 16, 32, 48, 64, 64, 112, 126, 127, 128])
    base = rng.choice([0xFD01 << 112, 0x20010DB8 << 96, (0x20010DB8 << 96) + (1 << 64), 0, (1 << 128) - 256, rng.getrandbits(128)])
    return ipaddress.IPv6Network((base, ln), strict=False)


def subnet_text(rng, net):
    """one item of -s: the network, a member with host bits set, a bare address (host route)"""
    r = rng.random()
    lo, hi = int(net.network_address), int(net.broadcast_address)
    A = ipaddress.IPv4Address if net.version == 4 else ipaddress.IPv6Address
    if r < 0.6:
        return str(net)
    if r < 0.8:
        return f"{A(rng.randint(lo, hi))}/{net.prefixlen}"
    if r < 0.9 and net.version == 4:
        return f"{net.network_address}/{net.netmask}"
    return str(A(rng.randint(lo, hi)))


def addr_words(rng, nets, blanks_ok):
    """address-like words around the requested networks"""
    out = []
    for _ in range(rng.randint(1, 6)):
        net = rng.choice(nets) if nets and rng.random() < 0.85 else rand_net(rng, rng.choice([4, 6]))
        ver = net.version
        top = (1 << (32 if ver == 4 else 128)) - 1
        lo, hi = int(net.network_address), int(net.broadcast_address)
        n = rng.choice([lo, lo, hi, lo - 1, hi + 1, lo + 1, hi - 1, rng.randint(lo, hi), rng.randint(lo, hi), rng.randint(0, top)])
        n = max(0, min(top, n))
        a = v4(n) if ver == 4 else v6(n)
        if ver == 6 and rng.random() < 0.15:
            a = a.upper()
        if ver == 6 and rng.random() < 0.1 and n >> 32 == 0xFFFF:
            a = "::ffff:" + v4(n)
        maxlen = 32 if ver == 4 else 128
        r = rng.random()
        if r < 0.4:
            w = a
        elif r < 0.85:
            ln = rng.choice([net.prefixlen, net.prefixlen, net.prefixlen, max(0, net.prefixlen - 1), min(maxlen, net.prefixlen + 1), maxlen, maxlen - 1, 0,
                             rng.randint(0, maxlen)])
            w = f"{a}/{ln}"
        elif ver == 4:
            ln = rng.choice([net.prefixlen, 24, 30, 32, 8])
            mask = str(ipaddress.IPv4Network((0, ln)).netmask)
            if rng.random() < 0.3:
                mask = str(ipaddress.IPv4Network((0, ln)).hostmask)
            w = a + (rng.choice([" ", "  ", "\t"]) if blanks_ok and rng.random() < 0.6 else "/") + mask
        else:
            w = a
        out.append(w)
        if rng.random() < 0.35:
            # the same address again in another mask spelling (host vs network reading of one IP):
            # --unique keys and --exclude-hosts decisions must not leak from one spelling to the other
            for ln in rng.sample([None, maxlen, net.prefixlen, max(0, net.prefixlen - 1), min(maxlen, net.prefixlen + 2)], 2):
                out.append(a if ln is None else f"{a}/{ln}")
    return out


def ip_text(rng, nets, delim):
    blanks_ok = delim in (",", ";")
    sep = {None: [" ", " ", "  ", "\t"], r"\s+": [" ", " ", "\t"], ",": [",", ",", ", "], r"[,\s]+": [",", " ", ", ", " ,"], ";": [";", "; "]}[delim]
    lines = []
    pool = addr_words(rng, nets, blanks_ok)
    for _ in range(rng.choice([1, 1, 2, 3, 5, 8])):
        ws = []
        for _ in range(rng.choice([0, 1, 2, 3, 4, 7])):
            r = rng.random()
            if r < 0.55:
                ws.append(rng.choice(pool))
            elif r < 0.7:
                ws.append(rng.choice(PLAIN))
            elif r < 0.85:
                ws.append(rng.choice(BAD4 + BAD6))
            else:
                ws += addr_words(rng, nets, blanks_ok)[:1]
        line = ""
        for i, w in enumerate(ws):
            line += (rng.choice(sep) if i else "") + w
        if rng.random() < 0.1:
            line = rng.choice(sep) + line
        if rng.random() < 0.1:
            line += rng.choice(sep)
        lines.append(line)
    nl = rng.choice(["\n", "\n", "\n", "\r\n", "\r\n", "\r", "\x0b", "\x0c", "\x1c", "\x85", "\u2028"])   # str.splitlines boundaries
    text = nl.join(lines)
    if rng.random() < 0.08:
        text = text.replace(" ", rng.choice(["\u00a0", "\u2003", "\x1f"]), 1)                              # other \s characters
    if rng.random() < 0.7:
        text += "\n"
    return text


IP_FLAG_SETS = ["".join(m + c + n + h) for m in ("", "u", "l") for c in ("", "c") for n in ("", "n") for h in ("", "H")]


def gen_ipgrep(rng):
    mode = rng.random()
    if mode < 0.2:
        fam = rng.choice(["4", "6", "46"])
        nets = [ipaddress.ip_network("0.0.0.0/0")] * ("4" in fam) + [ipaddress.ip_network("::/0")] * ("6" in fam)
        extra = [rand_net(rng, rng.choice([4, 6])) for _ in range(2)]
        subnets, flags = None, fam
        nets_for_words = extra
    else:
        kind = rng.choice(["4", "4", "6", "mixed", "nested"])
        nets = []
        for _ in range(rng.choice([1, 1, 2, 3, 4])):
            ver = {"4": 4, "6": 6}.get(kind) or rng.choice([4, 6])
            if kind == "nested" and nets and rng.random() < 0.7:
                parent = rng.choice(nets)
                mx = 32 if parent.version == 4 else 128
                ln = min(mx, parent.prefixlen + rng.choice([0, 1, 4, 8]))
                A = int(parent.network_address) + rng.randrange(0, parent.num_addresses)
                nets.append(ipaddress.ip_network((A, ln), strict=False))
            else:
                nets.append(rand_net(rng, ver))
        items = [subnet_text(rng, n) for n in nets]
        if rng.random() < 0.15:
            items.append(rng.choice(items))
        subnets, flags = ",".join(items), ""
        nets_for_words = nets
    delim = rng.choice([None, None, r"\s+", ",", r"[,\s]+", ";"])
    fs = rng.choice(IP_FLAG_SETS)
    if "l" in fs and ("c" in fs or "n" in fs) and rng.random() < 0.85:
        fs = fs.replace("c", "").replace("n", "")      # --line refuses --show-cidr / --show-networks
    flags += fs
    text = ip_text(rng, nets_for_words, delim)
    return {"kind": "ipgrep", "text": text, "delim": delim, "subnets": subnets, "flags": flags}


IP_MALFORMED = [
    {"subnets": None, "flags": ""}, {"subnets": "10.0.0.0/8", "flags": "4"}, {"subnets": "", "flags": ""},
    {"subnets": "10.0.0.0/33", "flags": ""}, {"subnets": "10.0.0.0/8,foo", "flags": ""}, {"subnets": "10.0.0.0/8,", "flags": "u"},
    {"subnets": "10.0.0.0/8", "flags": "lc"}, {"subnets": "10.0.0.0/8", "flags": "ln"}, {"subnets": "::/0", "flags": "6"},
]


def mac_word(rng, v, nbytes):
    h = format(v, "0%dx" % (2 * nbytes))
    by = [h[i:i + 2] for i in range(0, len(h), 2)]
    w = rng.choice(["-".join(by), ":".join(by), ".".join(h[i:i + 4] for i in range(0, len(h), 4)), h])
    r = rng.random()
    if r < 0.25:
        w = w.upper()
    elif r < 0.35:
        w = "".join(c.upper() if rng.random() < 0.5 else c for c in w)
    return w


def mac_near_miss(rng, w):
    r = rng.random()
    if r < 0.2:
        return w[:-1]
    if r < 0.4:
        return w + rng.choice("0af")
    if r < 0.55:
        return w.replace("-", ":", 1) if "-" in w else w.replace(":", "-", 1) if ":" in w else w.replace(".", "-", 1) if "." in w else "g" + w[1:]
    if r < 0.7:
        i = rng.randrange(len(w))
        return w[:i] + "g" + w[i + 1:]
    if r < 0.85:
        return w + rng.choice([",", ".", ";"])
    return w.replace(".", "..", 1) if "." in w else w[:2] + w


def gen_macgrep(rng):
    vals = [(rng.choice([0xDEADBEEF0001, 0x0000000000FF, 0xFFFFFFFFFFFF, 0x001122334455, rng.getrandbits(48)]), 6) for _ in range(3)]
    vals += [(rng.choice([0xDEADBEEF00010001, 0x1, rng.getrandbits(64)]), 8) for _ in range(2)]
    delim = rng.choice([None, None, r"\s+", ",", r"[,\s]+"])
    sep = {None: [" ", "  ", "\t"], r"\s+": [" ", "\t"], ",": [","], r"[,\s]+": [",", " ", ", "]}[delim]
    lines = []
    for _ in range(rng.choice([1, 2, 3, 5])):
        ws = []
        for _ in range(rng.choice([0, 1, 2, 3, 5])):
            r = rng.random()
            v, nb = rng.choice(vals)
            if r < 0.55:
                ws.append(mac_word(rng, v, nb))
            elif r < 0.75:
                ws.append(mac_near_miss(rng, mac_word(rng, v, nb)))
            else:
                ws.append(rng.choice(PLAIN + ["10.0.0.1", "dead.beef", "aabb.ccdd.eeff.0011.2233", "deadbeef0001ff"]))
        lines.append(rng.choice(sep).join(ws))
    text = "\n".join(lines) + rng.choice(["", "\n"])
    v, nb = rng.choice(vals)
    sp = ref_spellings(nb, v)
    cands = [".", "^" + sp[0][:5], sp[1][3:8], sp[2][:9], sp[3][-4:] + "$", "^dead", "ff", "^(00|ff)", "beef.0001", "DE-AD", "00:01$", "[0-9]{4}\\.",
             "zz", "^.{17}$", "^.{23}$", sp[2].upper(), "^" + sp[3] + "$"]
    regex = ",".join(rng.choice(cands) for _ in range(rng.choice([1, 1, 2, 3])))
    if rng.random() < 0.15:
        regex = None
    return {"kind": "macgrep", "text": text, "delim": delim, "regex": regex, "flags": rng.choice(["", "", "u", "l"])}


IOS_TOPS = ["interface Ethernet1", "interface Ethernet2", "interface Ethernet10", "router bgp 65000", "router ospf 1", "hostname R1",
            "line vty 0 4", "policy-map PM", "ip route 10.0.0.0 255.0.0.0 Null0", "vlan 10"]
IOS_KIDS = [" ip address 10.0.0.1 255.255.255.0", " shutdown", " no shutdown", " description uplink", " address-family ipv4", " neighbor 10.0.0.2 remote-as 65001",
            " class CM", " transport input ssh", " network 10.0.0.0 0.0.0.255 area 0", " name USERS", " description  two  blanks"]
IOS_GRAND = ["  neighbor 10.0.0.2 activate", "  police 8000", "  shutdown", "  description deep", "  network 10.0.0.0"]


def gen_config(rng, junos=False):
    if junos:
        out = []
        for top in rng.sample(["interfaces", "protocols", "system", "routing-options"], rng.randint(1, 3)):
            out.append(top + " {")
            for _ in range(rng.randint(0, 3)):
                k = rng.choice(["ge-0/0/0", "ge-0/0/1", "ospf", "bgp", "host-name R1", "static"])
                if " " in k or rng.random() < 0.3:
                    out.append("    " + k + ";")
                else:
                    out.append("    " + k + " {")
                    for _ in range(rng.randint(0, 2)):
                        out.append("        " + rng.choice(["unit 0", "area 0", "description uplink", "disable"]) + ";")
                    out.append("    }")
            out.append("}")
        return "\n".join(out) + "\n"
    out = []
    for _ in range(rng.randint(1, 5)):
        out.append(rng.choice(IOS_TOPS))
        for _ in range(rng.choice([0, 1, 2, 3])):
            out.append(rng.choice(IOS_KIDS))
            for _ in range(rng.choice([0, 0, 1, 2])):
                out.append(rng.choice(IOS_GRAND))
        if rng.random() < 0.3:
            out.append(rng.choice(["!", "", "! comment"]))
    return "\n".join(out) + rng.choice(["\n", "", "\n\n"])


def _indent(ln):
    return len(ln) - len(ln.lstrip())


def _chains(config):
    """ancestor chains (outermost first) of every line, by indentation"""
    out, stack = [], []
    for ln in config.splitlines():
        if not ln.strip() or ln.strip() in "{}" or ln.lstrip().startswith("!"):
            continue
        while stack and _indent(stack[-1]) >= _indent(ln):
            stack.pop()
        stack.append(ln)
        out.append(list(stack))
    return out


def _term_of(rng, ln):
    ln = ln.strip().rstrip(";{ ").strip()
    ws = ln.split() or ["x"]
    r = rng.random()
    if r < 0.35:
        return ws[0]
    if r < 0.55:
        return "^\\s*" + re.escape(ws[0])
    if r < 0.7:
        return re.escape(ln).replace("\\ ", " ")
    if r < 0.8:
        return re.escape(ws[-1]) + "$"
    if r < 0.9:
        return " ".join(ws[:2])
    return rng.choice(["", "\\S", "."])


def gen_terms(rng, configs, n):
    chains = [c for cfg in configs for c in _chains(cfg)]
    lines = [c[-1] for c in chains] or ["x"]
    good = [c for c in chains if len(c) >= n]
    if good and rng.random() < 0.75:
        c = rng.choice(good)
        start = rng.randrange(len(c) - n + 1) if rng.random() < 0.2 else 0
        terms = [_term_of(rng, ln) for ln in c[start:start + n]]
    else:
        terms = [_term_of(rng, rng.choice(lines)) for _ in range(n)]
    if rng.random() < 0.12:
        terms[rng.randrange(n)] = rng.choice(["nomatch", "Ethernet\\d$", "shut", "^ ", "\\d+"])
    return terms


def gen_find(rng):
    syntax = rng.choice([None, "ios", "ios", "nxos", "iosxr", "asa", "junos", "junos"])
    nfiles = rng.choice([1, 1, 1, 2])
    configs = [gen_config(rng, junos=(syntax == "junos") and rng.random() < 0.9) for _ in range(nfiles)]
    cmd = rng.choice(["parent", "child", "branch", "branch"])
    n = rng.choice([1, 2, 2, 3]) if cmd != "branch" else rng.choice([1, 2, 2, 3, 3])
    delimiter = rng.choice([",", ",", ",", ";", "::"])
    terms = gen_terms(rng, configs, n)
    terms = [t.replace(delimiter, ".") if delimiter in t and rng.random() < 0.8 else t for t in terms]
    if terms[0].startswith("-"):
        terms[0] = "." + terms[0][1:]
    if cmd == "branch":
        output = rng.choice([None, "raw_text", "raw_text", "original", "original", "original"])
    else:
        output = rng.choice([None, None, "raw_text"])
    if rng.random() < 0.06:
        output = "json"
    return {"kind": "find", "cmd": cmd, "configs": configs, "terms": terms, "delimiter": delimiter, "syntax": syntax, "output": output,
            "all_children": cmd == "parent" and rng.random() < 0.3}


def gen_diff(rng):
    syntax = rng.choice([None, "ios", "nxos", "nxos", "iosxr", "iosxr", "asa", "junos"])
    base = gen_config(rng).splitlines()
    new = list(base)
    for _ in range(rng.randint(0, 3)):
        r = rng.random()
        if new and r < 0.4:
            del new[rng.randrange(len(new))]
        elif r < 0.8:
            new.insert(rng.randrange(len(new) + 1), rng.choice(IOS_TOPS + IOS_KIDS))
        elif new:
            i = rng.randrange(len(new))
            new[i] = new[i] + "0"
    old = list(base)
    if rng.random() < 0.6:
        old.insert(0, "hostname " + rng.choice(["A", "B"]))
        new.insert(0, "hostname " + rng.choice(["A", "B", "C"]))
    return {"kind": "diff", "old": "\n".join(old) + "\n", "new": "\n".join(new) + "\n",
            "method": rng.choice([None, "diff", "rollback", "rollback"]), "syntax": syntax}


def cases(rng, tier):
    n = {"quick": 1, "thorough": 60, "search": 2}[tier]
    if tier != "search":
        text = "h 10.0.0.1 10.0.0.1/24 x 10.0.0.0/24 10.0.0.255 10.0.1.0 999.1.1.1 10.0.0.1/33\n::1 fd01::5/64 fd01::/64 10.0.1.1 10.0.0.1\n"
        for fl in IP_FLAG_SETS:
            yield {"kind": "ipgrep", "text": text, "delim": None, "subnets": "10.0.0.0/24,10.0.0.0/8,fd01::/16", "flags": fl}
            yield {"kind": "ipgrep", "text": text, "delim": None, "subnets": None, "flags": "46" + fl}
        for m in IP_MALFORMED:
            yield {"kind": "ipgrep", "text": text, "delim": None, **m}
        yield {"kind": "diff", "old": "hostname A\n", "new": "hostname B\n", "method": "rollback", "syntax": "nxos"}
        yield {"kind": "diff", "old": "hostname A\n", "new": "hostname B\n", "method": None, "syntax": None}
        # where the text comes from / Namespace-level attributes
        for src in ("stdin", "tty"):
            yield {"kind": "ipgrep", "text": text, "delim": None, "subnets": "10.0.0.0/24,fd01::/16", "flags": "", "source": src}
            yield {"kind": "ipgrep", "text": text, "delim": None, "subnets": None, "flags": "", "source": src}
            yield {"kind": "macgrep", "text": "dead.beef.0001 x 00:11:22:33:44:55\n", "delim": None, "regex": None, "flags": "", "source": src}
        for fl in IP_FLAG_SETS:
            yield {"kind": "ipgrep", "text": text, "delim": None, "subnets": "10.0.0.0/24,10.0.0.0/8,fd01::/16", "flags": fl,
                   "ns": True, "xn": True}
        for nm in ("frobnicate", "", "Parent", "ipgrep2"):
            yield {"kind": "command", "name": nm}
        yield {"kind": "diff", "old": "hostname A\n", "new": "hostname B\n", "method": "undo", "syntax": "ios", "ns": True}
    for _ in range(700 * n):
        yield gen_ipgrep(rng)
    for i in range(110 * n):
        c = gen_ipgrep(rng)
        r = i % 11
        if r < 4:
            c["source"] = "stdin"
        elif r < 5:
            c["source"] = "tty"
        else:                      # a hand-made Namespace: exclude_networks on (mostly) or off, text from a file object or None
            c["ns"], c["xn"] = True, r < 10
            if rng.random() < 0.1:
                c["source"] = "tty"
        yield c
    for i in range(40 * n):
        c = gen_macgrep(rng)
        c["source"] = "stdin" if i % 4 else "tty"
        yield c
    for i in range(12 * n):
        c = gen_diff(rng)
        c["ns"] = True
        if i % 2:
            c["method"] = rng.choice(["undo", "", "Diff", "rollback ", "diff,rollback"])
        yield c
    for _ in range(4 * n):
        yield {"kind": "command", "name": rng.choice(["frobnicate", "grep", "IPGREP", "parents", "diff "])}
    for _ in range(300 * n):
        yield gen_macgrep(rng)
    for _ in range(260 * n):
        yield gen_find(rng)
    for _ in range(120 * n):
        yield gen_diff(rng)


def neighbours(case, rng):
    for _ in range(200):
        c = {k: v for k, v in case.items() if not k.startswith("_") and k != "req"}
        if c["kind"] == "ipgrep":
            r = rng.random()
            if r < 0.4:
                c["flags"] = "".join(ch for ch in c["flags"] if ch in "46") + rng.choice(IP_FLAG_SETS)
            elif r < 0.8 and c["text"]:
                ws = c["text"].split(" ")
                ws.insert(rng.randrange(len(ws) + 1), rng.choice(BAD4 + BAD6 + PLAIN))
                c["text"] = " ".join(ws)
            else:
                c["delim"] = rng.choice([None, ",", r"[,\s]+"])
        elif c["kind"] == "macgrep":
            c["flags"] = rng.choice(["", "u", "l"])
        elif c["kind"] == "find":
            c["syntax"] = rng.choice(SYNTAXES)
            c["cmd"] = rng.choice(["parent", "child", "branch"])
        elif c["kind"] == "command":
            c["name"] = rng.choice(["frobnicate", "x", "macgrep "])
        else:
            c["syntax"] = rng.choice(SYNTAXES)
            c["method"] = rng.choice(["diff", "rollback"])
        yield c


def _lines(ans):
    return wire.dec_strs(ans[3:]) if ans.startswith("ok|") else None


def nontrivial(case):
    k = case["kind"]
    if k == "ipgrep":
        return bool(re.search(r"\d", case["text"])) and case["subnets"] != ""
    if k == "macgrep":
        return len(case["text"]) > 12
    if k == "find":
        return len(case["terms"]) >= 1 and any(c.strip() for c in case["configs"])
    if k == "command":
        return False
    return case["old"] != case["new"]


def describe(case):
    return {k: v for k, v in case.items() if not k.startswith("_") and k != "req"}


def buckets(case, ans):
    k = case["kind"]
    out = ["kind:" + k, "answer:" + ("ok" if ans.startswith("ok|") else ans)]
    got = _lines(ans)
    if got is not None:
        out.append(f"{k}:printed:" + ("0" if not got else "1-3" if len(got) <= 3 else "4+"))
    if k in ("ipgrep", "macgrep"):
        out.append(f"{k}:source:" + case.get("source", "file") + ("/namespace" if case.get("ns") else ""))
    if case.get("xn"):
        out.append("ipgrep:exclude_networks")
    if k == "command":
        return out
    if k == "diff" and case.get("ns"):
        out.append("diff:namespace")
    if k == "ipgrep":
        out.append("ipgrep:flags:" + (case["flags"] or "-"))
        out.append("ipgrep:delim:" + str(case["delim"]))
        out.append("ipgrep:subnets:" + ("none" if case["subnets"] is None else str(min(4, case["subnets"].count(",") + 1))))
    elif k == "macgrep":
        out.append("macgrep:flags:" + (case["flags"] or "-"))
    elif k == "find":
        out.append(f"find:{case['cmd']}:{case['output']}:{len(case['terms'])}terms")
        out.append("find:syntax:" + str(case["syntax"]))
    else:
        out.append(f"diff:{case['method']}:{case['syntax']}")
    return out
