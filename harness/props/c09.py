"""C09 — all input forms are equivalent and file save/load is the identity."""
import builtins
import io
import itertools
import os
import re
import shutil
import sys
import tempfile

import wire
from props import treelib as T
from props.common import quiet_ccp

ID = "C09"
LEAN_MODULES = ["Ccp.Props.C09"]
RULE = ("bundle cases: one base config (random line list of 0..14 lines from the tree generators: commands, comments, blank and "
        "whitespace-only lines incl. interior and trailing blank lines, banner/macro blocks, Latin-1 and non-Latin-1 letters) is "
        "supplied in every input form: list, tuple, str joined with LF or CRLF with and without a final line end, None for the "
        "empty config, and real files given by their relative name as a str or as a pathlib.Path (Path names incl. ./p.cfg and .//p.cfg, whose str() differs from the text given) (scratch directory made with tempfile, the process chdir()s into it, the "
        "relative file name is the constructor argument, the directory is removed at the end of the case) whose bytes are the "
        "lines joined with LF, CRLF, bare CR or a per-line random mix, with/without final line end, encoded as utf-8 or latin-1 "
        "(encoding= set accordingly; for latin-1 the base lines are restricted to code points < 256); file names include "
        "blanks, a non-ASCII letter, U+001F, a trailing newline (single-line strings: taken for paths) and an embedded VT "
        "(two 'lines': taken for a config); every successfully loaded form is followed by 1..5 save_as/load cycles recording "
        "the bytes written and get_text() after each load; x syntax in ios/nxos/iosxr/asa x ignore_blank_lines x os.linesep "
        "(LF measured natively; CRLF simulated by giving the module an open() that adds newline='\\r\\n' to text-mode writes, which "
        "is what Windows' default does). unclean stream: list/tuple items containing CR, LF, VT, FF, FS, GS, RS, NEL, LS, PS. "
        "raw stream: random and exhaustive (alphabet a,LF,CR,VT; all texts up to length 5 quick / 6 thorough) texts as str form "
        "and as file content. malformed stream: '', single-line strings that name no file, a str ending in a line break, "
        "missing file given as str and as pathlib.Path. split cases: str.splitlines, re.split(<default linesplit_rgx of read_config_file>) and newline=None "
        "translation (io.StringIO) on the same texts, compared with the model's primitives. Directories, unreadable files, "
        "undecodable bytes, non-str list items, lone surrogates, factory=True and syntax='junos' are not generated. "
        "non-trivial = a bundle with >= 2 lines or a raw text containing a line break; distinct by request line.")
LEVEL_TEXT = ("Theorems (Lean 4, all line lists / all texts / any number of cycles): for break-free lines (>= 2, last one not empty) "
              "list, tuple and the str joined with LF or CRLF, with or without a final line end, are read as the same lines and give "
              "the same tree; a pathlib.Path is read exactly like str(path); a str with exactly one line is treated as a path "
              "(FileNotFoundError if nothing is there), '' is rejected; a path yields universal-newline translation followed by the \\r*\\n split, which is the unique LF-free "
              "splitting of the translated text (trailing empty element kept); from the first save on, any number of load/save "
              "cycles writes the same text and reads the same lines, for every tree configuration incl. ignore_blank_lines and "
              "os.linesep LF or CRLF. The reader/writer constants of /repo are regenerated and proved equal to the modelled ones. "
              "Model tied to CiscoConfParse by differential runs with real temp files on every check.")
LEVEL_NOTE = ("Trusted: Lean kernel, axioms propext/Classical.choice/Quot.sound, the harness. Modelled not verified: text-mode open() "
              "(universal newlines on read, '\\n' -> os.linesep on write) as pure functions on decoded text; encodings are outside the "
              "model (the harness covers utf-8 and latin-1 content); the file system is a function parameter; a pathlib.Path enters the "
              "model as its str() (path normalisation by pathlib is outside the model). F91 (Path input raised TypeError) is fixed in "
              "/repo (373e51f); a recurrence is reported as a VIOLATION.")
EXHAUSTIVE = {"quick": False, "thorough": False}
ASSUMPTIONS = [
    "a file is its decoded text; decoding errors (UnicodeDecodeError) are outside the model",
    "fs p = none means os.path.exists(p) is false; directories / permission errors are not modelled",
    "os.linesep is LF (measured) or CRLF (simulated through newline='\\r\\n')",
    "no lone surrogates",
]
TRUSTED = ["model of text-mode open(): universalNewlines / writeNewlines", "tree model Ccp.Tree.parse (shared with C01-C03)"]

BREAKS = ["\n", "\x0b", "\x0c", "\r", "\x1c", "\x1d", "\x1e", "\x85", " ", " "]
FNAMES = ["c.cfg", "c.cfg", "c.cfg", "my config.txt", "é.cfg", "a\x1fb", "cfg\n", "cfg\r\n", "a\x0bb.cfg", "c\x85"]


# names whose Path renders differently from the text given: './p.cfg' -> 'p.cfg'
PATH_NAMES = ["p.cfg", "./p.cfg", ".//p.cfg"]


def _has_break(s):
    return any(b in s for b in BREAKS)


def selfcheck():
    for c in BREAKS:
        assert len(("a" + c + "b").splitlines()) == 2
    assert len("a\x1fb".splitlines()) == 1


# ------------------------------------------------------------------ case construction
def _req(case):
    if case["kind"] == "split":
        return wire.req("input", "split", wire.enc_str(case["text"]))
    ds = T.cfg_delims(case["syntax"], None)
    fields = ["input", "1" if case["syntax"] == "ios" else "0", wire.enc_str("".join(ds)),
              "1" if case["ignore_blank"] else "0", wire.enc_str(case["linesep"]), str(case["cycles"])]
    for f in case["forms"]:
        kind = f["form"]
        if kind in ("list", "tuple"):
            fields += [kind, wire.enc_strs(f["lines"]), "s", "-"]
        elif kind == "none":
            fields += ["none", "s", "s", "-"]
        elif kind == "str":
            fields += ["str", wire.enc_str(f["text"]), "s", "-"]
        elif kind == "file":
            fields += ["str", wire.enc_str(f["name"]), wire.enc_str(f["name"]), wire.enc_str(f["content"])]
        elif kind == "pathlib":
            fields += ["path", wire.enc_str(path_text(f["name"])), wire.enc_str(path_text(f["name"])), wire.enc_str(f["content"])]
        elif kind == "pathlib_missing":
            fields += ["path", wire.enc_str(path_text(f["name"])), "s", "-"]
        elif kind == "missing":
            fields += ["str", wire.enc_str(f["name"]), "s", "-"]
        else:
            raise AssertionError(kind)
    return "\t".join(fields)


def path_text(name):
    """`str(pathlib.Path(name))`: what read_config() turns a Path into ('./x' -> 'x', '' -> '.')"""
    import pathlib
    return str(pathlib.PurePosixPath(name))


def mk_bundle(syntax, ign, linesep, cycles, forms, base=None, origin="gen", tag="bundle"):
    case = {"kind": "bundle", "tag": tag, "syntax": syntax, "ignore_blank": bool(ign), "linesep": linesep,
            "cycles": int(cycles), "forms": forms, "base": base, "_origin": origin}
    case["req"] = _req(case)
    return case


def mk_split(text, origin="gen"):
    case = {"kind": "split", "text": text, "_origin": origin}
    case["req"] = _req(case)
    return case


def from_corpus(c):
    if c["kind"] == "split":
        return mk_split(c["text"], "corpus")
    return mk_bundle(c["syntax"], c["ignore_blank"], c["linesep"], c["cycles"], c["forms"], c.get("base"), "corpus",
                     c.get("tag", "bundle"))


def _latin1(s):
    return "".join(c if ord(c) < 256 else "¤" for c in s)


def file_form(name, content, encoding, form="file"):
    return {"form": form, "name": name, "content": content, "encoding": encoding}


def bundle_from_lines(rng, ls, syntax, ign, linesep, cycles, tag="bundle"):
    forms = [{"form": "list", "lines": ls}, {"form": "tuple", "lines": ls}]
    if not ls:
        forms.append({"form": "none"})
    for sep in ("\n", "\r\n"):
        for end in ("", sep):
            forms.append({"form": "str", "text": sep.join(ls) + end})
    lat = [_latin1(l) for l in ls]
    if lat != ls:
        forms.append({"form": "list", "lines": lat})
    variants = [("\n", ""), ("\n", "\n"), ("\r\n", "\r\n"), ("\r", "\r"), ("\r\n", ""), ("mix", "mix")]
    rng.shuffle(variants)
    for sep, end in variants[: rng.choice([2, 3, 6])]:
        enc = rng.choice(["utf-8", "latin-1"])
        src = lat if enc == "latin-1" else ls
        if sep == "mix":
            seps = [rng.choice(["\n", "\r\n", "\r", "\r\r\n"]) for _ in src]
            if seps and rng.random() < 0.5:
                seps[-1] = ""
            content = "".join(l + e for l, e in zip(src, seps))
        else:
            content = sep.join(src) + end
        forms.append(file_form(rng.choice(FNAMES), content, enc))
    if rng.random() < 0.4:
        enc = rng.choice(["utf-8", "latin-1"])
        src = lat if enc == "latin-1" else ls
        sep = rng.choice(["\n", "\r\n", "\r"])
        forms.append(file_form(rng.choice(FNAMES + PATH_NAMES), sep.join(src) + rng.choice(["", sep]), enc, form="pathlib"))
    return mk_bundle(syntax, ign, linesep, cycles, forms, base=ls, tag=tag)


def _rand_raw(rng, n):
    alpha = ["a", "b", " ", "é", "€", "\x1f", "\t"] + BREAKS + ["\n", "\n", "\r\n", "\r"]
    return "".join(rng.choice(alpha) for _ in range(n))


def raw_bundle(rng, text, syntax, ign, linesep, cycles):
    forms = [{"form": "str", "text": text}, file_form("c.cfg", text, "utf-8")]
    if all(ord(c) < 256 for c in text):
        forms.append(file_form("c.cfg", text, "latin-1"))
    return mk_bundle(syntax, ign, linesep, cycles, forms, base=None, tag="raw")


MALFORMED_STR = ["", "hostname R1", "hostname R1\n", "a\r\n", "\n", "\r", "\x0b", "no such file.cfg", " ", "a\x1fb", "\x00",
                 "x" * 300, "interface Ethernet1\x0c"]


def cases(rng, tier):
    selfcheck()
    T.selfcheck()
    nb = {"quick": 260, "thorough": 9000, "search": 700}[tier]
    nr = {"quick": 120, "thorough": 4000, "search": 300}[tier]
    ns = {"quick": 600, "thorough": 20000, "search": 300}[tier]
    exh = {"quick": 5, "thorough": 6, "search": 0}[tier]

    def knobs():
        return (rng.choice(T.SYNTAXES), rng.random() < 0.35, rng.choice(["\n", "\n", "\r\n"]), rng.choice([1, 2, 3, 5]))

    if tier != "search":
        # hand-picked shapes of the property text
        for ls in ([], [""], ["", ""], ["a"], ["a", ""], ["a", "b"], ["a", "", "b"], ["a", "b", "", ""], ["a", " b", "", " c"],
                   [" "], ["banner motd ^", "", "x"], ["banner motd ^", "", "x", "^"], ["macro name m", "", "@", ""],
                   ["interface Ethernet1", " ip address 1.1.1.1 255.0.0.0", "!", "end"]):
            for ign in (False, True):
                for linesep in ("\n", "\r\n"):
                    yield bundle_from_lines(rng, list(ls), "ios", ign, linesep, 5, tag="shape")
        for s in MALFORMED_STR:
            yield mk_bundle("ios", False, "\n", 1, [{"form": "str", "text": s}], tag="malformed")
        yield mk_bundle("ios", False, "\n", 1, [{"form": "missing", "name": "nothing here.cfg"}], tag="malformed")
        for nm in ("nothing here.cfg", "./gone.cfg", "no\x1fsuch", "gone\n"):
            yield mk_bundle("ios", False, "\n", 1, [{"form": "pathlib_missing", "name": nm}], tag="malformed")
        for name, lines in T.fixture_configs()[: (3 if tier == "quick" else 40)]:
            if all(not _has_break(l) for l in lines):
                yield bundle_from_lines(rng, lines, "ios", False, "\n", 2, tag="fixture")
        for n in range(exh + 1):
            for tup in itertools.product("a\n\r\x0b", repeat=n):
                text = "".join(tup)
                yield mk_split(text)
                if n <= 4 or tier == "thorough" and n <= 5:
                    yield raw_bundle(rng, text, "ios", False, "\n", 2)
    for i in range(nb):
        syntax, ign, linesep, cycles = knobs()
        ls = T.rand_config(rng, 12, True, None)
        r = rng.random()
        if r < 0.25:
            ls = ls + [""] * rng.choice([1, 1, 2, 3])           # trailing blank lines
        elif r < 0.35 and ls:
            ls.insert(rng.randrange(len(ls)), "")               # interior blank line
        tag = "bundle"
        if rng.random() < 0.12 and ls:                          # unclean stream
            k = rng.randrange(len(ls))
            pos = rng.randrange(len(ls[k]) + 1)
            ls[k] = ls[k][:pos] + rng.choice(BREAKS + ["\r\n"]) + ls[k][pos:]
            tag = "unclean"
        yield bundle_from_lines(rng, ls, syntax, ign, linesep, cycles, tag=tag)
    for i in range(nr):
        syntax, ign, linesep, cycles = knobs()
        yield raw_bundle(rng, _rand_raw(rng, rng.choice([0, 1, 2, 3, 5, 8, 13, 30])), syntax, ign, linesep, cycles)
    for i in range(ns):
        yield mk_split(_rand_raw(rng, rng.choice([0, 1, 2, 3, 4, 6, 9, 20])))
    for i in range(max(10, nb // 20)):
        s = rng.choice(MALFORMED_STR) if rng.random() < 0.5 else _rand_raw(rng, rng.choice([1, 2, 4])).replace("\n", "x")
        yield mk_bundle(rng.choice(T.SYNTAXES), False, "\n", 1, [{"form": "str", "text": s}], tag="malformed")


def neighbours(case, rng):
    if case["kind"] == "split":
        for _ in range(200):
            s = list(case["text"])
            if s and rng.random() < 0.5:
                del s[rng.randrange(len(s))]
            else:
                s.insert(rng.randrange(len(s) + 1), rng.choice(["a", "\n", "\r", "\x0b"]))
            yield mk_split("".join(s))
        return
    base = case.get("base")
    for _ in range(150):
        if base is not None:
            ls = list(base)
            if ls and rng.random() < 0.5:
                del ls[rng.randrange(len(ls))]
            else:
                ls.insert(rng.randrange(len(ls) + 1), rng.choice(["", " ", "x", " y"]))
            yield bundle_from_lines(rng, ls, case["syntax"], case["ignore_blank"], case["linesep"], case["cycles"])
        else:
            yield raw_bundle(rng, _rand_raw(rng, rng.choice([1, 2, 3, 5])), case["syntax"], case["ignore_blank"],
                             case["linesep"], case["cycles"])


def nontrivial(case):
    if case["kind"] == "split":
        return _has_break(case["text"])
    if case.get("base") is not None:
        return len(case["base"]) >= 2
    return any(_has_break(f.get("text", "")) for f in case["forms"])


def describe(case):
    if case["kind"] == "split":
        return {"kind": "split", "text": case["text"]}
    d = {k: case[k] for k in ("kind", "tag", "syntax", "ignore_blank", "linesep", "cycles")}
    if sum(len(str(f)) for f in case["forms"]) < 3000:
        d["forms"] = case["forms"]
    else:
        d["n_forms"] = len(case["forms"])
        d["n_lines"] = len(case["base"] or [])
        d["origin"] = case.get("_origin")
    return d


def buckets(case, ans):
    if case["kind"] == "split":
        return ["kind:split", "split-len:%d" % min(10, len(case["text"]))]
    out = ["kind:" + case["tag"], "syntax:" + case["syntax"], "ignore_blank:%d" % case["ignore_blank"],
           "linesep:" + ("LF" if case["linesep"] == "\n" else "CRLF"), "cycles:%d" % case["cycles"]]
    for f, a in zip(case["forms"], ans.split("#")):
        out.append("form:" + f["form"])
        if f["form"] in ("file", "pathlib"):
            out.append("encoding:" + f["encoding"])
            c = f["content"]
            out.append("file-ends:" + ("CRLF" if c.endswith("\r\n") else "LF" if c.endswith("\n") else "CR" if c.endswith("\r")
                                       else "none"))
            if "\r" in c:
                out.append("file-has:CR")
            if f["name"] != "c.cfg":
                out.append("odd-file-name")
        out.append("answer:" + (a if a.startswith("err:") else "ok"))
    if case.get("base") is not None:
        b = case["base"]
        out.append("base-lines:%d" % min(15, len(b)))
        if b and b[-1].strip() == "":
            out.append("base:trailing-blank")
        if any(l.strip() == "" for l in b[:-1]):
            out.append("base:interior-blank")
    return out


# ------------------------------------------------------------------ implementation
class _Linesep:
    """`os.linesep == "\\r\\n"` cannot be set on this platform: the C TextIOWrapper fixes the
    translation at build time.  Give the module under test an `open` that asks for the same
    translation explicitly whenever it opens a file for writing in text mode."""

    def __init__(self, mod, linesep):
        self.mod, self.linesep = mod, linesep

    def __enter__(self):
        if self.linesep != "\n":
            sep = self.linesep

            def _open(file, mode="r", *a, **kw):
                if "w" in mode and "b" not in mode and "newline" not in kw:
                    kw["newline"] = sep
                return builtins.open(file, mode, *a, **kw)
            self.mod.open = _open

    def __exit__(self, *exc):
        if "open" in self.mod.__dict__:
            del self.mod.__dict__["open"]


def _dump_cycles(CiscoConfParse, first, kw, encoding, n):
    out = [T.dump_all(first)]
    cur = first
    for i in range(n):
        target = "out%d.cfg" % i
        cur.save_as(target)
        data = open(target, "rb").read()
        written = data.decode(encoding)
        assert written.encode(encoding) == data
        cur = CiscoConfParse(target, encoding=encoding, **kw)
        out.append(wire.enc_str(written) + "~" + wire.enc_strs(cur.get_text()))
    return "&".join(out)


def impl(case):
    quiet_ccp()
    if case["kind"] == "split":
        import inspect
        from ciscoconfparse2 import CiscoConfParse
        rgx = inspect.signature(CiscoConfParse.read_config_file).parameters["linesplit_rgx"].default
        t = case["text"]
        return "|".join([wire.enc_strs(t.splitlines()), wire.enc_strs(re.split(rgx, t)),
                         wire.enc_str(io.StringIO(t, newline=None).read())])
    import pathlib
    import ciscoconfparse2.ciscoconfparse2 as mod
    from ciscoconfparse2 import CiscoConfParse
    kw = dict(syntax=case["syntax"], factory=False, ignore_blank_lines=case["ignore_blank"])
    answers = []
    cwd = os.getcwd()
    for f in case["forms"]:
        scratch = tempfile.mkdtemp(prefix="ccp2-c09-")
        assert not scratch.startswith(("/repo", "/verif"))
        try:
            os.chdir(scratch)
            kind = f["form"]
            enc = f.get("encoding", "utf-8")
            if kind in ("file", "pathlib"):
                with open(f["name"], "wb") as fh:
                    fh.write(f["content"].encode(enc))
            arg = {"list": lambda: list(f["lines"]), "tuple": lambda: tuple(f["lines"]), "none": lambda: None,
                   "str": lambda: f["text"], "file": lambda: f["name"], "missing": lambda: f["name"],
                   "pathlib": lambda: pathlib.Path(f["name"]), "pathlib_missing": lambda: pathlib.Path(f["name"])}[kind]()
            with _Linesep(mod, case["linesep"]):
                try:
                    first = CiscoConfParse(arg, encoding=enc, **kw)
                except Exception as e:  # noqa: BLE001
                    answers.append("err:" + type(e).__name__)
                    continue
                answers.append(_dump_cycles(CiscoConfParse, first, kw, enc, case["cycles"]))
        finally:
            os.chdir(cwd)
            shutil.rmtree(scratch, ignore_errors=True)
    return "#".join(answers)


# ------------------------------------------------------------------ oracle (independent of the Lean model)
def ref_file_lines(content):
    """the file's text split at its line ends (LF, CRLF, CR), written without the library and without `re`"""
    lines, cur, i = [], [], 0
    while i < len(content):
        c = content[i]
        if c == "\r" or c == "\n":
            if c == "\r" and content[i + 1: i + 2] == "\n":
                i += 1
            lines.append("".join(cur))
            cur = []
        else:
            cur.append(c)
        i += 1
    lines.append("".join(cur))
    return lines


def ref_str_lines(text):
    """lines of a multi-line string: break at the 10 boundaries, CRLF once, a final line end adds nothing"""
    lines, cur, i = [], [], 0
    while i < len(text):
        c = text[i]
        if c in BREAKS:
            if c == "\r" and text[i + 1: i + 2] == "\n":
                i += 1
            lines.append("".join(cur))
            cur = []
        else:
            cur.append(c)
        i += 1
    if cur:
        lines.append("".join(cur))
    return lines


def _parse_form_answer(a):
    parts = a.split("&")
    texts_w = parts[0].split("|")[0]
    cyc = []
    for p in parts[1:]:
        w, _, t = p.partition("~")
        cyc.append((wire.dec_str(w), wire.dec_strs(t)))
    return parts[0], wire.dec_strs(texts_w), cyc


def oracle(case, ans):
    if case["kind"] == "split":
        return []          # primitives: correspondence only
    fails = []
    ios = case["syntax"] == "ios"
    ign = case["ignore_blank"]
    answers = ans.split("#")
    if len(answers) != len(case["forms"]):
        return ["answer count differs from the number of forms"]
    dump_of_lines = {}
    for f, a in zip(case["forms"], answers):
        if f["form"] in ("list", "tuple") and not a.startswith("err:"):
            dump_of_lines.setdefault(tuple(f["lines"]), a.split("&")[0])
    for f, a in zip(case["forms"], answers):
        kind = f["form"]
        what = kind + (":" + repr(f.get("text", f.get("name")))[:40] if kind != "list" and kind != "tuple" else "")
        # ---------------- which lines must have been read
        if kind in ("list", "tuple"):
            want = list(f["lines"])
        elif kind == "none":
            want = []
        elif kind == "str":
            sl = ref_str_lines(f["text"])
            if len(sl) == 0:
                want = "err"              # nothing to read: any rejection is fine, a parse is not
            elif len(sl) == 1:
                want = "err:FileNotFoundError"   # a one-line string names a file; none of that name exists
            else:
                want = sl
        elif kind in ("file", "pathlib"):
            name = f["name"] if kind == "file" else path_text(f["name"])      # a Path is read like str(path)
            want = ref_file_lines(f["content"]) if len(ref_str_lines(name)) == 1 else ref_str_lines(name)
        elif kind == "missing":
            want = "err:FileNotFoundError"
        elif kind == "pathlib_missing":
            want = "err:FileNotFoundError"
        if isinstance(want, str):
            if not a.startswith(want):
                fails.append(f"{what}: expected {want}, got {a[:60]}")
            continue
        if a.startswith("err:"):
            fails.append(f"{what}: raised {a} (input form {kind})")
            continue
        dump, texts, cyc = _parse_form_answer(a)
        kept = T.ref_kept(want, ios, ign)
        if texts != kept:
            fails.append(f"{what}: line texts {texts[:8]!r} differ from the expected {kept[:8]!r}")
            continue
        # ---------------- the same lines in another form give the same tree
        ref = dump_of_lines.get(tuple(want))
        if ref is not None and ref != dump:
            fails.append(f"{what}: tree differs from the tree of the same lines given as a list")
        # ---------------- save/load stability
        if len(cyc) != case["cycles"]:
            fails.append(f"{what}: {len(cyc)} cycles recorded, {case['cycles']} requested")
            continue
        clean = all("\r" not in l and "\n" not in l for l in texts)
        start = 0 if clean else 1
        for i in range(start + 1, len(cyc)):
            if cyc[i][0] != cyc[start][0]:
                fails.append(f"{what}: bytes written by save {i + 1} differ from save {start + 1}: "
                             f"{cyc[i][0][-20:]!r} vs {cyc[start][0][-20:]!r} (lengths {len(cyc[i][0])}, {len(cyc[start][0])})")
                break
            if cyc[i][1] != cyc[start][1]:
                fails.append(f"{what}: lines read after save {i + 1} differ from those after save {start + 1}")
                break
        if clean and cyc:
            w0 = cyc[0][0]
            back = ref_file_lines(w0)
            if back not in (texts, texts + [""]) and not (texts == [] and back == ["", ""]):
                fails.append(f"{what}: the first save does not hold the lines of the object: {back[:6]!r} vs {texts[:6]!r}")
            if not w0.endswith(case["linesep"]):
                fails.append(f"{what}: saved file does not end with a line end")
            if case["linesep"] == "\r\n" and re.search(r"(?<!\r)\n|\r(?!\n)", w0):
                fails.append(f"{what}: saved file mixes line ends")
            if not ign and cyc[0][1] not in (texts, texts + [""]) and not (texts == [] and cyc[0][1] == ["", ""]):
                fails.append(f"{what}: lines read back after the first save {cyc[0][1][:6]!r} vs {texts[:6]!r}")
    # ---------------- the forms of one clean base config agree with each other
    base = case.get("base")
    if base is not None and len(base) >= 2 and base[-1] != "" and all(not _has_break(l) for l in base):
        dumps = {}
        for f, a in zip(case["forms"], answers):
            if f["form"] in ("tuple", "str") or (f["form"] == "list" and f["lines"] == base):
                dumps[f["form"] + repr(f.get("text", ""))[:30]] = a.split("&")[0]
        if len(set(dumps.values())) > 1:
            fails.append("list / tuple / multi-line string forms of one config disagree: " + ", ".join(sorted(dumps)))
    return fails[:4]
