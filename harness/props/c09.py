"""C09 — all input forms are equivalent and file save/load is the identity."""
import builtins
import io
import itertools
import os
import re
import shutil
import sys
import tempfile

import wire
from props import treelib as T
from props.common import quiet_ccp

ID = "C09"
LEAN_MODULES = ["Ccp.Props.C09"]
# bound of the escalated quick run (source fingerprint changed -> thorough generator): keeps that run near two minutes
ESCALATE_MAX_CASES = 12000
RULE = ("bundle cases: one base config (random line list of 0..14 lines from the tree generators: commands, comments, blank and "
        "whitespace-only lines incl. interior and trailing blank lines, banner/macro blocks, Latin-1 and non-Latin-1 letters) is "
        "supplied in every input form: list, tuple, str joined with LF or CRLF with and without a final line end, None for the "
        "empty config, and real files given by their relative name as a str or as a pathlib.Path (Path names incl. ./p.cfg and .//p.cfg, whose str() differs from the text given) (scratch directory made with tempfile, the process chdir()s into it, the "
        "relative file name is the constructor argument, the directory is removed at the end of the case) whose bytes are the "
        "lines joined with LF, CRLF, bare CR or a per-line random mix, with/without final line end, encoded as utf-8 or latin-1 "
        "(encoding= set accordingly; for latin-1 the base lines are restricted to code points < 256); file names include "
        "blanks, a non-ASCII letter, U+001F, a trailing newline (single-line strings: taken for paths) and an embedded VT "
        "(two 'lines': taken for a config); every successfully loaded form is followed by 1..5 save_as/load cycles recording "
        "the bytes written and get_text() after each load; x syntax in ios/nxos/iosxr/asa x ignore_blank_lines x os.linesep "
        "(LF measured natively; CRLF simulated by giving the module an open() that adds newline='\\r\\n' to text-mode writes, which "
        "is what Windows' default does). unclean stream: list/tuple items containing CR, LF, VT, FF, FS, GS, RS, NEL, LS, PS. "
        "raw stream: random and exhaustive (alphabet a,LF,CR,VT; all texts up to length 5 quick / 6 thorough) texts as str form "
        "and as file content. malformed stream: '', single-line strings that name no file, a str ending in a line break, "
        "missing file given as str and as pathlib.Path. split cases: str.splitlines, re.split(<default linesplit_rgx of read_config_file>) and newline=None "
        "translation (io.StringIO) on the same texts, compared with the model's primitives. "
        "rejection stream (channel inputx, model Ccp.Model.InputArgs): the config argument as a collection given item by item - class "
        "list / tuple / another Sequence (deque, UserList, bytes, bytearray, range, ConfigList) / sized non-sequence (set, frozenset, "
        "dict) x items str / BaseCfgLine object / foreign type (int, None, bytes, list, float), empty ones included; objects with "
        "len() whose iteration raises TypeError or AttributeError (len 0 and > 0); objects without len() (int, float, bool, generator, "
        "iterator, object()); a one-line str / pathlib.Path naming a directory (incl. '.', './sub', 'sub/'); a file whose bytes the "
        "codec rejects (utf-8, ascii); a regular file whose read() raises OSError (/proc/self/mem, str and Path); the oracle demands "
        "a rejection for everything but a list / tuple of str, the exception class is compared with the model. after stream: on an "
        "object built from a clean line list (utf-8 / latin-1, with and without characters the codec cannot encode) a sequence of "
        "save_as to a writable name / an existing directory / a name under a missing directory, and read_config_file on the finished "
        "object (RequirementFailure); bytes written resp. exception class compared, the oracle demands an exception for a bad target "
        "or unencodable text and the saved lines otherwise. "
        "Lone surrogates, factory=True and syntax='junos' are not generated. "
        "non-trivial = a bundle with >= 2 lines or a raw text containing a line break; distinct by request line.")
LEVEL_TEXT = ("Theorems (Lean 4, all line lists / all texts / any number of cycles): for break-free lines (>= 2, last one not empty) "
              "list, tuple and the str joined with LF or CRLF, with or without a final line end, are read as the same lines and give "
              "the same tree; a pathlib.Path is read exactly like str(path); a str with exactly one line is treated as a path "
              "(FileNotFoundError if nothing is there), '' is rejected; a path yields universal-newline translation followed by the \\r*\\n split, which is the unique LF-free "
              "splitting of the translated text (trailing empty element kept); from the first save on, any number of load/save "
              "cycles writes the same text and reads the same lines, for every tree configuration incl. ignore_blank_lines and "
              "os.linesep LF or CRLF. The reader/writer constants of /repo are regenerated and proved equal to the modelled ones. "
              "Rejection side (any Python object as config; directories, unreadable and undecodable files at a path): the extended reader "
              "agrees with the old one on the five forms over plain files (loadArg_conservative); a collection is loaded only if it is a "
              "list / tuple whose items are all str, and then as exactly these lines (only_str_lists_load, str_items_are_the_list), with "
              "the exception classes of the rejections (rejection_classes, bad_path_nodes_rejected); save_as raises for a target that "
              "cannot be opened or text the codec cannot encode and otherwise writes exactly the modelled text (save_failures). "
              "Model tied to CiscoConfParse by differential runs with real temp files on every check.")
LEVEL_NOTE = ("Trusted: Lean kernel, axioms propext/Classical.choice/Quot.sound, the harness. Modelled not verified: text-mode open() "
              "(universal newlines on read, '\\n' -> os.linesep on write) as pure functions on decoded text; encodings are outside the "
              "model (the harness covers utf-8 and latin-1 content); the file system is a function parameter; a pathlib.Path enters the "
              "model as its str() (path normalisation by pathlib is outside the model). F91 (Path input raised TypeError) is fixed in "
              "/repo (373e51f); a recurrence is reported as a VIOLATION.")
EXHAUSTIVE = {"quick": False, "thorough": False}
ASSUMPTIONS = [
    "a file is its decoded text; decoding errors (UnicodeDecodeError) are outside the model",
    "fs p = none means os.path.exists(p) is false; in the extended model (Ccp.Model.InputArgs) a path may also hold a directory, "
    "an unreadable or an undecodable regular file; which bytes a codec rejects is decided by Python, not by the model",
    "Python objects other than None / list / tuple / str / Path enter the model by four observations: has len(), iterable, "
    "class kind (list, tuple, other Sequence, not a Sequence), and per item str / BaseCfgLine / other",
    "os.linesep is LF (measured) or CRLF (simulated through newline='\\r\\n')",
    "no lone surrogates",
]
TRUSTED = ["model of text-mode open(): universalNewlines / writeNewlines", "tree model Ccp.Tree.parse (shared with C01-C03)"]

BREAKS = ["\n", "\x0b", "\x0c", "\r", "\x1c", "\x1d", "\x1e", "\x85", " ", " "]
FNAMES = ["c.cfg", "c.cfg", "c.cfg", "my config.txt", "é.cfg", "a\x1fb", "cfg\n", "cfg\r\n", "a\x0bb.cfg", "c\x85"]


# names whose Path renders differently from the text given: './p.cfg' -> 'p.cfg'
PATH_NAMES = ["p.cfg", "./p.cfg", ".//p.cfg"]


def _has_break(s):
    return any(b in s for b in BREAKS)


def selfcheck():
    for c in BREAKS:
        assert len(("a" + c + "b").splitlines()) == 2
    assert len("a\x1fb".splitlines()) == 1


# ------------------------------------------------------------------ case construction
def _item_token(it):
    return wire.enc_str(it[1]) if it[0] == "s" else it[0]


def _req(case):
    if case["kind"] == "split":
        return wire.req("input", "split", wire.enc_str(case["text"]))
    ds = T.cfg_delims(case["syntax"], None)
    if case["kind"] == "after":
        return "\t".join(["inputx", "after", "1" if case["syntax"] == "ios" else "0", wire.enc_str("".join(ds)),
                          "1" if case["ignore_blank"] else "0", wire.enc_str(case["linesep"]), case["encoding"],
                          wire.enc_strs(case["lines"])] + list(case["ops"]))
    fields = ["input", "1" if case["syntax"] == "ios" else "0", wire.enc_str("".join(ds)),
              "1" if case["ignore_blank"] else "0", wire.enc_str(case["linesep"]), str(case["cycles"])]
    if case["kind"] == "xbundle":
        fields[0:1] = ["inputx", "forms"]
    for f in case["forms"]:
        kind = f["form"]
        if kind == "coll":          # a collection given item by item: <class kind>( <item>)*
            fields += ["coll", " ".join([f["kind"]] + [_item_token(it) for it in f["items"]]), "s", "-"]
        elif kind == "noiter":
            fields += ["noiter", str(int(f["len"])), "s", "-"]
        elif kind == "unsized":
            fields += ["unsized", "s", "s", "-"]
        elif kind in ("dir", "dirpath"):        # the (one-line) name of an existing directory
            nm = f["name"] if kind == "dir" else path_text(f["name"])
            fields += ["str" if kind == "dir" else "path", wire.enc_str(nm), wire.enc_str(nm), "d"]
        elif kind == "badbytes":                # a file whose bytes the codec rejects
            fields += ["str", wire.enc_str(f["name"]), wire.enc_str(f["name"]), "u"]
        elif kind == "unreadable":              # a regular file whose read() raises OSError, named as str or Path
            fields += ["path" if f.get("as_path") else "str", wire.enc_str(f["name"]), wire.enc_str(f["name"]), "r"]
        elif kind in ("list", "tuple"):
            fields += [kind, wire.enc_strs(f["lines"]), "s", "-"]
        elif kind == "none":
            fields += ["none", "s", "s", "-"]
        elif kind == "str":
            fields += ["str", wire.enc_str(f["text"]), "s", "-"]
        elif kind == "file":
            fields += ["str", wire.enc_str(f["name"]), wire.enc_str(f["name"]), wire.enc_str(f["content"])]
        elif kind == "pathlib":
            fields += ["path", wire.enc_str(path_text(f["name"])), wire.enc_str(path_text(f["name"])), wire.enc_str(f["content"])]
        elif kind == "pathlib_missing":
            fields += ["path", wire.enc_str(path_text(f["name"])), "s", "-"]
        elif kind == "missing":
            fields += ["str", wire.enc_str(f["name"]), "s", "-"]
        else:
            raise AssertionError(kind)
    return "\t".join(fields)


def path_text(name):
    """`str(pathlib.Path(name))`: what read_config() turns a Path into ('./x' -> 'x', '' -> '.')"""
    import pathlib
    return str(pathlib.PurePosixPath(name))


def mk_bundle(syntax, ign, linesep, cycles, forms, base=None, origin="gen", tag="bundle"):
    case = {"kind": "bundle", "tag": tag, "syntax": syntax, "ignore_blank": bool(ign), "linesep": linesep,
            "cycles": int(cycles), "forms": forms, "base": base, "_origin": origin}
    case["req"] = _req(case)
    return case


def mk_xbundle(syntax, ign, linesep, cycles, forms, origin="gen", tag="xbundle"):
    """forms of the rejection side (channel inputx): collections with foreign items, other classes, directories, bad bytes"""
    case = {"kind": "xbundle", "tag": tag, "syntax": syntax, "ignore_blank": bool(ign), "linesep": linesep,
            "cycles": int(cycles), "forms": forms, "base": None, "_origin": origin}
    case["req"] = _req(case)
    return case


def mk_after(syntax, ign, linesep, encoding, lines, ops, origin="gen"):
    """operations on a finished object: save_as to good / bad targets, read_config_file once more"""
    case = {"kind": "after", "tag": "after", "syntax": syntax, "ignore_blank": bool(ign), "linesep": linesep,
            "encoding": encoding, "lines": list(lines), "ops": list(ops), "_origin": origin}
    case["req"] = _req(case)
    return case


def mk_split(text, origin="gen"):
    case = {"kind": "split", "text": text, "_origin": origin}
    case["req"] = _req(case)
    return case


def from_corpus(c):
    if c["kind"] == "split":
        return mk_split(c["text"], "corpus")
    if c["kind"] == "xbundle":
        return mk_xbundle(c["syntax"], c["ignore_blank"], c["linesep"], c["cycles"], c["forms"], "corpus", c.get("tag", "xbundle"))
    if c["kind"] == "after":
        return mk_after(c["syntax"], c["ignore_blank"], c["linesep"], c["encoding"], c["lines"], c["ops"], "corpus")
    return mk_bundle(c["syntax"], c["ignore_blank"], c["linesep"], c["cycles"], c["forms"], c.get("base"), "corpus",
                     c.get("tag", "bundle"))


def _latin1(s):
    return "".join(c if ord(c) < 256 else "¤" for c in s)


def file_form(name, content, encoding, form="file"):
    return {"form": form, "name": name, "content": content, "encoding": encoding}


def bundle_from_lines(rng, ls, syntax, ign, linesep, cycles, tag="bundle"):
    forms = [{"form": "list", "lines": ls}, {"form": "tuple", "lines": ls}]
    if not ls:
        forms.append({"form": "none"})
    for sep in ("\n", "\r\n"):
        for end in ("", sep):
            forms.append({"form": "str", "text": sep.join(ls) + end})
    lat = [_latin1(l) for l in ls]
    if lat != ls:
        forms.append({"form": "list", "lines": lat})
    variants = [("\n", ""), ("\n", "\n"), ("\r\n", "\r\n"), ("\r", "\r"), ("\r\n", ""), ("mix", "mix")]
    rng.shuffle(variants)
    for sep, end in variants[: rng.choice([2, 3, 6])]:
        enc = rng.choice(["utf-8", "latin-1"])
        src = lat if enc == "latin-1" else ls
        if sep == "mix":
            seps = [rng.choice(["\n", "\r\n", "\r", "\r\r\n"]) for _ in src]
            if seps and rng.random() < 0.5:
                seps[-1] = ""
            content = "".join(l + e for l, e in zip(src, seps))
        else:
            content = sep.join(src) + end
        forms.append(file_form(rng.choice(FNAMES), content, enc))
    if rng.random() < 0.4:
        enc = rng.choice(["utf-8", "latin-1"])
        src = lat if enc == "latin-1" else ls
        sep = rng.choice(["\n", "\r\n", "\r"])
        forms.append(file_form(rng.choice(FNAMES + PATH_NAMES), sep.join(src) + rng.choice(["", sep]), enc, form="pathlib"))
    return mk_bundle(syntax, ign, linesep, cycles, forms, base=ls, tag=tag)


def _rand_raw(rng, n):
    alpha = ["a", "b", " ", "é", "€", "\x1f", "\t"] + BREAKS + ["\n", "\n", "\r\n", "\r"]
    return "".join(rng.choice(alpha) for _ in range(n))


def raw_bundle(rng, text, syntax, ign, linesep, cycles):
    forms = [{"form": "str", "text": text}, file_form("c.cfg", text, "utf-8")]
    if all(ord(c) < 256 for c in text):
        forms.append(file_form("c.cfg", text, "latin-1"))
    return mk_bundle(syntax, ign, linesep, cycles, forms, base=None, tag="raw")


MALFORMED_STR = ["", "hostname R1", "hostname R1\n", "a\r\n", "\n", "\r", "\x0b", "no such file.cfg", " ", "a\x1fb", "\x00",
                 "x" * 300, "interface Ethernet1\x0c"]


SEQ_CLASSES = ["deque", "UserList", "bytes", "bytearray", "range", "ConfigList"]
SIZED_CLASSES = ["set", "frozenset", "dict"]
OTHER_ITEMS = ["int", "None", "bytes", "list", "float"]
UNSIZED = ["int", "float", "bool", "generator", "object", "iterator"]
NOITER = ["no-iter", "iter-TypeError", "iter-AttributeError"]
BAD_BYTES = {"utf-8": ["636166e90a", "ff", "610a80620a", "c3", "eda080"], "ascii": ["e9"]}
DIR_NAMES = ["d.cfg", "my dir", ".", "./sub", "sub/", "é"]
# a regular file (os.path.isfile) that cannot be read even by root: reading it raises OSError (EIO) on Linux
UNREADABLE = [n for n in ["/proc/self/mem"] if os.path.isfile(n)]


def _rand_items(rng, n, p_other, p_line):
    out = []
    for _ in range(n):
        r = rng.random()
        if r < p_other:
            out.append(["O", rng.choice(OTHER_ITEMS)])
        elif r < p_other + p_line:
            out.append(["L"])
        else:
            out.append(["s", rng.choice(["a", " b", "", "!", "interface Ethernet1", " shutdown", "x" * 3])])
    return out


def rand_coll(rng):
    """a collection argument: class kind x items (str / BaseCfgLine / foreign type)"""
    kind = rng.choice(["list", "tuple", "list", "tuple", "seq", "sized"])
    r = rng.random()
    n = rng.choice([0, 1, 1, 2, 3, 5])
    if r < 0.35:
        items = _rand_items(rng, n, 0.4, 0.1)
    elif r < 0.6:
        items = _rand_items(rng, n, 0.0, 0.5)
    else:
        items = _rand_items(rng, n, 0.0, 0.0)
    if kind == "seq":
        if items and all(it == ["O", "int"] for it in items):
            cls = rng.choice(["bytes", "bytearray", "range", "deque"])
        elif not items:
            cls = rng.choice(SEQ_CLASSES)
        elif all(it[0] == "L" for it in items):
            cls = rng.choice(["deque", "UserList", "ConfigList"])
        else:
            cls = rng.choice(["deque", "UserList"])
        if cls == "range":
            items = [["O", "int"]] * len(items)
    elif kind == "sized":
        cls = rng.choice(SIZED_CLASSES)
        seen, uniq = set(), []
        for it in items:                       # a set holds each value once (and no list / no two equal objects)
            it = ["O", "int"] if it == ["O", "list"] else it
            key = tuple(it)
            if key not in seen:
                seen.add(key)
                uniq.append(it)
        items = uniq
    else:
        cls = kind
    return {"form": "coll", "kind": kind, "cls": cls, "items": items}


def xcases(rng, tier):
    n = {"quick": 90, "thorough": 2500, "search": 150}[tier]
    fixed = [
        {"form": "coll", "kind": "list", "cls": "list", "items": [["s", "a"], ["O", "int"]]},
        {"form": "coll", "kind": "tuple", "cls": "tuple", "items": [["O", "None"]]},
        {"form": "coll", "kind": "list", "cls": "list", "items": [["s", "a"], ["L"]]},
        {"form": "coll", "kind": "list", "cls": "list", "items": [["L"], ["L"]]},
        {"form": "coll", "kind": "list", "cls": "list", "items": [["s", "a"], ["s", " b"]]},
        {"form": "coll", "kind": "sized", "cls": "set", "items": [["s", "a"], ["s", "b"]]},
        {"form": "coll", "kind": "sized", "cls": "set", "items": []},
        {"form": "coll", "kind": "sized", "cls": "dict", "items": [["s", "a"]]},
        {"form": "coll", "kind": "sized", "cls": "dict", "items": []},
        {"form": "coll", "kind": "sized", "cls": "frozenset", "items": [["O", "int"]]},
        {"form": "coll", "kind": "seq", "cls": "bytes", "items": [["O", "int"], ["O", "int"]]},
        {"form": "coll", "kind": "seq", "cls": "bytes", "items": []},
        {"form": "coll", "kind": "seq", "cls": "range", "items": []},
        {"form": "coll", "kind": "seq", "cls": "deque", "items": [["s", "a"], ["s", " b"]]},
        {"form": "coll", "kind": "seq", "cls": "UserList", "items": [["s", "a"]]},
        {"form": "coll", "kind": "seq", "cls": "ConfigList", "items": [["L"], ["L"]]},
        {"form": "coll", "kind": "seq", "cls": "deque", "items": [["L"]]},
    ]
    fixed += [{"form": "noiter", "len": k, "how": h} for k in (0, 1, 3) for h in NOITER]
    fixed += [{"form": "unsized", "what": w} for w in UNSIZED]
    fixed += [{"form": "dir", "name": nm} for nm in DIR_NAMES] + [{"form": "dirpath", "name": nm} for nm in DIR_NAMES]
    fixed += [{"form": "badbytes", "name": "c.cfg", "hex": h, "encoding": enc} for enc, hs in BAD_BYTES.items() for h in hs]
    fixed += [{"form": "unreadable", "name": nm, "as_path": ap} for nm in UNREADABLE for ap in (False, True)]
    if tier != "search":
        for f in fixed:
            yield mk_xbundle("ios", False, "\n", 1, [f], tag="x-" + f["form"])
    for _ in range(n):
        forms = []
        for _ in range(rng.choice([1, 2, 3])):
            r = rng.random()
            if r < 0.6:
                forms.append(rand_coll(rng))
            elif r < 0.7:
                forms.append({"form": "noiter", "len": rng.choice([0, 1, 2, 7]), "how": rng.choice(NOITER)})
            elif r < 0.8:
                forms.append({"form": "unsized", "what": rng.choice(UNSIZED)})
            elif r < 0.9:
                forms.append({"form": rng.choice(["dir", "dirpath"]), "name": rng.choice(DIR_NAMES)})
            else:
                enc = rng.choice(list(BAD_BYTES))
                forms.append({"form": "badbytes", "name": rng.choice(FNAMES[:5]), "hex": rng.choice(BAD_BYTES[enc]), "encoding": enc})
        yield mk_xbundle(rng.choice(T.SYNTAXES), rng.random() < 0.3, rng.choice(["\n", "\r\n"]), rng.choice([1, 2]), forms)
    # operations on a finished object
    ops_all = ["save:ok", "save:dir", "save:nodir", "reread"]
    for i in range({"quick": 80, "thorough": 2500, "search": 150}[tier]):
        ls = [l for l in T.rand_config(rng, 8, True, None) if not _has_break(l)]
        enc = rng.choice(["utf-8", "latin-1", "latin-1"])
        r = rng.random()
        if enc == "latin-1" and r < 0.55:
            ls = [_latin1(l) for l in ls]
            if r < 0.3:
                ls.insert(rng.randrange(len(ls) + 1), " description caf\u00e9 \u00ff")
        elif r < 0.9:
            ls.insert(rng.randrange(len(ls) + 1), rng.choice([" description 5\u20ac", "! \u0416", " x\u0100", "\U0001F600"]))
        if rng.random() < 0.2:
            ls = ls + [""] * rng.choice([1, 2])
        ops = [rng.choice(ops_all) for _ in range(rng.choice([1, 2, 4]))] if i >= 4 else [ops_all[i]]
        yield mk_after(rng.choice(T.SYNTAXES), rng.random() < 0.3, rng.choice(["\n", "\n", "\r\n"]), enc, ls, ops)


def cases(rng, tier):
    selfcheck()
    T.selfcheck()
    nb = {"quick": 260, "thorough": 9000, "search": 700}[tier]
    nr = {"quick": 120, "thorough": 4000, "search": 300}[tier]
    ns = {"quick": 600, "thorough": 20000, "search": 300}[tier]
    exh = {"quick": 5, "thorough": 6, "search": 0}[tier]

    def knobs():
        return (rng.choice(T.SYNTAXES), rng.random() < 0.35, rng.choice(["\n", "\n", "\r\n"]), rng.choice([1, 2, 3, 5]))

    if tier != "search":
        # hand-picked shapes of the property text
        for ls in ([], [""], ["", ""], ["a"], ["a", ""], ["a", "b"], ["a", "", "b"], ["a", "b", "", ""], ["a", " b", "", " c"],
                   [" "], ["banner motd ^", "", "x"], ["banner motd ^", "", "x", "^"], ["macro name m", "", "@", ""],
                   ["interface Ethernet1", " ip address 1.1.1.1 255.0.0.0", "!", "end"]):
            for ign in (False, True):
                for linesep in ("\n", "\r\n"):
                    yield bundle_from_lines(rng, list(ls), "ios", ign, linesep, 5, tag="shape")
        for s in MALFORMED_STR:
            yield mk_bundle("ios", False, "\n", 1, [{"form": "str", "text": s}], tag="malformed")
        yield mk_bundle("ios", False, "\n", 1, [{"form": "missing", "name": "nothing here.cfg"}], tag="malformed")
        for nm in ("nothing here.cfg", "./gone.cfg", "no\x1fsuch", "gone\n"):
            yield mk_bundle("ios", False, "\n", 1, [{"form": "pathlib_missing", "name": nm}], tag="malformed")
        for name, lines in T.fixture_configs()[: (3 if tier == "quick" else 40)]:
            if all(not _has_break(l) for l in lines):
                yield bundle_from_lines(rng, lines, "ios", False, "\n", 2, tag="fixture")
        for n in range(exh + 1):
            for tup in itertools.product("a\n\r\x0b", repeat=n):
                text = "".join(tup)
                yield mk_split(text)
                if n <= 4 or tier == "thorough" and n <= 5:
                    yield raw_bundle(rng, text, "ios", False, "\n", 2)
    for i in range(nb):
        syntax, ign, linesep, cycles = knobs()
        ls = T.rand_config(rng, 12, True, None)
        r = rng.random()
        if r < 0.25:
            ls = ls + [""] * rng.choice([1, 1, 2, 3])           # trailing blank lines
        elif r < 0.35 and ls:
            ls.insert(rng.randrange(len(ls)), "")               # interior blank line
        tag = "bundle"
        if rng.random() < 0.12 and ls:                          # unclean stream
            k = rng.randrange(len(ls))
            pos = rng.randrange(len(ls[k]) + 1)
            ls[k] = ls[k][:pos] + rng.choice(BREAKS + ["\r\n"]) + ls[k][pos:]
            tag = "unclean"
        yield bundle_from_lines(rng, ls, syntax, ign, linesep, cycles, tag=tag)
    for i in range(nr):
        syntax, ign, linesep, cycles = knobs()
        yield raw_bundle(rng, _rand_raw(rng, rng.choice([0, 1, 2, 3, 5, 8, 13, 30])), syntax, ign, linesep, cycles)
    for i in range(ns):
        yield mk_split(_rand_raw(rng, rng.choice([0, 1, 2, 3, 4, 6, 9, 20])))
    for i in range(max(10, nb // 20)):
        s = rng.choice(MALFORMED_STR) if rng.random() < 0.5 else _rand_raw(rng, rng.choice([1, 2, 4])).replace("\n", "x")
        yield mk_bundle(rng.choice(T.SYNTAXES), False, "\n", 1, [{"form": "str", "text": s}], tag="malformed")
    yield from xcases(rng, tier)


def neighbours(case, rng):
    if case["kind"] == "split":
        for _ in range(200):
            s = list(case["text"])
            if s and rng.random() < 0.5:
                del s[rng.randrange(len(s))]
            else:
                s.insert(rng.randrange(len(s) + 1), rng.choice(["a", "\n", "\r", "\x0b"]))
            yield mk_split("".join(s))
        return
    if case["kind"] in ("xbundle", "after"):
        yield from xcases(rng, "search")
        return
    base = case.get("base")
    for _ in range(150):
        if base is not None:
            ls = list(base)
            if ls and rng.random() < 0.5:
                del ls[rng.randrange(len(ls))]
            else:
                ls.insert(rng.randrange(len(ls) + 1), rng.choice(["", " ", "x", " y"]))
            yield bundle_from_lines(rng, ls, case["syntax"], case["ignore_blank"], case["linesep"], case["cycles"])
        else:
            yield raw_bundle(rng, _rand_raw(rng, rng.choice([1, 2, 3, 5])), case["syntax"], case["ignore_blank"],
                             case["linesep"], case["cycles"])


def nontrivial(case):
    if case["kind"] == "split":
        return _has_break(case["text"])
    if case["kind"] == "after":
        return len(case["lines"]) >= 2
    if case["kind"] == "xbundle":
        return any(len(f.get("items", [])) >= 2 for f in case["forms"])
    if case.get("base") is not None:
        return len(case["base"]) >= 2
    return any(_has_break(f.get("text", "")) for f in case["forms"])


def describe(case):
    if case["kind"] == "split":
        return {"kind": "split", "text": case["text"]}
    if case["kind"] == "after":
        return {k: case[k] for k in ("kind", "syntax", "ignore_blank", "linesep", "encoding", "lines", "ops")}
    d = {k: case[k] for k in ("kind", "tag", "syntax", "ignore_blank", "linesep", "cycles")}
    if sum(len(str(f)) for f in case["forms"]) < 3000:
        d["forms"] = case["forms"]
    else:
        d["n_forms"] = len(case["forms"])
        d["n_lines"] = len(case["base"] or [])
        d["origin"] = case.get("_origin")
    return d


def buckets(case, ans):
    if case["kind"] == "split":
        return ["kind:split", "split-len:%d" % min(10, len(case["text"]))]
    if case["kind"] == "after":
        out = ["kind:after", "encoding:" + case["encoding"]]
        for op, a in zip(case["ops"], ans.split("|")):
            out.append("after:" + op + "=" + (a if a.startswith("err:") else "ok"))
        return out
    out = ["kind:" + case["tag"], "syntax:" + case["syntax"], "ignore_blank:%d" % case["ignore_blank"],
           "linesep:" + ("LF" if case["linesep"] == "\n" else "CRLF"), "cycles:%d" % case["cycles"]]
    for f, a in zip(case["forms"], ans.split("#")):
        out.append("form:" + f["form"])
        if f["form"] == "coll":
            out.append("coll:" + f["cls"] + ("/empty" if not f["items"] else "/str" if all(i[0] == "s" for i in f["items"])
                                             else "/foreign" if any(i[0] == "O" for i in f["items"]) else "/cfgline"))
        if f["form"] in ("file", "pathlib"):
            out.append("encoding:" + f["encoding"])
            c = f["content"]
            out.append("file-ends:" + ("CRLF" if c.endswith("\r\n") else "LF" if c.endswith("\n") else "CR" if c.endswith("\r")
                                       else "none"))
            if "\r" in c:
                out.append("file-has:CR")
            if f["name"] != "c.cfg":
                out.append("odd-file-name")
        out.append("answer:" + (a if a.startswith("err:") else "ok"))
    if case.get("base") is not None:
        b = case["base"]
        out.append("base-lines:%d" % min(15, len(b)))
        if b and b[-1].strip() == "":
            out.append("base:trailing-blank")
        if any(l.strip() == "" for l in b[:-1]):
            out.append("base:interior-blank")
    return out


# ------------------------------------------------------------------ implementation
class _Linesep:
    """`os.linesep == "\\r\\n"` cannot be set on this platform: the C TextIOWrapper fixes the
    translation at build time.  Give the module under test an `open` that asks for the same
    translation explicitly whenever it opens a file for writing in text mode."""

    def __init__(self, mod, linesep):
        self.mod, self.linesep = mod, linesep

    def __enter__(self):
        if self.linesep != "\n":
            sep = self.linesep

            def _open(file, mode="r", *a, **kw):
                if "w" in mode and "b" not in mode and "newline" not in kw:
                    kw["newline"] = sep
                return builtins.open(file, mode, *a, **kw)
            self.mod.open = _open

    def __exit__(self, *exc):
        if "open" in self.mod.__dict__:
            del self.mod.__dict__["open"]


def _dump_cycles(CiscoConfParse, first, kw, encoding, n):
    out = [T.dump_all(first)]
    cur = first
    for i in range(n):
        target = "out%d.cfg" % i
        cur.save_as(target)
        data = open(target, "rb").read()
        written = data.decode(encoding)
        assert written.encode(encoding) == data
        cur = CiscoConfParse(target, encoding=encoding, **kw)
        out.append(wire.enc_str(written) + "~" + wire.enc_strs(cur.get_text()))
    return "&".join(out)


def _py_item(it, line_objs):
    if it[0] == "s":
        return it[1]
    if it[0] == "L":
        return line_objs.pop()
    return {"int": 5, "None": None, "bytes": b"ab", "list": ["a"], "float": 1.5}[it[1]]


def _py_coll(f, CiscoConfParse):
    """the real Python object described by a `coll` form"""
    import collections
    n_l = sum(1 for it in f["items"] if it[0] == "L")
    donor = CiscoConfParse(["line %d" % i for i in range(n_l)]) if n_l else None
    cls = f["cls"]
    if cls == "ConfigList":
        return donor.config_objs if donor is not None else CiscoConfParse([]).config_objs
    line_objs = list(donor.objs)[::-1] if donor is not None else []
    items = [_py_item(it, line_objs) for it in f["items"]]
    if cls == "list":
        return items
    if cls == "tuple":
        return tuple(items)
    if cls == "deque":
        return collections.deque(items)
    if cls == "UserList":
        return collections.UserList(items)
    if cls == "bytes":
        return bytes([97] * len(items))
    if cls == "bytearray":
        return bytearray([97] * len(items))
    if cls == "range":
        return range(len(items))
    if cls == "set":
        return set(items)
    if cls == "frozenset":
        return frozenset(items)
    if cls == "dict":
        return {k: 1 for k in items}
    raise AssertionError(cls)


class _NoIter:
    def __init__(self, n):
        self.n = n

    def __len__(self):
        return self.n


class _IterTypeError(_NoIter):
    def __iter__(self):
        raise TypeError("not today")


class _IterAttributeError(_NoIter):
    def __iter__(self):
        raise AttributeError("not today")


def _py_unsized(what):
    return {"int": 5, "float": 1.5, "bool": True, "generator": (x for x in ["a", "b"]), "object": object(),
            "iterator": iter(["a", "b"])}[what]


def _impl_after(case):
    import ciscoconfparse2.ciscoconfparse2 as mod
    from ciscoconfparse2 import CiscoConfParse
    enc = case["encoding"]
    kw = dict(syntax=case["syntax"], factory=False, ignore_blank_lines=case["ignore_blank"])
    cwd = os.getcwd()
    scratch = tempfile.mkdtemp(prefix="ccp2-c09-")
    assert not scratch.startswith(("/repo", "/verif"))
    out = []
    try:
        os.chdir(scratch)
        os.mkdir("adir")
        with open("there.cfg", "w") as fh:
            fh.write("a\n b\n")
        parse = CiscoConfParse(list(case["lines"]), encoding=enc, **kw)
        with _Linesep(mod, case["linesep"]):
            for i, op in enumerate(case["ops"]):
                try:
                    if op == "reread":
                        out.append(wire.enc_strs(parse.read_config_file("there.cfg")))
                        continue
                    target = {"save:ok": "out%d.cfg" % i, "save:dir": "adir", "save:nodir": "nodir/out.cfg"}[op]
                    r = parse.save_as(target)
                    if r is not True:
                        out.append("returned:" + repr(r))
                        continue
                    data = open(target, "rb").read()
                    out.append(wire.enc_str(data.decode(enc)))
                except Exception as e:  # noqa: BLE001
                    out.append("err:" + type(e).__name__)
    finally:
        os.chdir(cwd)
        shutil.rmtree(scratch, ignore_errors=True)
    return "|".join(out)


def impl(case):
    quiet_ccp()
    if case["kind"] == "after":
        return _impl_after(case)
    if case["kind"] == "split":
        import inspect
        from ciscoconfparse2 import CiscoConfParse
        rgx = inspect.signature(CiscoConfParse.read_config_file).parameters["linesplit_rgx"].default
        t = case["text"]
        return "|".join([wire.enc_strs(t.splitlines()), wire.enc_strs(re.split(rgx, t)),
                         wire.enc_str(io.StringIO(t, newline=None).read())])
    import pathlib
    import ciscoconfparse2.ciscoconfparse2 as mod
    from ciscoconfparse2 import CiscoConfParse
    kw = dict(syntax=case["syntax"], factory=False, ignore_blank_lines=case["ignore_blank"])
    answers = []
    cwd = os.getcwd()
    for f in case["forms"]:
        scratch = tempfile.mkdtemp(prefix="ccp2-c09-")
        assert not scratch.startswith(("/repo", "/verif"))
        try:
            os.chdir(scratch)
            kind = f["form"]
            enc = f.get("encoding", "utf-8")
            if kind in ("file", "pathlib"):
                with open(f["name"], "wb") as fh:
                    fh.write(f["content"].encode(enc))
            elif kind == "badbytes":
                with open(f["name"], "wb") as fh:
                    fh.write(bytes.fromhex(f["hex"]))
            elif kind in ("dir", "dirpath"):
                os.makedirs(f["name"], exist_ok=True)
            arg = {"coll": lambda: _py_coll(f, CiscoConfParse), "unsized": lambda: _py_unsized(f["what"]),
                   "noiter": lambda: {"no-iter": _NoIter, "iter-TypeError": _IterTypeError,
                                      "iter-AttributeError": _IterAttributeError}[f["how"]](f["len"]),
                   "dir": lambda: f["name"], "dirpath": lambda: pathlib.Path(f["name"]), "badbytes": lambda: f["name"],
                   "unreadable": lambda: pathlib.Path(f["name"]) if f.get("as_path") else f["name"],
                   "list": lambda: list(f["lines"]), "tuple": lambda: tuple(f["lines"]), "none": lambda: None,
                   "str": lambda: f["text"], "file": lambda: f["name"], "missing": lambda: f["name"],
                   "pathlib": lambda: pathlib.Path(f["name"]), "pathlib_missing": lambda: pathlib.Path(f["name"])}[kind]()
            with _Linesep(mod, case["linesep"]):
                try:
                    first = CiscoConfParse(arg, encoding=enc, **kw)
                except Exception as e:  # noqa: BLE001
                    answers.append("err:" + type(e).__name__)
                    continue
                answers.append(_dump_cycles(CiscoConfParse, first, kw, enc, case["cycles"]))
        finally:
            os.chdir(cwd)
            shutil.rmtree(scratch, ignore_errors=True)
    return "#".join(answers)


# ------------------------------------------------------------------ oracle (independent of the Lean model)
def ref_file_lines(content):
    """the file's text split at its line ends (LF, CRLF, CR), written without the library and without `re`"""
    lines, cur, i = [], [], 0
    while i < len(content):
        c = content[i]
        if c == "\r" or c == "\n":
            if c == "\r" and content[i + 1: i + 2] == "\n":
                i += 1
            lines.append("".join(cur))
            cur = []
        else:
            cur.append(c)
        i += 1
    lines.append("".join(cur))
    return lines


def ref_str_lines(text):
    """lines of a multi-line string: break at the 10 boundaries, CRLF once, a final line end adds nothing"""
    lines, cur, i = [], [], 0
    while i < len(text):
        c = text[i]
        if c in BREAKS:
            if c == "\r" and text[i + 1: i + 2] == "\n":
                i += 1
            lines.append("".join(cur))
            cur = []
        else:
            cur.append(c)
        i += 1
    if cur:
        lines.append("".join(cur))
    return lines


def _parse_form_answer(a):
    parts = a.split("&")
    texts_w = parts[0].split("|")[0]
    cyc = []
    for p in parts[1:]:
        w, _, t = p.partition("~")
        cyc.append((wire.dec_str(w), wire.dec_strs(t)))
    return parts[0], wire.dec_strs(texts_w), cyc


def _oracle_after(case, ans):
    """save_as on a finished object: a bad target or text the codec cannot encode must raise (a config must not be
    reported saved when the file cannot hold it); a good save holds the lines and ends with the line end"""
    fails = []
    answers = ans.split("|")
    if len(answers) != len(case["ops"]):
        return ["answer count differs from the number of operations"]
    texts = T.ref_kept(case["lines"], case["syntax"] == "ios", case["ignore_blank"])
    try:
        ("\n".join(texts) + "\n").encode(case["encoding"])
        encodable = True
    except UnicodeEncodeError:
        encodable = False
    for op, a in zip(case["ops"], answers):
        if op == "reread":
            continue                                  # an API guard, compared with the model only
        if op in ("save:dir", "save:nodir") or not encodable:
            if not a.startswith("err:"):
                fails.append(f"{op} (encodable={encodable}) did not raise: {a[:40]}")
            continue
        if a.startswith("err:") or a.startswith("returned:"):
            fails.append(f"{op}: a writable target and encodable text, but {a[:40]}")
            continue
        w = wire.dec_str(a)
        back = ref_file_lines(w)
        if back not in (texts, texts + [""]) and not (texts == [] and back == ["", ""]):
            fails.append(f"{op}: the saved file does not hold the lines of the object: {back[:6]!r} vs {texts[:6]!r}")
        if not w.endswith(case["linesep"]):
            fails.append(f"{op}: saved file does not end with a line end")
    return fails[:4]


def _coll_want(f):
    """lines a collection form must be read as, or "err" when it is no configuration"""
    if f["kind"] in ("list", "tuple") and all(it[0] == "s" for it in f["items"]):
        return [it[1] for it in f["items"]]
    return "err"


def oracle(case, ans):
    if case["kind"] == "split":
        return []          # primitives: correspondence only
    if case["kind"] == "after":
        return _oracle_after(case, ans)
    fails = []
    ios = case["syntax"] == "ios"
    ign = case["ignore_blank"]
    answers = ans.split("#")
    if len(answers) != len(case["forms"]):
        return ["answer count differs from the number of forms"]
    dump_of_lines = {}
    for f, a in zip(case["forms"], answers):
        if f["form"] in ("list", "tuple") and not a.startswith("err:"):
            dump_of_lines.setdefault(tuple(f["lines"]), a.split("&")[0])
    for f, a in zip(case["forms"], answers):
        kind = f["form"]
        what = kind + (":" + repr(f.get("text", f.get("name")))[:40] if kind != "list" and kind != "tuple" else "")
        # ---------------- which lines must have been read
        if kind in ("list", "tuple"):
            want = list(f["lines"])
        elif kind == "none":
            want = []
        elif kind == "str":
            sl = ref_str_lines(f["text"])
            if len(sl) == 0:
                want = "err"              # nothing to read: any rejection is fine, a parse is not
            elif len(sl) == 1:
                want = "err:FileNotFoundError"   # a one-line string names a file; none of that name exists
            else:
                want = sl
        elif kind in ("file", "pathlib"):
            name = f["name"] if kind == "file" else path_text(f["name"])      # a Path is read like str(path)
            want = ref_file_lines(f["content"]) if len(ref_str_lines(name)) == 1 else ref_str_lines(name)
        elif kind == "missing":
            want = "err:FileNotFoundError"
        elif kind == "pathlib_missing":
            want = "err:FileNotFoundError"
        elif kind == "coll":
            want = _coll_want(f)      # only a list / tuple of str is a configuration
        elif kind in ("noiter", "unsized", "dir", "dirpath", "badbytes", "unreadable"):
            want = "err"              # nothing that could be "the file's text split at its line ends" / a line list
        if isinstance(want, str):
            if not a.startswith(want):
                fails.append(f"{what}: expected {want}, got {a[:60]}")
            continue
        if a.startswith("err:"):
            fails.append(f"{what}: raised {a} (input form {kind})")
            continue
        dump, texts, cyc = _parse_form_answer(a)
        kept = T.ref_kept(want, ios, ign)
        if texts != kept:
            fails.append(f"{what}: line texts {texts[:8]!r} differ from the expected {kept[:8]!r}")
            continue
        # ---------------- the same lines in another form give the same tree
        ref = dump_of_lines.get(tuple(want))
        if ref is not None and ref != dump:
            fails.append(f"{what}: tree differs from the tree of the same lines given as a list")
        # ---------------- save/load stability
        if len(cyc) != case["cycles"]:
            fails.append(f"{what}: {len(cyc)} cycles recorded, {case['cycles']} requested")
            continue
        clean = all("\r" not in l and "\n" not in l for l in texts)
        start = 0 if clean else 1
        for i in range(start + 1, len(cyc)):
            if cyc[i][0] != cyc[start][0]:
                fails.append(f"{what}: bytes written by save {i + 1} differ from save {start + 1}: "
                             f"{cyc[i][0][-20:]!r} vs {cyc[start][0][-20:]!r} (lengths {len(cyc[i][0])}, {len(cyc[start][0])})")
                break
            if cyc[i][1] != cyc[start][1]:
                fails.append(f"{what}: lines read after save {i + 1} differ from those after save {start + 1}")
                break
        if clean and cyc:
            w0 = cyc[0][0]
            back = ref_file_lines(w0)
            if back not in (texts, texts + [""]) and not (texts == [] and back == ["", ""]):
                fails.append(f"{what}: the first save does not hold the lines of the object: {back[:6]!r} vs {texts[:6]!r}")
            if not w0.endswith(case["linesep"]):
                fails.append(f"{what}: saved file does not end with a line end")
            if case["linesep"] == "\r\n" and re.search(r"(?<!\r)\n|\r(?!\n)", w0):
                fails.append(f"{what}: saved file mixes line ends")
            if not ign and cyc[0][1] not in (texts, texts + [""]) and not (texts == [] and cyc[0][1] == ["", ""]):
                fails.append(f"{what}: lines read back after the first save {cyc[0][1][:6]!r} vs {texts[:6]!r}")
    # ---------------- the forms of one clean base config agree with each other
    base = case.get("base")
    if base is not None and len(base) >= 2 and base[-1] != "" and all(not _has_break(l) for l in base):
        dumps = {}
        for f, a in zip(case["forms"], answers):
            if f["form"] in ("tuple", "str") or (f["form"] == "list" and f["lines"] == base):
                dumps[f["form"] + repr(f.get("text", ""))[:30]] = a.split("&")[0]
        if len(set(dumps.values())) > 1:
            fails.append("list / tuple / multi-line string forms of one config disagree: " + ", ".join(sorted(dumps)))
    return fails[:4]
