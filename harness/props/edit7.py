"""C07's own history runner over the EXTENDED edit alphabet (lean/Ccp/Model/EditX.lean, channel `editx`).

Everything `props.editlib` generates is still understood (same operation lists, same answer format, so
`editlib.parse_answer` and C07's oracle keep working); added on top, to close the generator blind spots that
harness/covreport.py showed for C07's anchored functions:

  ["rem", h]                      ConfigList.remove(obj)               (skipped like "del" on an uncommitted state)
  ["dela", h]                     obj.delete(), ALSO when the object is no longer in the list (-> ConfigListItemDoesNotExist)
  ["probe", kind, h, variant]     one of the 16 guarded search entry points (SEARCH_KINDS), several argument forms each
  [..., "obj"] as last element    the payload is handed over as a line object instead of a string
                                  (ins / lib / lia / oib / oia / atf)
  ["insbi", bad, txt]             ConfigList.insert(<not an int>, txt)               -> ValueError
  ["insbv", k, bad]               ConfigList.insert(k, <neither str nor line>)       -> TypeError
  ["libv" | "liav", regex, bad]   ConfigList.insert_before/after(regex, <bad value>) -> ValueError
  ["rembv", bad]                  ConfigList.remove(<not a line object>)             -> InvalidParameters

A case may carry parse options (`opts`, see treelib.parse_impl_opts); `aiw` (auto_indent_width) is an input of the
model (the `width` field of the request), the others are not.
"""
import re

import wire
from props import editlib as E
from props import treelib as T
from props.common import quiet_ccp

SEARCH_KINDS = ["fo", "fob", "fpo", "fpw", "fco", "crsc", "crmit",
                "oap", "olin", "ogen", "orm", "ors", "orsc", "ormt", "ormit", "orlit"]
OBJ_KINDS = SEARCH_KINDS[7:]
N_VARIANTS = 9
BAD_VALUES = {"none": None, "int": 5, "list": ["x"], "float": 1.5, "str": "1", "bytes": b"x"}
MALFORMED = ("insbi", "insbv", "libv", "liav", "rembv")


def width_for(case):
    aiw = (case.get("opts") or {}).get("aiw", -1)
    return aiw if aiw > 0 else E.width_of(case["syntax"])


def is_obj_form(op):
    return op[-1] == "obj"


def enc_op(op, row=None, newtext=None):
    k = op[0]
    if k == "rem":
        return f"rem:{op[1]}"
    if k == "dela":
        return f"dela:{op[1]}"
    if k == "probe":
        return "probe" if len(op) == 1 else "srch:" + op[1]
    if k in ("lib", "lia") and is_obj_form(op):
        return f"{k}o:{1 if op[1] == '' else 0}:{''.join('1' if b else '0' for b in row)}:{wire.enc_str(op[2])}"
    if k == "insbi":
        return "insbi:" + wire.enc_str(op[2])
    if k == "insbv":
        return f"insbv:{op[1]}"
    if k in ("libv", "liav", "rembv"):
        return k
    return E.enc_op(op[:-1] if is_obj_form(op) else op, row, newtext)


def do_search(p, kind, obj, variant):
    """call one guarded search entry point; `obj` is a line object of the last commit (None if there is none)"""
    v = variant % N_VARIANTS
    if obj is None and kind in OBJ_KINDS:
        kind = "fo"
    if v >= 6:
        # three more argument forms per find_* entry point: line objects as specs, ignore_ws / escape_chars on the list
        # forms, direct children only; the other kinds wrap around
        o = obj if obj is not None else "a"
        if obj is not None:
            try:                      # a line object given as parentspec is used through its text, as a regex
                re.compile(obj.text)
            except re.error:
                o = "a"
        extra = {
            "fo": [lambda: p.find_objects("a", reverse=True), lambda: p.find_objects(" b", ignore_ws=True),
                   lambda: p.find_objects([re.compile("a")])],
            "fob": [lambda: p.find_object_branches(["a", "(b)"], regex_groups=True), lambda: p.find_object_branches(("a", "zzz"), empty_branches=True),
                    lambda: p.find_object_branches(["a", "b"], regex_flags=0, reverse=True)],
            # (find_parent_objects is type-checked: a line object as parentspec / childspec is refused with TypeCheckError)
            "fpo": [lambda: p.find_parent_objects("a", "b", recurse=True, reverse=True), lambda: p.find_parent_objects([" lead"], ignore_ws=True),
                    lambda: p.find_parent_objects(["a", " b"], ignore_ws=True, escape_chars=True)],
            "fpw": [lambda: p.find_parent_objects_wo_child(o, "b"), lambda: p.find_parent_objects_wo_child("a", o) if obj is None
                    else p.find_parent_objects_wo_child(o, "zzz", recurse=True), lambda: p.find_parent_objects_wo_child("a", " b", ignore_ws=True)],
            "fco": [lambda: p.find_child_objects(o, "b"), lambda: p.find_child_objects("a", "b", recurse=False),
                    lambda: p.find_child_objects(["a", " b"], ignore_ws=True, escape_chars=True)],
        }
        if kind in extra:
            return extra[kind][v - 6]()
        v = v % 6
    if kind == "fo":
        return [lambda: p.find_objects("a"), lambda: p.find_objects(["interface"]), lambda: p.find_objects(re.compile(r"^\s")),
                lambda: p.find_objects(obj if obj is not None else "x"),
                lambda: p.find_objects("interface  Eth1", exactmatch=True, ignore_ws=True, reverse=True),
                lambda: p.find_objects("a(b", escape_chars=True)][v]()
    if kind == "fob":
        return [lambda: p.find_object_branches(["a", "b"]), lambda: p.find_object_branches(("interface", "ip|shut")),
                lambda: p.find_object_branches(["(a)", "(b)", "c"], regex_groups=True, empty_branches=True),
                lambda: p.find_object_branches(["x", "y"], empty_branches=True, reverse=True),
                lambda: p.find_object_branches(("a", "b", "c"), regex_flags=re.I),
                lambda: p.find_object_branches(["interface", "."], reverse=True)][v]()
    if kind == "fpo":
        return [lambda: p.find_parent_objects("a", "b"), lambda: p.find_parent_objects(["a", "b"]),
                lambda: p.find_parent_objects(["interface"]), lambda: p.find_parent_objects(["a", "b", "c"], reverse=True),
                lambda: p.find_parent_objects("interface", "ip  address", ignore_ws=True, recurse=False, reverse=True),
                lambda: p.find_parent_objects("a(b", "x", escape_chars=True)][v]()
    if kind == "fpw":
        return [lambda: p.find_parent_objects_wo_child("a", "b"), lambda: p.find_parent_objects_wo_child(["interface", "shut"]),
                lambda: p.find_parent_objects_wo_child("interface", "shut", recurse=True),
                lambda: p.find_parent_objects_wo_child("a", "b", ignore_ws=True, reverse=True),
                lambda: p.find_parent_objects_wo_child("a(b", "x", escape_chars=True),
                lambda: p.find_parent_objects_wo_child(re.compile("a"), re.compile("b"))][v]()
    if kind == "fco":
        return [lambda: p.find_child_objects("a", "b"), lambda: p.find_child_objects(["a", "b"]),
                lambda: p.find_child_objects(["interface"]), lambda: p.find_child_objects(["a", "b", "c"], reverse=True),
                lambda: p.find_child_objects("interface", "ip  address", ignore_ws=True, recurse=True, reverse=True),
                lambda: p.find_child_objects("a(b", "x", escape_chars=True, recurse=False)][v]()
    if kind == "crsc":
        return p.re_search_children(["a", "^interface", r"\s"][v % 3], recurse=v >= 3)
    if kind == "crmit":
        return p.re_match_iter_typed([r"interface (\S+)", r"(a)", r"^\s*(\S+)"][v % 3], default="_none")
    if kind == "oap":
        return obj.all_parents
    if kind == "olin":
        return obj.lineage
    if kind == "ogen":
        return obj.geneology
    if kind == "orm":
        return obj.re_match([r"(a)", r"^(\s*)", r"Eth(\d+)"][v % 3], group=1, default="_none")
    if kind == "ors":
        return obj.re_search(["a", r"^\s", "Eth1$"][v % 3], default="_none", debug=1 if v >= 3 else 0)
    if kind == "orsc":
        return obj.re_search_children(["b", ".", "^$"][v % 3], recurse=v >= 3)
    if kind == "ormt":
        return obj.re_match_typed([r"(a)", r"Eth(\d+)", r"^(\s*)"][v % 3], default="_none")
    if kind == "ormit":
        return obj.re_match_iter_typed([r"(b)", r"address (\S+)", r"^(\s*)"][v % 3], default="_none")
    if kind == "orlit":
        return obj.re_list_iter_typed([r"(b)", r"address (\S+)", r"^(\s*)"][v % 3])
    raise AssertionError(kind)


def line_objects_in(x, acc):
    from ciscoconfparse2.ccp_abc import BaseCfgLine
    if isinstance(x, BaseCfgLine):
        acc.append(x)
    elif isinstance(x, (list, tuple)) or type(x).__name__ == "Branch":
        for y in x:
            line_objects_in(y, acc)
    return acc


def run_history(case):
    """returns (answer, request line for the model); answer format of editlib.run_history"""
    quiet_ccp()
    from ciscoconfparse2 import CiscoConfParse
    from ciscoconfparse2.ciscoconfparse2 import CFGLINE
    from ciscoconfparse2.errors import InvalidParameters, ConfigListItemDoesNotExist
    p = T.parse_impl_opts(case)
    auto = case["auto_commit"]
    kw = dict(syntax=case["syntax"], factory=False, ignore_blank_lines=case["ignore_blank"])
    if case["delims"] is not None:
        kw["comment_delimiters"] = list(case["delims"])

    def dump(dirty):
        if dirty:
            return "-~" + wire.enc_strs(p.get_text())
        mine = T.dump_all(p)
        fresh = T.dump_all(CiscoConfParse(list(p.get_text()), **kw))
        return ("=" if mine == fresh else "!") + "~" + mine

    def payload(op, txt):
        return CFGLINE[case["syntax"]](line=txt) if is_obj_form(op) else txt

    dirty = False
    out = ["ok~" + dump(False)]
    enc = []
    committed = list(p.config_objs.data)      # the objects of the last commit, by committed line number

    def skip(op, row, newtext):
        enc.append(enc_op(op, row, "" if (op[0] == "sub" and newtext is None) else newtext))
        out.append("skip~" + dump(dirty))

    for op in case["ops"]:
        k = op[0]
        status = "ok"
        changed = False
        row = newtext = None
        at = ""
        obj = None
        try:
            if k in ("lib", "lia"):
                row = [re.search(op[1], t) is not None for t in p.get_text()] if op[1] != "" else [False] * len(p.config_objs)
            if k in ("oib", "oia", "del", "atf", "rep", "sub", "rem", "dela"):
                if not committed:
                    skip(op, row, newtext)
                    continue
                obj = committed[op[1] % len(committed)]
                present = any(o is obj for o in p.config_objs.data)
                if k in ("del", "atf", "rem") and dirty:
                    # delete()/append_to_family()/remove() index by the stored line number, which is documented to be
                    # stale until the next commit; not modelled on an uncommitted state
                    skip(op, row, newtext)
                    continue
                if k == "dela" and dirty and present:
                    skip(op, row, newtext)
                    continue
                if not present and k != "dela":
                    skip(op, row, newtext)
                    continue
                if present:
                    at = "@%d" % [j for j, o in enumerate(p.config_objs.data) if o is obj][0]
            if k == "ins":
                p.config_objs.insert(op[1], payload(op, op[2])); changed = True
            elif k == "app":
                p.config_objs.append(op[1]); changed = True
            elif k == "pop":
                p.config_objs.pop(op[1]); changed = True
            elif k == "lib":
                p.config_objs.insert_before(exist_val=op[1], new_val=payload(op, op[2])); changed = True
            elif k == "lia":
                p.config_objs.insert_after(exist_val=op[1], new_val=payload(op, op[2])); changed = True
            elif k == "oib":
                obj.insert_before(payload(op, op[2])); changed = True
            elif k == "oia":
                obj.insert_after(payload(op, op[2])); changed = True
            elif k in ("del", "dela"):
                obj.delete(); changed = True
            elif k == "rem":
                p.config_objs.remove(obj); changed = True
            elif k == "atf":
                obj.append_to_family(payload(op, op[2]), indent=op[3], auto_indent=op[4]); changed = True
            elif k == "rep":
                obj.replace_text(op[2], op[3]); changed = True
            elif k == "sub":
                newtext = re.sub(op[2], op[3], obj.text)
                before = obj.text
                obj.re_sub(op[2], op[3])
                changed = newtext != before
            elif k == "commit":
                p.commit(); dirty = False
            elif k == "probe":
                if len(op) == 1:
                    res = p.find_objects("x")
                else:
                    res = do_search(p, op[1], committed[op[2] % len(committed)] if committed else None, op[3])
                if not dirty:
                    # an answer given on a committed state must be made of the objects of that commit
                    cur = {id(o) for o in p.config_objs.data}
                    if any(id(o) not in cur for o in line_objects_in(res, [])):
                        status = "ok-stale-objects"
            elif k == "insbi":
                p.config_objs.insert(BAD_VALUES[op[1]], op[2])
            elif k == "insbv":
                p.config_objs.insert(op[1], BAD_VALUES[op[2]])
            elif k == "libv":
                p.config_objs.insert_before(exist_val=op[1], new_val=BAD_VALUES[op[2]])
            elif k == "liav":
                p.config_objs.insert_after(exist_val=op[1], new_val=BAD_VALUES[op[2]])
            elif k == "rembv":
                p.config_objs.remove(BAD_VALUES[op[1]])
        except IndexError:
            status = "err:IndexError"
        except InvalidParameters:
            status = "err:InvalidParameters"
        except ConfigListItemDoesNotExist:
            status = "err:ConfigListItemDoesNotExist"
        except NotImplementedError:
            status = "err:NotImplementedError"
        except ValueError:
            status = "err:ValueError"
        except Exception as e:  # noqa: BLE001 — anything else is reported as the operation's outcome, for the oracle to judge
            status = "err:" + type(e).__name__
        if k == "sub" and newtext is None:
            newtext = ""
        if changed and status == "ok" and not auto:
            dirty = True
        if not dirty:
            committed = list(p.config_objs.data)
        enc.append(enc_op(op, row, newtext))
        out.append(status + at + "~" + dump(dirty))
    ds = T.cfg_delims(case["syntax"], case["delims"])
    req = wire.req("edit7x", "1" if case["syntax"] == "ios" else "0", wire.enc_str("".join(ds)),
                   "1" if case["ignore_blank"] else "0", "1" if auto else "0", str(width_for(case)),
                   wire.enc_strs(case["lines"]), *enc)
    return "#".join(out), req


# ------------------------------------------------------------------ generators
def rand_probe(rng):
    return ["probe", rng.choice(SEARCH_KINDS), rng.randrange(64), rng.randrange(N_VARIANTS)]


def rand_ops_x(rng, n, auto):
    """editlib's operations mixed with the extended ones"""
    ops = []
    for _ in range(n):
        r = rng.random()
        h = rng.randrange(64)
        txt = rng.choice(E.PAYLOADS)
        if r < 0.45:
            op = E.rand_ops(rng, 1, auto)[0]
            if op[0] in ("ins", "lib", "lia", "oib", "oia", "atf") and rng.random() < 0.3:
                op = op + ["obj"]
            ops.append(op)
        elif r < 0.55:
            ops.append(["rem", h])
        elif r < 0.62:
            ops.append(["dela", h])
        elif r < 0.84:
            ops.append(rand_probe(rng))
        elif r < 0.87:
            ops.append(["insbi", rng.choice(["none", "float", "str", "list"]), txt])
        elif r < 0.90:
            ops.append(["insbv", rng.choice([0, 1, -1, 99]), rng.choice(["none", "int", "list", "bytes"])])
        elif r < 0.94:
            ops.append([rng.choice(["libv", "liav"]), rng.choice(E.REGEXES[:6] + [""]), rng.choice(["none", "int", "list"])])
        elif r < 0.96:
            ops.append(["rembv", rng.choice(["none", "int", "str", "list"])])
        else:
            ops.append(["commit"])
        if not auto and rng.random() < 0.2:
            ops.append(["commit"])
    return ops


def stale_probe_history(rng):
    """auto_commit off: something that moves the checkpoint, a few operations that are not a commit, several searches of
    random kinds (must all refuse), an object removed meanwhile is deleted again, then commit and the same searches"""
    txt = rng.choice(E.PAYLOADS)
    first = (["ins", rng.choice([0, 1, 2, -1, 99]), txt] if rng.random() < 0.6
             else ["atf", rng.randrange(64), txt.lstrip() or "x", -1, True])
    ops = [first]
    for _ in range(rng.choice([0, 0, 1, 2])):
        ops.append(rng.choice([["pop", rng.choice([0, -1, 1])], ["app", rng.choice(E.PAYLOADS)], ["oia", rng.randrange(64), "x"],
                               ["rep", rng.randrange(64), "a", "z"], ["dela", rng.randrange(64)]]))
    probes = [rand_probe(rng) for _ in range(rng.choice([2, 3, 4]))]
    return ops + probes + [["commit"]] + probes


def blank_above_comment_case(rng):
    """ignore_blank_lines on; an edit leaves a blank / whitespace-only line directly above an INDENTED COMMENT, where it
    changes the 'line above is indented deeper' test of the comment exception until the commit drops it again"""
    k = rng.choice([1, 1, 2, 3])
    lines = [rng.choice(["interface X", "a", "router bgp 1"])]
    lines.append(" " * (k + rng.choice([0, 1, 2])) + rng.choice(["b", "deeper", "ip address 1.1.1.1 255.0.0.0"]))
    pos = len(lines)
    lines.append(" " * k + rng.choice(["! note", "!", "! c"]))
    for _ in range(rng.choice([0, 1, 2])):
        lines.append(" " * rng.choice([k, k + 1, 1]) + rng.choice(["c", "! d", "shutdown"]))
    blank = rng.choice(["", " ", " " * k, " " * (k + 1), " " * (k + 3)])
    edit = rng.choice([["ins", pos, blank], ["ins", pos, blank, "obj"], ["sub", pos - 1, r"^.*$", blank], ["oia", pos - 1, blank, "obj"],
                       ["lib", "^ *!", blank, "obj"], ["rep", pos - 1, lines[pos - 1], blank], ["oib", pos, blank, "obj"]])
    return lines, [edit]
