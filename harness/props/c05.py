"""C05 — typed value extraction returns the first match in family order, else the default."""
import ipaddress
import re

import wire
from props import treelib as T
from props.common import quiet_ccp

ID = "C05"
LEAN_MODULES = ["Ccp.Props.C05"]
RULE = ("one case = one parsed config (treelib's generators with line bodies swapped for a command vocabulary, random indentation "
        "trees of depth <= 4 with duplicate texts and comment/blank lines, the vendor fixtures in the thorough tier; x syntax x "
        "ignore_blank_lines x comment delimiters) x one regex out of 26 (1-3 groups, optional groups '(x)?', alternations whose "
        "groups do not all participate, named groups, a pattern without groups, patterns matching every line or the empty string, "
        "str and compiled patterns) x group index 0..3 (an index above the pattern's group count is kept: the real code raises "
        "IndexError as soon as a line matches and the model mirrors it) x 3-8 queries, each (line index biased to lines with "
        "children, op in re_match / re_match_typed / re_match_iter_typed / re_list_iter_typed / CiscoConfParse.re_match_iter_typed, "
        "result_type in str/int/float/IPv4Obj, recurse, default in None/str/int incl. texts no type accepts, untyped_default). "
        "The match density per config is drawn from {0, .15, .4, .8} so that the first match sits at self / child / grandchild / "
        "nowhere / several lines (see distribution). Oracle rows (group result per distinct line text) are computed with re.search "
        "directly; IPv4Obj rows by calling IPv4Obj directly. The oracle judges a query only when the requested group participated "
        "in every line it has to read, or nothing matched. non-trivial = some query on a line with children whose family contains a "
        "match; distinct by request. Not generated: invalid patterns, '_' digit separators and non-ASCII digits, lone surrogates, "
        "float/IPv4Obj defaults, ints beyond 2**32. "
        "Two extra streams outside the property's quantifier (about 1 in 6 and 1 in 8 of the random cases): (gd) groupdict= requests "
        "- 11 patterns with named groups, type dicts of 0-4 keys incl. a key that is no group name and type None, defaults that equal "
        "a captured text, ops re_match_iter_typed / re_list_iter_typed, both recurse values (bucket gd-defect counts the cases where "
        "the first child does not match but a later one does); (st) edit states - parse (auto_commit on/off), one ConfigList.insert "
        "at a boundary-biased index, optional commit, then the five ops on the objects of the last commit (on a stale state all five, "
        "CiscoConfParse.re_match_iter_typed included, must refuse). "
        "Generator blind spots closed with harness/covreport.py: about 1 in 8 gd queries passes a groupdict= that is neither None nor a dict "
        "(list / tuple of pairs, str, int, False, 0, [], set, a type), which both methods refuse with ValueError (model: gdDispatch); and half "
        "of ALL cases leave the keyword arguments that sit at their documented default (group=1, result_type=str, default='', "
        "untyped_default=False, recurse=True) out of the calls, so the defaults of the five signatures are observed, not only the bodies.")
LEVEL_TEXT = ("Theorems (Lean 4, all trees, all regex oracles, all IPv4 parsers): re_match_iter_typed returns result_type(group) of the "
              "first matching line of [self] + children (recurse=False) / [self] + all_children (recurse=True), and the default "
              "(converted iff not untyped_default) exactly when no line of that order matches; re_match_typed is the one-line variant "
              "with its unset-group -> default rule; re_list_iter_typed is the conversion mapped over the matching lines of the order, "
              "in order, failing at the first failing conversion; CiscoConfParse.re_match_iter_typed reads the root lines in config "
              "order. For every parsed config (no hypothesis; uses C03's parse_forest/allChildren_spec) the recursive order is proved "
              "to be the line followed by exactly its descendants (transitive closure of the parent link) in config order, each once "
              "(order_is_descendants), and the four statements are restated for parsed configs in those terms (*_parsed). "
              "The model is tied to the real methods by differential runs on every check. Outside the property's quantifier, modelled as "
              "the code is and measured the same way: the groupdict= path (iterDict_recurse; the defective recurse=False branch and the "
              "never-returning list variant as *_partial theorems; gdDispatch_spec: a groupdict that is neither None nor a dict is refused with ValueError) and the search_safe guard on Ccp.Edit states (stale_raises, "
              "stale_states, root_on_committed, root_guarded: the four object helpers AND the config-level CiscoConfParse.re_match_iter_typed raise "
              "NotImplementedError on every stale state and never read an uncommitted line -- the config-level method had no guard, "
              "finding FC07a, repaired in /repo; root_unguarded_partial is gone).")
LEVEL_NOTE = ("Trusted: Lean kernel; axioms propext/Classical.choice/Quot.sound only; the correspondence harness. Python's re and IPv4Obj "
              "are parameters of the model (universally quantified in the theorems, supplied per request by calling re / IPv4Obj "
              "directly); float() is represented by its argument text plus a hand-written recogniser of accepted texts. The tree "
              "facts come from C03's theorems about the shared tree model (Ccp.Tree.parse), whose agreement with the real parser is "
              "measured by C01-C03. groupdict= requests and stale-config requests are outside the property (it speaks of 'the requested "
              "capture group' of a parsed config): the oracle does not judge groupdict answers at all (correspondence only) and, for "
              "edit states, judges committed states like any parsed config and checks only that the guard fires on stale ones (for all five "
              "operations, the config-level one included, so dropping its guard again is a violation). The "
              "stale states exercised are parse + one ConfigList.insert (+ commit), through Ccp.Edit.step.")
ASSUMPTIONS = [
    "re.search / Match.group are an oracle Str -> noMatch | noGroup | unset | val s, fixed per (regex, group)",
    "IPv4Obj(x) is an opaque function of x (C11's subject)",
    "int()/float() texts use ASCII digits, no '_' separators",
    "plain and groupdict requests search right after parsing; stale configs are reached by one ConfigList.insert only",
]
TRUSTED = ["tree model Ccp.Tree.parse (validated by C01-C03's correspondence)", "float() acceptance recogniser (hand-written, measured)"]
EXHAUSTIVE = {"quick": False, "thorough": False}

# ------------------------------------------------------------------ vocabulary
VOCAB = [
    "interface Ethernet1", "interface Ethernet2", "interface Serial1/0",
    "ip address 1.1.1.1 255.255.255.0", "ip address 10.0.0.1/24", "ip address 172.16.1.5/32", "ip address dhcp",
    "ip address 300.1.1.1/24", "ip address 10.1.1.1/33", "ip address 10.0.0.9", "ip address 192.168.1.77/0",
    "mtu 1500", "mtu 9000", "mtu", "mtu x", "mtu 015", "speed 100", "speed auto",
    "delay 1.5", "delay .5", "delay 1e3", "delay 1.", "delay -2", "delay 1.2.3", "delay inf", "delay 2.50", "delay 1e", "delay nan",
    "bandwidth 10 20", "vlan 7", "vlan 007", "vlan +7", "vlan 7 8 9", "vlan", "vlan -3 4",
    "description x 5", "x", "ab1", "b2", "a", "ab", "no shutdown", "hostname R1", "router bgp 65000",
    "neighbor 10.0.0.2 remote-as 65001", "! comment 5", "!", "# mtu 3", "12", "0", "-5", "12 34 56", "été 9", "x(y 3",
]
FILLER = ["no shutdown", "exit", "x", "description none", "!", "end", "a b", "shutdown"]

REGEXES = [
    r"mtu (\d+)",
    r"^\s*mtu\s+(\S+)",
    r"(\w+) (\d+)",
    r"(\S+)\s+(\S+)\s*(\S+)?",
    r"ip address (\S+)(?: (\S+))?",
    r"ip address (\d+\.\d+\.\d+\.\d+)(/\d+)?",
    r"ip address ((\S+) (\S+))",
    r"(mtu|speed|delay) (\S+)",
    r"(?:vlan (\d+))|(?:mtu (\d+))",
    r"(a)?(b)?(\d)",
    r"(vlan|mtu)( [+-]?\d+)?( \d+)?",
    r"delay (\S+)",
    r"([-+]?\d+)",
    r"(\d*)",
    r"()",
    r"x*",
    r"interface (\S+?)(\d+)$",
    r"^(\S+)$",
    r"^ +(\S+)",
    r"^$",
    r"^!( \w+)?",
    r"(?P<key>\w+) (?P<num>\d+)",
    r"(\d+) (\d+) (\d+)",
    r"neighbor (\S+) remote-as (\d+)",
    r"nomatchatall(\d)",
    r"(\d+\.\d+\.\d+\.\d+(?:/\d+)?)",
]
DEFAULTS = [None, "", "", "x", "0", "-1", "1.5", "1.1.1.1", "10.0.0.1/8", "None", " 42 ", 0, -1, 7, 4294967295]
# defaults aimed at the boundary of what int() / float() accept (typed defaults go through result_type)
INT_DEFAULTS = ["+5", "-0", " 12", "12 ", "1 2", "0x1f", "1.0", "--1", "+-1", "+", "-", "007", "\t-7\n", "1e3", 10 ** 9]
FLOAT_DEFAULTS = ["1e5", "1.", ".", "e5", "+.5", "--1", "1_000.5", "1._5", "_1", "1__0", "infinity", "-INF", "+nan", "nani", "1e+", "1e+07",
                  "1E-3", "0x10", " 1.5 ", "1 .5", "1.5.", ".5e1", "5e", "-", "+", "1e5.0", "in", "Infinity", "1_0", "1_", "1e1_0", "1e_1"]
IP_DEFAULTS = ["1.1.1.1/24", "10.0.0.1 255.255.255.0", "dhcp", "1.1.1", "1.1.1.1/33", "256.1.1.1", " 1.2.3.4 ", 16909060]
TYPES = ["str", "int", "float", "ip"]
OPS = ["iter", "iter", "iter", "iter", "list", "list", "typed", "typed", "match", "root", "root"]


def enc_arg(v):
    if v is None:
        return "N"
    if isinstance(v, str):
        return "S" + wire.enc_str(v)
    assert type(v) is int
    return "I%d" % v


def group_row(pat, group, text):
    """the oracle row, computed with Python's re directly"""
    mm = re.search(pat, text)
    if mm is None:
        return "-"
    if group > pat.groups:
        return "x"
    s = mm.group(group)
    return "u" if s is None else wire.enc_str(s)


def ip_row(arg):
    quiet_ccp()
    from ciscoconfparse2.ccp_util import IPv4Obj
    try:
        return "o" + wire.enc_str(repr(IPv4Obj(arg)))
    except BaseException as e:  # noqa: BLE001
        return "e" + wire.enc_str(type(e).__name__)


def mk(syntax, ign, delims, lines, regex, compiled, group, queries, origin="gen"):
    """queries: list of dicts idx/op/ty/recurse/untyped/default"""
    pat = re.compile(regex)
    case = {
        "syntax": syntax, "factory": False, "ignore_blank": bool(ign), "delims": delims, "lines": list(lines),
        "regex": regex, "compiled": bool(compiled), "group": group, "queries": queries, "_origin": origin,
    }
    if not all(wire.wire_safe(l) for l in lines):
        case["req"] = None
        return case
    texts = sorted(set(lines))
    rows = [group_row(pat, group, t) for t in texts]
    ipargs = []
    if any(q["ty"] == "ip" for q in queries):
        seen = set()
        cands = [None] + [wire.dec_str(r) for r in rows if r.startswith("s")] + [q["default"] for q in queries if q["ty"] == "ip"]
        for a in cands:
            k = enc_arg(a)
            if k not in seen:
                seen.add(k)
                ipargs.append(a)
    qs = ["%d:%s:%s:%d:%d:%s" % (q["idx"], q["op"], q["ty"], q["recurse"], q["untyped"], enc_arg(q["default"])) for q in queries]
    ds = T.cfg_delims(syntax, delims)
    case["req"] = wire.req(
        "typed", "1" if syntax == "ios" else "0", wire.enc_str("".join(ds)), "1" if ign else "0",
        wire.enc_strs(lines), wire.enc_strs(texts), " ".join(rows),
        " ".join(enc_arg(a) for a in ipargs), " ".join(ip_row(a) for a in ipargs), " ".join(qs))
    return case


def from_corpus(c):
    return mk(c["syntax"], c.get("ignore_blank", False), c.get("delims"), c["lines"], c["regex"], c.get("compiled", False),
              c["group"], c["queries"], "corpus")


# ------------------------------------------------------------------ generators
def split_vocab(pat):
    hits = [w for w in VOCAB if pat.search(w)]
    miss = [w for w in VOCAB + FILLER if not pat.search(w)]
    return hits, miss


def pick_body(rng, hits, miss, density):
    if hits and rng.random() < density:
        return rng.choice(hits)
    if miss and rng.random() < 0.8:
        return rng.choice(miss if rng.random() < 0.5 else [w for w in FILLER if w in miss] or miss)
    return rng.choice(VOCAB)


def rand_tree(rng, hits, miss, density, n):
    """indentation tree of depth <= 4 (steps of 1 or 2 blanks), few distinct texts"""
    lines, d = [], 0
    step = rng.choice([1, 1, 2])
    small_h = rng.sample(hits, min(len(hits), 2)) if rng.random() < 0.4 else hits
    for _ in range(n):
        r = rng.random()
        if r < 0.04:
            lines.append(rng.choice(["", " ", "  "]))
            continue
        lines.append(" " * (d * step) + pick_body(rng, small_h, miss, density))
        d = min(4, rng.choice([0, d, d, d + 1, d + 1, max(0, d - 1), max(0, d - 2)]))
    return lines


def swap_bodies(rng, lines, hits, miss, density):
    out = []
    for l in lines:
        if l.strip() and rng.random() < 0.5:
            ind = l[: len(l) - len(l.lstrip())]
            out.append(ind + pick_body(rng, hits, miss, density))
        else:
            out.append(l)
    return out


def rand_queries(rng, lines, k):
    n = max(1, len(lines))
    parents = [i for i in range(len(lines) - 1)
               if lines[i].strip() and len(lines[i + 1]) - len(lines[i + 1].lstrip()) > len(lines[i]) - len(lines[i].lstrip())]
    qs = []
    for _ in range(k):
        if parents and rng.random() < 0.65:
            idx = rng.choice(parents)
        else:
            idx = rng.randrange(n + 1) if rng.random() < 0.05 else rng.randrange(n)
        ty = rng.choice(["str", "str", "int", "int", "float", "ip"])
        pool = DEFAULTS
        if rng.random() < 0.4:
            pool = {"str": DEFAULTS, "int": INT_DEFAULTS, "float": FLOAT_DEFAULTS, "ip": IP_DEFAULTS}[ty]
        qs.append({
            "idx": idx, "op": rng.choice(OPS), "ty": ty,
            "recurse": int(rng.random() < 0.5), "untyped": int(rng.random() < 0.3), "default": rng.choice(pool),
        })
    return qs


def skeleton(rng, n):
    """depths of an indentation tree (<= 4) and the parent of every line by the indentation rule"""
    ds, d = [], 0
    for _ in range(n):
        ds.append(d)
        d = min(4, rng.choice([0, d, d, d + 1, d + 1, d + 1, d + 1, max(0, d - 1), max(0, d - 2)]))
    par = []
    for j, dj in enumerate(ds):
        k = j - 1
        while k >= 0 and ds[k] >= dj:
            k -= 1
        par.append(k if k >= 0 else j)
    return ds, par


PLACEMENTS = ["self", "child", "self+child", "late-child", "none", "all", "other-family", "child", "grandchild", "grandchild", "grandchild", "child+grandchild"]


def placed_tree(rng, hits, miss, n):
    """a tree with the matching lines put at a chosen position relative to a focus line; returns (lines, focus)"""
    ds, par = skeleton(rng, n)
    step = rng.choice([1, 1, 2])
    owners = [j for j in range(n) if any(par[k] == j and k != j for k in range(n))]
    focus = rng.choice(owners) if owners else rng.randrange(n)
    desc = []
    for j in range(n):
        k = j
        while par[k] != k:
            k = par[k]
            if k == focus:
                desc.append(j)
                break
    kids = [j for j in desc if par[j] == focus]
    deep = [j for j in desc if par[j] != focus]
    mode = rng.choice(PLACEMENTS if deep else PLACEMENTS[:8])
    where = set()
    if mode in ("self", "self+child"):
        where.add(focus)
    if mode in ("child", "child+grandchild", "self+child") and kids:
        where.add(rng.choice(kids))
    if mode in ("grandchild", "child+grandchild") and deep:
        where.update(rng.sample(deep, min(len(deep), rng.choice([1, 1, 2]))))
    if mode == "late-child" and kids:
        where.add(kids[-1])
        if deep:
            where.add(deep[-1])
    if mode == "all":
        where.update(desc + [focus])
    if mode == "other-family":
        where.update(j for j in range(n) if j != focus and j not in desc and rng.random() < 0.6)
    few = rng.sample(hits, min(len(hits), rng.choice([1, 2, 4]))) if hits else []
    fill = rng.sample(miss, min(len(miss), rng.choice([1, 2, 6]))) if miss else VOCAB
    lines = []
    for j in range(n):
        body = rng.choice(few) if (j in where and few) else rng.choice(fill)
        lines.append(" " * (ds[j] * step) + body)
    if rng.random() < 0.15:
        lines.insert(rng.randrange(n + 1), rng.choice(["", " ", "   "]))     # shifts the focus index at most by one
    return lines, focus


def rand_case(rng):
    regex = rng.choice(REGEXES)
    pat = re.compile(regex)
    hits, miss = split_vocab(pat)
    density = rng.choice([0.0, 0.15, 0.15, 0.4, 0.4, 0.8])
    delims = rng.choice(T.DELIM_SETS)
    syntax = rng.choice(T.SYNTAXES)
    ign = rng.random() < 0.25
    focus = None
    r = rng.random()
    if r < 0.5:
        lines, focus = placed_tree(rng, hits, miss, rng.choice([3, 4, 6, 8, 10, 12, 16]))
    elif r < 0.8:
        lines = rand_tree(rng, hits, miss, density, rng.choice([1, 2, 3, 5, 8, 12, 16]))
    else:
        lines = swap_bodies(rng, T.rand_config(rng, 12, True, delims), hits, miss, density)
    if not lines:
        lines = [rng.choice(VOCAB)]
    if rng.random() < 0.88:
        g = rng.choice([x for x in [1, 1, 1, 2, 2, 3, 0] if x <= pat.groups])
    else:
        g = rng.randint(0, 4)
    qs = rand_queries(rng, lines, rng.choice([3, 5, 8]))
    if focus is not None:
        for q, op in zip(qs, ["iter", "list", "iter"]):
            q["idx"], q["op"] = focus, op
        qs[0]["recurse"] = qs[1]["recurse"] = int(rng.random() < 0.7)
        qs[2]["recurse"] = 1 - qs[0]["recurse"]
    return mk(syntax, ign, delims, lines, regex, rng.random() < 0.2, g, qs)


FIXTURE_RX = [r"ip address (\S+) (\S+)", r"^interface (\S+?)(\d\S*)?$", r"description (.*)", r"(?:mtu|speed|bandwidth) (\d+)",
              r"(\d+\.\d+\.\d+\.\d+(?:/\d+)?)", r"^hostname (\S+)", r"vlan (\d+)(,\d+)?"]


def literal_stream(maxlen):
    """every text up to `maxlen` over a small alphabet as a typed default of a query on a line that does not match:
    exhaustive differential test of the model's int()/float() acceptance (no '_' for int: the model's int() has none)"""
    import itertools
    for ty, alphabet in (("float", "1_.e+- n"), ("int", "10+-. a")):
        texts = [""]
        for n in range(1, maxlen + 1):
            texts += ["".join(t) for t in itertools.product(alphabet, repeat=n)]
        for k in range(0, len(texts), 60):
            qs = [{"idx": 0, "op": "typed", "ty": ty, "recurse": 0, "untyped": 0, "default": d} for d in texts[k:k + 60]]
            yield mk("ios", False, None, ["x"], r"nomatchatall(\d)", False, 1, qs, "literals")


def cases(rng, tier):
    """half of the cases leave the keyword arguments that sit at their documented default (group=1, result_type=str,
    default='', untyped_default=False, recurse=True) out of the calls"""
    orng = __import__("random").Random(rng.random())
    for c in _cases(rng, tier):
        c["omit"] = orng.random() < 0.5
        yield c


def _cases(rng, tier):
    T.selfcheck()
    if tier != "search":
        yield from literal_stream(4 if tier == "quick" else 5)
    n = {"quick": 2600, "thorough": 60000, "search": 3000}[tier]
    if tier == "thorough":
        for name, lines in T.fixture_configs():
            if len(lines) > 400:
                continue
            for regex in FIXTURE_RX:
                yield mk("ios", False, None, lines, regex, False, rng.choice([1, 1, 2]), rand_queries(rng, lines, 12), "fixture:" + name)
    for k in range(n):
        yield rand_case(rng)
        if k % 6 == 0:
            yield rand_gd_case(rng)
        if k % 8 == 0:
            yield rand_st_case(rng)


def neighbours(case, rng):
    if case.get("kind", "plain") != "plain":
        return
    for _ in range(200):
        ls = list(case["lines"])
        qs = [dict(q) for q in case["queries"]]
        r = rng.random()
        if len(ls) > 1 and r < 0.4:
            del ls[rng.randrange(len(ls))]
        elif r < 0.7:
            ls.insert(rng.randrange(len(ls) + 1), " " * rng.randrange(4) + rng.choice(VOCAB))
        else:
            q = rng.choice(qs)
            q["idx"] = rng.randrange(len(ls))
            q["recurse"] = 1 - q["recurse"]
        yield mk(case["syntax"], case["ignore_blank"], case["delims"], ls, case["regex"], case["compiled"], case["group"], qs)


# ------------------------------------------------------------------ implementation
def enc_val(v):
    if v is None:
        return "N"
    if type(v) is str:
        return "S" + wire.enc_str(v)
    if type(v) is int:
        return "I%d" % v
    if type(v) is float:
        return "F" + wire.enc_str(repr(v))
    if type(v).__name__ == "IPv4Obj":
        return "P" + wire.enc_str(repr(v))
    if type(v) is list:
        return "L" + ",".join(enc_val(x) for x in v)
    raise AssertionError("unexpected value %r" % (v,))


DOC_DEFAULTS = {"group": 1, "result_type": str, "default": "", "untyped_default": False, "recurse": True}


def call_kw(case, **full):
    """the keyword arguments of one call; when the case says `omit`, those that sit at their documented default are
    left out of the call, so the defaults of the signatures are observed too"""
    if not case.get("omit"):
        return full
    return {k: v for k, v in full.items() if not (type(v) is type(DOC_DEFAULTS[k]) and v == DOC_DEFAULTS[k])}


def _impl_plain(case):
    quiet_ccp()
    from ciscoconfparse2.ccp_util import IPv4Obj
    try:
        p = T.parse_impl(case)
    except BaseException as e:  # noqa: BLE001
        return "err:" + type(e).__name__
    tys = {"str": str, "int": int, "float": float, "ip": IPv4Obj}
    regex = re.compile(case["regex"]) if case["compiled"] else case["regex"]
    objs = list(p.objs)
    out = []
    for q in case["queries"]:
        rt = tys[q["ty"]]
        kw = call_kw(case, group=case["group"], result_type=rt, default=q["default"], untyped_default=bool(q["untyped"]))
        try:
            if q["op"] == "root":
                v = p.re_match_iter_typed(regex, **kw)
            elif q["idx"] >= len(objs):
                out.append("oob")
                continue
            else:
                o = objs[q["idx"]]
                if q["op"] == "match":
                    v = o.re_match(regex, **call_kw(case, group=case["group"], default=q["default"]))
                elif q["op"] == "typed":
                    v = o.re_match_typed(regex, **kw)
                elif q["op"] == "iter":
                    v = o.re_match_iter_typed(regex, **call_kw(case, recurse=bool(q["recurse"])), **kw)
                elif q["op"] == "list":
                    v = o.re_list_iter_typed(regex, **call_kw(case, group=case["group"], result_type=rt, recurse=bool(q["recurse"])))
                else:
                    raise AssertionError(q["op"])
            out.append(enc_val(v))
        except AssertionError:
            raise
        except Exception as e:  # noqa: BLE001
            out.append("err:" + type(e).__name__)
    return "|".join(out) + "&" + wire.enc_strs([o.text for o in objs]) + "|" + T.lnums([o.parent for o in objs])


def _norm_item(w):
    if w.startswith("F"):
        try:
            return "F" + wire.enc_str(repr(float(wire.dec_str(w[1:]))))
        except ValueError:
            return "F?" + w
    return w


def _norm_token(tok):
    k = 0
    while k < len(tok) and tok[k] in "LD":
        k += 1
    return tok[:k] + _norm_item(tok[k:])


def compare(case, impl_ans, model_ans):
    """equal up to the representation of float results: the model answers with the text handed to float(),
    the implementation with a float; both are brought to repr(float(text)) (strings, never floats, are compared)"""
    if "&" not in model_ans or "&" not in impl_ans:
        return impl_ans == model_ans
    res, tree = model_ans.split("&", 1)
    toks = re.split(r"([|,;])", res)
    return "".join(t if t in "|,;" or t.startswith("err:") else _norm_token(t) for t in toks) + "&" + tree == impl_ans


# ------------------------------------------------------------------ oracle (independent of the Lean model)
SKIP = object()
STRICT_IP = re.compile(r"^\d+\.\d+\.\d+\.\d+(/\d+)?$")


def ref_conv(ty, x):
    """the requested type applied by Python itself (ipaddress for IPv4Obj); SKIP = outside what is judged"""
    try:
        if ty == "str":
            return "S" + wire.enc_str(str(x))
        if ty == "int":
            return "I%d" % int(x)
        if ty == "float":
            return "F" + wire.enc_str(repr(float(x)))
    except (TypeError, ValueError) as e:
        return "err:" + type(e).__name__
    if ty == "ip":
        if not isinstance(x, str) or not STRICT_IP.match(x):
            return SKIP
        try:
            i = ipaddress.IPv4Interface(x)
        except ValueError:
            return SKIP
        return "P" + wire.enc_str("<IPv4Obj %s/%d>" % (i.ip, i.network.prefixlen))
    raise AssertionError(ty)


def parse_ans(ans):
    res, tree = ans.split("&", 1)
    texts_w, parents_w = tree.split("|")
    texts = wire.dec_strs(texts_w)
    parents = [int(x) for x in parents_w.split(",")] if parents_w else []
    return res.split("|"), texts, parents


def family(parents, i, recurse):
    """the documented order, from the implementation's own parent links"""
    n = len(parents)
    if not recurse:
        return [i] + [j for j in range(n) if j != i and parents[j] == i]
    out = [i]
    for j in range(n):
        k, seen = j, 0
        while parents[k] != k and seen <= n:
            k = parents[k]
            seen += 1
            if k == i:
                out.append(j)
                break
    return out


def expectation(case, q, texts, parents):
    """(expected answer | SKIP, info) for one query"""
    pat = re.compile(case["regex"])
    g = case["group"]
    op = q["op"]
    if op == "root":
        order = [j for j in range(len(parents)) if parents[j] == j]
    elif q["idx"] >= len(texts):
        return "oob"
    elif op in ("match", "typed"):
        order = [q["idx"]]
    else:
        order = family(parents, q["idx"], bool(q["recurse"]))
    ms = [(j, pat.search(texts[j])) for j in order]
    ms = [(j, m) for j, m in ms if m is not None]
    if op == "list":
        if g > pat.groups and ms:
            return SKIP
        out = []
        for j, m in ms:
            if m.group(g) is None:
                return SKIP
            v = ref_conv(q["ty"], m.group(g))
            if v is SKIP:
                return SKIP
            if v.startswith("err:"):
                return v
            out.append(v)
        return "L" + ",".join(out)
    if not ms:
        if op == "match" or q["untyped"]:
            d = q["default"]
            return "N" if d is None else ("S" + wire.enc_str(d) if isinstance(d, str) else "I%d" % d)
        return ref_conv(q["ty"], q["default"])
    if g > pat.groups:
        return SKIP
    s = ms[0][1].group(g)
    if s is None:
        return SKIP
    if op == "match":
        return "S" + wire.enc_str(s)
    return ref_conv(q["ty"], s)


def _oracle_plain(case, ans):
    if "&" not in ans:
        return [f"parse raised {ans}"]
    res, texts, parents = parse_ans(ans)
    fails = []
    for q, got in zip(case["queries"], res):
        want = expectation(case, q, texts, parents)
        if want is SKIP:
            continue
        if got != want:
            fails.append("%s(line %d, %r, group=%d, type=%s, recurse=%d, default=%r, untyped=%d) returned %s, expected %s" % (
                q["op"], q["idx"], case["regex"], case["group"], q["ty"], q["recurse"], q["default"], q["untyped"],
                show(got), show(want)))
    return fails[:3]


def show(w):
    if w[:1] in "SFP" and w[1:2] == "s":
        return w[0] + ":" + repr(wire.dec_str(w[1:]))
    return w


# ------------------------------------------------------------------ evidence
def _indent(l):
    return len(l) - len(l.lstrip())


def _nontrivial_plain(case):
    pat = re.compile(case["regex"])
    ls = case["lines"]
    if not any(pat.search(l) for l in ls):
        return False
    for q in case["queries"]:
        i = q["idx"]
        if q["op"] in ("iter", "list") and i + 1 < len(ls) and ls[i].strip() and _indent(ls[i + 1]) > _indent(ls[i]):
            return True
    return False


def _describe_plain(case):
    d = {k: case[k] for k in ("syntax", "ignore_blank", "delims", "regex", "compiled", "group", "queries")}
    d["lines"] = case["lines"] if len(case["lines"]) <= 30 else "%d lines (%s)" % (len(case["lines"]), case.get("_origin"))
    return d


def _buckets_plain(case, ans):
    out = ["regex:%02d" % REGEXES.index(case["regex"]) if case["regex"] in REGEXES else "regex:fixture",
           "group:%d" % case["group"], "len:%d" % min(20, len(case["lines"]))]
    if "&" not in ans:
        return out + ["answer:" + ans[:30]]
    res, texts, parents = parse_ans(ans)
    pat = re.compile(case["regex"])
    depth = []
    for j in range(len(parents)):
        k, d = j, 0
        while parents[k] != k and d < 50:
            k, d = parents[k], d + 1
        depth.append(d)
    out.append("depth:%d" % (max(depth) if depth else 0))
    for q, got in zip(case["queries"], res):
        out += ["op:" + q["op"], "type:" + q["ty"]]
        out.append("result:" + (got if got.startswith("err:") or got == "oob" else got[:1]))
        if got == "oob":
            continue
        if q["op"] in ("iter", "list"):
            out.append("recurse:%d" % q["recurse"])
            order = family(parents, q["idx"], bool(q["recurse"]))
            out.append("family:%d" % min(9, len(order)))
        elif q["op"] == "root":
            order = [j for j in range(len(parents)) if parents[j] == j]
        else:
            order = [q["idx"]]
        if q["op"] != "list":
            out.append("untyped:%d" % q["untyped"])
        hit = [j for j in order if pat.search(texts[j])]
        out.append("matches:%s" % ("0" if not hit else "1" if len(hit) == 1 else "2+"))
        if q["op"] in ("iter", "list"):
            if not hit:
                out.append("first:none")
            elif hit[0] == q["idx"]:
                out.append("first:self")
            else:
                rel = depth[hit[0]] - depth[q["idx"]]
                out.append("first:child" if rel == 1 else "first:grandchild+")
        if hit:
            if case["group"] > pat.groups:
                out.append("group:out-of-range")
            else:
                out.append("group:unset" if pat.search(texts[hit[0]]).group(case["group"]) is None else "group:participated")
        want = expectation(case, q, texts, parents)
        out.append("judged:%d" % (want is not SKIP))
    return out


# ================================================================== outside the property's quantifier
# (a) the groupdict= path, (b) the search_safe guard on a stale config.  Correspondence only for (a); for (b) the oracle
# judges committed states like any parsed config and checks that the guard fires on stale ones.
GD_REGEXES = [
    r"(?P<key>\w+) (?P<num>\d+)",
    r"mtu (?P<m>\d+)",
    r"ip address (?P<addr>\S+)(?: (?P<mask>\S+))?",
    r"(?:vlan (?P<v>\d+))|(?:mtu (?P<m>\d+))",
    r"(?P<a>a)?(?P<b>b)?(?P<d>\d)",
    r"delay (?P<x>\S+)",
    r"(?P<all>.*)",
    r"^(?P<w>\S+)$",
    r"nomatchatall(?P<z>\d)",
    r"(?P<n>\d*)",
    r"(mtu|speed) (?P<val>\S+)",
]
KEY_TYPES = ["str", "int", "int", "float", "ip", "none"]


def gd_row(pat, keys, text):
    mm = pat.search(text)
    if mm is None:
        return "-"
    out = []
    for k in keys:
        if k not in pat.groupindex:
            out.append("x")
        else:
            v = mm.group(k)
            out.append("u" if v is None else wire.enc_str(v))
    return "+" + ";".join(out)


def mk_gd(syntax, ign, delims, lines, regex, keys, queries, origin="gen"):
    """keys: list of [name, type]; queries: idx/op(diter|dlist)/recurse/default"""
    pat = re.compile(regex)
    case = {"kind": "gd", "syntax": syntax, "factory": False, "ignore_blank": bool(ign), "delims": delims, "lines": list(lines),
            "regex": regex, "keys": keys, "queries": queries, "_origin": origin}
    if not all(wire.wire_safe(l) for l in lines):
        case["req"] = None
        return case
    texts = sorted(set(lines))
    names = [k for k, _ in keys]
    rows = [gd_row(pat, names, t) for t in texts]
    ipargs, seen = [], set()
    if any(t == "ip" for _, t in keys):
        vals = []
        for r in rows:
            if r.startswith("+") and len(r) > 1:
                vals += [wire.dec_str(x) for x in r[1:].split(";") if x.startswith("s")]
        for a in [None] + vals + [q["default"] for q in queries]:
            k = enc_arg(a)
            if k not in seen:
                seen.add(k)
                ipargs.append(a)
    qs = ["%d:%s:%d:%s" % (q["idx"], q["op"], q["recurse"], enc_arg(q["default"])) for q in queries]
    ds = T.cfg_delims(syntax, delims)
    case["req"] = wire.req(
        "typed", "gd", "1" if syntax == "ios" else "0", wire.enc_str("".join(ds)), "1" if ign else "0",
        wire.enc_strs(lines), wire.enc_strs(texts), " ".join(rows), " ".join(t for _, t in keys),
        " ".join(enc_arg(a) for a in ipargs), " ".join(ip_row(a) for a in ipargs), " ".join(qs))
    return case


def rand_gd_case(rng):
    regex = rng.choice(GD_REGEXES)
    pat = re.compile(regex)
    hits, miss = split_vocab(pat)
    names = list(pat.groupindex)
    rng.shuffle(names)
    names = names[: rng.choice([1, 1, 2, 3])]
    if rng.random() < 0.2:
        names.insert(rng.randrange(len(names) + 1), "absent")
    if rng.random() < 0.03:
        names = []
    keys = [[k, rng.choice(KEY_TYPES)] for k in names]
    if rng.random() < 0.6:
        lines, focus = placed_tree(rng, hits, miss, rng.choice([3, 4, 6, 8, 12]))
    else:
        lines, focus = rand_tree(rng, hits, miss, rng.choice([0.15, 0.4, 0.8]), rng.choice([1, 2, 3, 5, 8, 12])), None
    # defaults: the usual pool, and texts that EQUAL a captured group (`v != default` then skips the conversion)
    caps = []
    for l in lines:
        mm = pat.search(l)
        if mm:
            caps += [v for v in mm.groupdict().values() if v is not None]
    qs = []
    for k in range(rng.choice([3, 5, 8])):
        idx = focus if (focus is not None and k < 3) else rng.randrange(max(1, len(lines)))
        d = rng.choice(caps) if (caps and rng.random() < 0.25) else rng.choice(DEFAULTS)
        qs.append({"idx": idx, "op": rng.choice(["diter", "diter", "diter", "dlist"]), "recurse": int(rng.random() < 0.5), "default": d})
        if rng.random() < 0.12:                  # groupdict= neither None nor a dict: refused with ValueError
            qs[-1].update(op=rng.choice(["biter", "blist"]), bad=rng.choice(BAD_GROUPDICTS))
    return mk_gd(rng.choice(T.SYNTAXES), rng.random() < 0.2, rng.choice(T.DELIM_SETS), lines, regex, keys, qs)


def mk_st(syntax, ign, delims, lines, auto, ins_k, ins_text, commit, regex, group, queries, origin="gen"):
    from props.editlib import width_of
    pat = re.compile(regex)
    case = {"kind": "st", "syntax": syntax, "factory": False, "ignore_blank": bool(ign), "delims": delims, "lines": list(lines),
            "auto_commit": bool(auto), "ins_k": ins_k, "ins_text": ins_text, "commit": bool(commit),
            "regex": regex, "compiled": False, "group": group, "queries": queries, "_origin": origin}
    if not all(wire.wire_safe(l) for l in list(lines) + [ins_text]):
        case["req"] = None
        return case
    texts = sorted(set(list(lines) + [ins_text]))
    rows = [group_row(pat, group, t) for t in texts]
    ipargs, seen = [], set()
    if any(q["ty"] == "ip" for q in queries):
        for a in [None] + [wire.dec_str(r) for r in rows if r.startswith("s")] + [q["default"] for q in queries if q["ty"] == "ip"]:
            k = enc_arg(a)
            if k not in seen:
                seen.add(k)
                ipargs.append(a)
    qs = ["%d:%s:%s:%d:%d:%s" % (q["idx"], q["op"], q["ty"], q["recurse"], q["untyped"], enc_arg(q["default"])) for q in queries]
    ds = T.cfg_delims(syntax, delims)
    case["req"] = wire.req(
        "typed", "st", "1" if syntax == "ios" else "0", wire.enc_str("".join(ds)), "1" if ign else "0",
        "1" if auto else "0", str(width_of(syntax)), wire.enc_strs(lines), str(ins_k), wire.enc_str(ins_text), "1" if commit else "0",
        wire.enc_strs(texts), " ".join(rows), " ".join(enc_arg(a) for a in ipargs), " ".join(ip_row(a) for a in ipargs), " ".join(qs))
    return case


def rand_st_case(rng):
    regex = rng.choice(REGEXES)
    pat = re.compile(regex)
    hits, miss = split_vocab(pat)
    lines = rand_tree(rng, hits, miss, rng.choice([0.15, 0.4, 0.8]), rng.choice([1, 2, 3, 5, 8, 12]))
    ins_text = " " * rng.choice([0, 0, 1, 2]) + (rng.choice(hits) if hits and rng.random() < 0.6 else rng.choice(VOCAB))
    if rng.random() < 0.05:
        ins_text = rng.choice(["", " "])
    ins_k = rng.choice([0, 0, 1, len(lines), len(lines) + 3, -1, -2, -len(lines) - 2, rng.randrange(len(lines) + 1)])
    g = rng.choice([x for x in [1, 1, 2, 3, 0] if x <= pat.groups])
    qs = rand_queries(rng, lines + [ins_text], rng.choice([3, 5, 8]))
    return mk_st(rng.choice(T.SYNTAXES), rng.random() < 0.2, rng.choice(T.DELIM_SETS), lines, rng.random() < 0.4, ins_k, ins_text,
                 rng.random() < 0.3, regex, g, qs)


BAD_GROUPDICTS = ["pairs", "tuple", "str", "int", "false", "zero", "empty-list", "set", "type"]


def bad_groupdict(kind, td):
    """a `groupdict=` that is neither None nor a dict"""
    return {"pairs": list(td.items()), "tuple": tuple(td.items()), "str": "m", "int": 1, "false": False, "zero": 0,
            "empty-list": [], "set": set(td), "type": dict}[kind or "pairs"]


def _impl_gd(case):
    quiet_ccp()
    from ciscoconfparse2.ccp_util import IPv4Obj
    try:
        p = T.parse_impl(case)
    except BaseException as e:  # noqa: BLE001
        return "err:" + type(e).__name__
    tys = {"str": str, "int": int, "float": float, "ip": IPv4Obj, "none": None}
    td = {k: tys[t] for k, t in case["keys"]}
    assert len(td) == len(case["keys"])
    objs = list(p.objs)
    out = []
    for q in case["queries"]:
        if q["idx"] >= len(objs):
            out.append("oob")
            continue
        o = objs[q["idx"]]
        try:
            gd = dict(td) if q["op"] in ("diter", "dlist") else bad_groupdict(q.get("bad"), td)
            if q["op"] in ("diter", "biter"):
                v = o.re_match_iter_typed(case["regex"], groupdict=gd, **call_kw(case, default=q["default"], recurse=bool(q["recurse"])))
                assert list(v.keys()) == list(td.keys())
                out.append("D" + ",".join(enc_val(x) for x in v.values()))
            else:
                v = o.re_list_iter_typed(case["regex"], groupdict=gd, **call_kw(case, recurse=bool(q["recurse"])))
                out.append("L" + ";".join("D" + ",".join(enc_val(x) for x in d.values()) for d in v))
        except AssertionError:
            raise
        except Exception as e:  # noqa: BLE001
            out.append("err:" + type(e).__name__)
    return "|".join(out) + "&" + wire.enc_strs([o.text for o in objs]) + "|" + T.lnums([o.parent for o in objs])


def _impl_st(case):
    quiet_ccp()
    from ciscoconfparse2.ccp_util import IPv4Obj
    try:
        p = T.parse_impl(case)
        old = list(p.objs)
        p.config_objs.insert(case["ins_k"], case["ins_text"])
        if case["commit"]:
            p.commit()
    except BaseException as e:  # noqa: BLE001
        return "err:" + type(e).__name__
    stale = not p.config_objs.search_safe
    objs = old if stale else list(p.objs)       # the objects of the last commit
    tys = {"str": str, "int": int, "float": float, "ip": IPv4Obj}
    out = []
    for q in case["queries"]:
        rt = tys[q["ty"]]
        kw = call_kw(case, group=case["group"], result_type=rt, default=q["default"], untyped_default=bool(q["untyped"]))
        try:
            if q["op"] == "root":
                v = p.re_match_iter_typed(case["regex"], **kw)
            elif q["idx"] >= len(objs):
                out.append("oob")
                continue
            else:
                o = objs[q["idx"]]
                if q["op"] == "match":
                    v = o.re_match(case["regex"], **call_kw(case, group=case["group"], default=q["default"]))
                elif q["op"] == "typed":
                    v = o.re_match_typed(case["regex"], **kw)
                elif q["op"] == "iter":
                    v = o.re_match_iter_typed(case["regex"], **call_kw(case, recurse=bool(q["recurse"])), **kw)
                else:
                    v = o.re_list_iter_typed(case["regex"], **call_kw(case, group=case["group"], result_type=rt, recurse=bool(q["recurse"])))
            out.append(enc_val(v))
        except Exception as e:  # noqa: BLE001
            out.append("err:" + type(e).__name__)
    pos = {id(o): k for k, o in enumerate(objs)}
    return ("|".join(out) + "&" + ("1" if stale else "0") + "&" + wire.enc_strs([o.text for o in objs]) + "|"
            + wire.enc_nats([pos[id(o.parent)] for o in objs]))


def impl(case):
    return {"plain": _impl_plain, "gd": _impl_gd, "st": _impl_st}[case.get("kind", "plain")](case)


def _oracle_st(case, ans):
    if ans.count("&") != 2:
        return [f"parse/insert raised {ans}"]
    res_w, stale, tree = ans.split("&")
    fails = []
    if stale == "1":
        # the seatbelt: every object helper of a committed object and the config-level method refuse to answer on a stale config
        for q, got in zip(case["queries"], res_w.split("|")):
            # (the config-level CiscoConfParse.re_match_iter_typed included: it has the guard since the repair of FC07a)
            if got not in ("oob", "err:NotImplementedError"):
                fails.append("%s on a stale config answered %s" % (q["op"], show(got)))
        return fails[:3]
    return _oracle_plain(case, res_w + "&" + tree)


def oracle(case, ans):
    kind = case.get("kind", "plain")
    if kind == "gd":
        return [] if "&" in ans else [f"parse raised {ans}"]      # outside the property: correspondence only
    if kind == "st":
        return _oracle_st(case, ans)
    return _oracle_plain(case, ans)


def nontrivial(case):
    kind = case.get("kind", "plain")
    if kind == "plain":
        return _nontrivial_plain(case)
    pat = re.compile(case["regex"])
    return any(pat.search(l) for l in case["lines"]) and any(l[:1] == " " for l in case["lines"])


def describe(case):
    kind = case.get("kind", "plain")
    if kind == "plain":
        return _describe_plain(case)
    keys = ("kind", "syntax", "ignore_blank", "delims", "lines", "regex", "queries") + (
        ("keys",) if kind == "gd" else ("auto_commit", "ins_k", "ins_text", "commit", "group"))
    return {k: case[k] for k in keys}


def buckets(case, ans):
    kind = case.get("kind", "plain")
    if kind == "plain":
        return ["kind:plain"] + _buckets_plain(case, ans)
    out = ["kind:" + kind]
    if "&" not in ans:
        return out + ["answer:" + ans[:30]]
    parts = ans.split("&")
    res = parts[0].split("|")
    if kind == "st":
        out.append("st:stale" if parts[1] == "1" else ("st:auto-commit" if case["auto_commit"] else "st:committed" if case["commit"] else "st:?"))
    for q, got in zip(case["queries"], res):
        out.append(kind + "-op:" + q["op"] + (":recurse%d" % q["recurse"] if kind == "gd" else ""))
        out.append(kind + "-result:" + (got if got.startswith("err:") or got == "oob" else got[:1]))
    if kind == "gd":
        out.append("gd-keys:%d" % len(case["keys"]))
        out += ["gd-type:" + t for _, t in case["keys"]]
        # the recurse=False defect: first child does not match but a later child does
        texts = wire.dec_strs(parts[1].split("|")[0])
        parents = [int(x) for x in parts[1].split("|")[1].split(",")] if texts else []
        pat = re.compile(case["regex"])
        for q in case["queries"]:
            if q["op"] == "diter" and not q["recurse"] and q["idx"] < len(texts) and not pat.search(texts[q["idx"]]):
                kids = [j for j in range(len(texts)) if j != q["idx"] and parents[j] == q["idx"]]
                if kids and not pat.search(texts[kids[0]]) and any(pat.search(texts[j]) for j in kids[1:]):
                    out.append("gd-defect:later-child-ignored")
    return out


# ================================================================== typed defaults (kind `tx`) and two live instances (`pair`)
# Appended as wrappers around the functions above, so that the older streams and their seeds stay as they were.
#
# (tx) Python compares 0 == False == 0.0, 1 == True == 1.0, 1500 == 1500.0, -1 == -1.0 (equal hashes too), but
# result_type(default) depends on the TYPE of the default (str(1500.0) == '1500.0', str(False) == 'False') and an untyped
# default comes back as the object it is.  A tx case asks SEVERAL extractions back to back in one impl() call, mostly on
# lines where nothing matches, with defaults that walk through such an equality class for one result type -- a conversion
# memo keyed without the type answers the second one with the first one's conversion.  Model: Ccp.Model.TypedX, channel
# `typedx` (float and bool defaults; a float is sent by its positional repr, asserted exact).
#
# (pair) two configs from one template, BOTH parsed first, then the same typed extractions on corresponding lines of A,
# then B, then A again; each judged for the instance it was asked of and compared with the model's answer for that
# instance alone (see props/pairlib.py).
from props import pairlib as PL  # noqa: E402

EQUAL_CLASSES = [[0, False, 0.0, -0.0], [1, True, 1.0], [1500, 1500.0], [-1, -1.0], [7, 7.0], [65535, 65535.0], ["", None]]
TYPED_MENU = [0, False, 0.0, 1, True, 1.0, 1500, 1500.0, -1, -1.0, "", None]
MENU_EXTRA = [-0.0, 0.5, 2.25, 7, 7.0, "0", "1", "1500", "1500.0", "True", "False", "-1", "1.0", "0.0", 65535, 65535.0]
FLOAT_TEXT = re.compile(r"^-?\d+\.\d+$")


def enc_arg_x(v):
    if type(v) is bool:
        return "B1" if v else "B0"
    if type(v) is float:
        r = repr(v)
        assert FLOAT_TEXT.match(r) and float(r) == v, r      # positional and exact: what the model's ArgX.float stands for
        return "F" + r
    return enc_arg(v)


def enc_val_x(v):
    if type(v) is bool:
        return "B1" if v else "B0"
    return enc_val(v)


def mk_tx(syntax, ign, delims, lines, regex, compiled, group, queries, origin="tx"):
    """like mk(), for channel `typedx`: defaults (and IPv4Obj arguments) may be floats or bools"""
    pat = re.compile(regex)
    case = {"kind": "tx", "syntax": syntax, "factory": False, "ignore_blank": bool(ign), "delims": delims, "lines": list(lines),
            "regex": regex, "compiled": bool(compiled), "group": group, "queries": queries, "_origin": origin, "req": None}
    if not all(wire.wire_safe(l) for l in lines):
        return case
    texts = sorted(set(lines))
    rows = [group_row(pat, group, t) for t in texts]
    ipargs, seen = [], set()
    if any(q["ty"] == "ip" for q in queries):
        for a in [None] + [wire.dec_str(r) for r in rows if r.startswith("s")] + [q["default"] for q in queries if q["ty"] == "ip"]:
            k = enc_arg_x(a)
            if k not in seen:
                seen.add(k)
                ipargs.append(a)
    qs = ["%d:%s:%s:%d:%d:%s" % (q["idx"], q["op"], q["ty"], q["recurse"], q["untyped"], enc_arg_x(q["default"])) for q in queries]
    ds = T.cfg_delims(syntax, delims)
    case["req"] = wire.req(
        "typedx", "1" if syntax == "ios" else "0", wire.enc_str("".join(ds)), "1" if ign else "0",
        wire.enc_strs(lines), wire.enc_strs(texts), " ".join(rows),
        " ".join(enc_arg_x(a) for a in ipargs), " ".join(ip_row(a) for a in ipargs), " ".join(qs))
    return case


def menu_sequence(rng, n):
    """defaults of n consecutive queries: an equality class in random order, then neighbours from the menu"""
    cls = list(rng.choice(EQUAL_CLASSES))
    rng.shuffle(cls)
    out = cls[:n]
    while len(out) < n:
        r = rng.random()
        out.append(rng.choice(TYPED_MENU) if r < 0.6 else rng.choice(MENU_EXTRA) if r < 0.9 else rng.choice(DEFAULTS))
    if rng.random() < 0.3:
        rng.shuffle(out)
    return out


def tx_queries(rng, lines, n, focus=None):
    ty0 = rng.choice(["str", "str", "str", "int", "float", "ip"])
    op0 = rng.choice(["typed", "iter", "iter", "root", "match"])
    same_ty, same_op = rng.random() < 0.75, rng.random() < 0.6
    qs = []
    for d in menu_sequence(rng, n):
        idx = focus if (focus is not None and rng.random() < 0.6) else rng.randrange(max(1, len(lines)))
        qs.append({"idx": idx, "op": op0 if same_op else rng.choice(["typed", "iter", "root", "match", "list"]),
                   "ty": ty0 if same_ty else rng.choice(TYPES), "recurse": int(rng.random() < 0.5),
                   "untyped": int(rng.random() < 0.15), "default": d})
    return qs


def rand_tx_case(rng):
    regex = rng.choice(REGEXES)
    pat = re.compile(regex)
    hits, miss = split_vocab(pat)
    focus = None
    r = rng.random()
    if r < 0.55:
        lines = rand_tree(rng, hits, miss, 0.0, rng.choice([1, 2, 3, 5, 8]))
        lines = [l for l in lines if not pat.search(l)] or ["x"]
    elif r < 0.8:
        lines, focus = placed_tree(rng, hits, miss, rng.choice([3, 4, 6, 8]))
    else:
        lines = rand_tree(rng, hits, miss, 0.15, rng.choice([2, 3, 5, 8]))
    g = rng.choice([x for x in [1, 1, 1, 2, 0] if x <= pat.groups])
    return mk_tx(rng.choice(T.SYNTAXES), rng.random() < 0.2, rng.choice(T.DELIM_SETS), lines, regex, rng.random() < 0.2, g,
                 tx_queries(rng, lines, rng.choice([3, 4, 4, 6, 8]), focus))


def tx_menu_cases():
    """(1) every ordered pair of two members of an equality class as the defaults of two consecutive extractions on a line
    that does not match, x result type x op: the smallest self-contained input on which a conversion remembered without
    the type shows (a replay of that one case in a fresh process fails as well); (2) every result type x every op with
    a default x the whole menu in order and reversed"""
    for ty in TYPES:
        for op in ("typed", "iter", "root", "match"):
            for cls in EQUAL_CLASSES:
                for a in cls:
                    for b in cls:
                        if a is not b:
                            qs = [{"idx": 0, "op": op, "ty": ty, "recurse": 1, "untyped": 0, "default": d} for d in (a, b)]
                            yield mk_tx("ios", False, None, ["x"], r"nomatchatall(\d)", False, 1, qs, "tx-pairs")
    for ty in TYPES:
        for op in ("typed", "iter", "root", "match"):
            for menu in (TYPED_MENU, TYPED_MENU[::-1], MENU_EXTRA):
                for unt in (0, 1):
                    qs = [{"idx": 0, "op": op, "ty": ty, "recurse": 1, "untyped": unt, "default": d} for d in menu]
                    yield mk_tx("ios", False, None, ["x", " y"], r"nomatchatall(\d)", False, 1, qs, "tx-menu")


def _run_queries(p, case, enc):
    """the queries of a plain / tx case on an instance that is already parsed"""
    from ciscoconfparse2.ccp_util import IPv4Obj
    tys = {"str": str, "int": int, "float": float, "ip": IPv4Obj}
    regex = re.compile(case["regex"]) if case["compiled"] else case["regex"]
    objs = list(p.objs)
    out = []
    for q in case["queries"]:
        rt = tys[q["ty"]]
        kw = call_kw(case, group=case["group"], result_type=rt, default=q["default"], untyped_default=bool(q["untyped"]))
        try:
            if q["op"] == "root":
                v = p.re_match_iter_typed(regex, **kw)
            elif q["idx"] >= len(objs):
                out.append("oob")
                continue
            else:
                o = objs[q["idx"]]
                if q["op"] == "match":
                    v = o.re_match(regex, **call_kw(case, group=case["group"], default=q["default"]))
                elif q["op"] == "typed":
                    v = o.re_match_typed(regex, **kw)
                elif q["op"] == "iter":
                    v = o.re_match_iter_typed(regex, **call_kw(case, recurse=bool(q["recurse"])), **kw)
                elif q["op"] == "list":
                    v = o.re_list_iter_typed(regex, **call_kw(case, group=case["group"], result_type=rt, recurse=bool(q["recurse"])))
                else:
                    raise AssertionError(q["op"])
            out.append(enc(v))
        except AssertionError:
            raise
        except Exception as e:  # noqa: BLE001
            out.append("err:" + type(e).__name__)
    return "|".join(out) + "&" + wire.enc_strs([o.text for o in objs]) + "|" + T.lnums([o.parent for o in objs])


def _impl_tx(case):
    quiet_ccp()
    try:
        p = T.parse_impl(case)
    except BaseException as e:  # noqa: BLE001
        return "err:" + type(e).__name__
    return _run_queries(p, case, enc_val_x)


def ref_conv_x(ty, x):
    """the requested type applied by Python itself to the default AS TYPED by the caller"""
    try:
        if ty == "str":
            return "S" + wire.enc_str(str(x))
        if ty == "int":
            return "I%d" % int(x)
        if ty == "float":
            return "F" + wire.enc_str(repr(float(x)))
    except (TypeError, ValueError) as e:
        return "err:" + type(e).__name__
    return ref_conv(ty, x) if isinstance(x, str) else SKIP


_NOMATCH = "\x00nothing matched\x00"


def expectation_x(case, q, texts, parents):
    """expectation() for a default of any type: which line answers is decided as before; when none does, the default is
    handed back as the object it is (re_match, untyped_default) or converted by Python itself"""
    probe = expectation(case, dict(q, default=_NOMATCH, untyped=1), texts, parents)
    if probe != "S" + wire.enc_str(_NOMATCH):
        return probe                             # a line answered (or list / oob / not judged): the default plays no part
    if q["op"] == "match" or q["untyped"]:
        return enc_val_x(q["default"])
    return ref_conv_x(q["ty"], q["default"])


def _oracle_tx(case, ans):
    if "&" not in ans:
        return [f"parse raised {ans}"]
    res, texts, parents = parse_ans(ans)
    fails = []
    for k, (q, got) in enumerate(zip(case["queries"], res)):
        want = expectation_x(case, q, texts, parents)
        if want is SKIP:
            continue
        if got != want:
            fails.append("query %d: %s(line %d, %r, group=%d, type=%s, recurse=%d, default=%r, untyped=%d) returned %s, expected %s%s" % (
                k, q["op"], q["idx"], case["regex"], case["group"], q["ty"], q["recurse"], q["default"], q["untyped"], show(got), show(want),
                "" if k == 0 else " (earlier defaults in this call sequence: %r)" % [x["default"] for x in case["queries"][:k]]))
    return fails[:3]


def _typed_classes(case):
    """equality classes of which two differently typed members are defaults of this case"""
    out = []
    ds = [q["default"] for q in case["queries"]]
    for a in ds:
        for b in ds:
            if type(a) is not type(b) and a is not None and b is not None and not isinstance(a, str) and not isinstance(b, str) and a == b:
                out.append(repr(min(a, b, key=lambda v: (type(v).__name__, repr(v)))))
    return sorted(set(out))


# ---- two live instances
def pair_cfgs(rng, hits, miss):
    delims = rng.choice(T.DELIM_SETS)
    focus = None
    if rng.random() < 0.6:
        lines, focus = placed_tree(rng, hits, miss, rng.choice([4, 6, 8, 10, 12]))
    else:
        lines = rand_tree(rng, hits, miss, rng.choice([0.15, 0.4, 0.4, 0.8]), rng.choice([3, 5, 8, 12]))
    a = {"syntax": rng.choice(T.SYNTAXES), "ignore_blank": rng.random() < 0.2, "delims": delims, "lines": lines}
    r = rng.random()
    if r < 0.08:
        blines, muts = list(lines), ["identical"]
    else:
        pool = (rng.sample(hits, min(3, len(hits))) if hits else []) + (rng.sample(miss, min(3, len(miss))) if miss else [])
        blines, muts = PL.variant(rng, lines, pool)
    syntax, ign, ds = PL.option_variant(rng, a["syntax"], a["ignore_blank"], delims, T.SYNTAXES, T.DELIM_SETS)
    return [a, {"syntax": syntax, "ignore_blank": ign, "delims": ds, "lines": blines}], muts, focus


def mk_pair(cfgs, plan, regex, compiled, group, queries, tx, muts=(), origin="pair"):
    subs = []
    for i in plan:
        c = cfgs[i]
        s = (mk_tx if tx else mk)(c["syntax"], c["ignore_blank"], c["delims"], c["lines"], regex, compiled, group, queries, origin)
        s["_same"] = 0
        subs.append(s)
    case = {"pair": True, "kind": "pair", "cfgs": cfgs, "plan": list(plan), "subs": subs, "mutations": list(muts), "_origin": origin,
            "tx": bool(tx), "lines": cfgs[0]["lines"], "regex": regex, "compiled": compiled, "group": group, "queries": queries,
            "syntax": cfgs[0]["syntax"], "ignore_blank": cfgs[0]["ignore_blank"], "delims": cfgs[0]["delims"]}
    case["req"] = PL.wrap_req([s["req"] for s in subs])
    return case


def rand_pair(rng):
    regex = rng.choice(REGEXES)
    pat = re.compile(regex)
    hits, miss = split_vocab(pat)
    cfgs, muts, focus = pair_cfgs(rng, hits, miss)
    g = rng.choice([x for x in [1, 1, 1, 2, 0] if x <= pat.groups])
    tx = rng.random() < 0.35
    n = max(len(cfgs[0]["lines"]), len(cfgs[1]["lines"]))
    if tx:
        qs = tx_queries(rng, cfgs[0]["lines"], rng.choice([3, 4, 6]), focus)
    else:
        qs = rand_queries(rng, cfgs[rng.randrange(2)]["lines"], rng.choice([3, 5, 8]))
    for q in qs:
        if q["op"] in ("typed", "match") and rng.random() < 0.6:
            q["op"] = rng.choice(["iter", "iter", "list"])
        if q["op"] in ("iter", "list") and rng.random() < 0.6:
            q["recurse"] = 1
        q["idx"] = min(q["idx"], n)
    if focus is not None:
        for q in qs[:2]:
            q["idx"] = focus
    return mk_pair(cfgs, PL.rand_plan(rng), regex, rng.random() < 0.2, g, qs, tx, muts)


def impl_pair(case):
    quiet_ccp()
    parses = []
    for c in case["cfgs"]:
        try:
            parses.append(T.parse_impl(dict(c, factory=False)))
        except BaseException as e:  # noqa: BLE001
            if type(e).__name__ == "CaseTimeout":
                raise
            parses.append("err:" + type(e).__name__)
    tags = PL.tags_for([s["req"] for s in case["subs"]])
    parts = []
    for k, sub in enumerate(case["subs"]):
        sub["omit"] = case.get("omit")
        p = parses[case["plan"][k]]
        parts.append((tags[k], p if isinstance(p, str) else _run_queries(p, sub, enc_val_x if case.get("tx") else enc_val)))
    return PL.join_parts(parts)


def pair_neighbours(case, rng):
    for _ in range(120):
        a = case["cfgs"][0]
        lines, muts = PL.variant(rng, a["lines"], VOCAB[:12])
        yield mk_pair([a, dict(case["cfgs"][1], lines=lines)], case["plan"], case["regex"], case["compiled"], case["group"],
                      [dict(q) for q in case["queries"]], case.get("tx"), muts)


def _pair_describe(case):
    keys = ("syntax", "ignore_blank", "delims", "lines")
    return {"two_live_instances": "both configs are parsed first, then the same queries are asked of the instances in the order of `plan`",
            "A": {k: case["cfgs"][0][k] for k in keys}, "B": {k: case["cfgs"][1][k] for k in keys},
            "B_differs_from_A_by": case.get("mutations"), "plan": "".join("AB"[i] for i in case["plan"]),
            "regex": case["regex"], "compiled": case["compiled"], "group": case["group"], "queries": case["queries"]}


_single = {"cases": cases, "impl": impl, "oracle": oracle, "compare": compare, "neighbours": neighbours, "nontrivial": nontrivial,
           "describe": describe, "buckets": buckets}


def cases(rng, tier):  # noqa: F811
    yield from _single["cases"](rng, tier)
    orng = __import__("random").Random(rng.random())
    n = {"quick": 700, "thorough": 20000, "search": 600}[tier]
    m = {"quick": 500, "thorough": 15000, "search": 300}[tier]

    def more():
        if tier != "search":
            yield from tx_menu_cases()
        for _ in range(n):
            yield rand_tx_case(rng)
        for _ in range(m if PL.enabled() else 0):
            yield rand_pair(rng)
    for c in more():
        c["omit"] = orng.random() < 0.5
        yield c


def impl(case):  # noqa: F811
    if case.get("pair"):
        return impl_pair(case)
    if case.get("kind") == "tx":
        return _impl_tx(case)
    return _single["impl"](case)


def _sub_oracle(sub, text):
    return _oracle_tx(sub, text) if sub.get("kind") == "tx" else _single["oracle"](sub, text)


def oracle(case, ans):  # noqa: F811
    if case.get("pair"):
        return PL.oracle(case, ans, _sub_oracle)
    if case.get("kind") == "tx":
        return _oracle_tx(case, ans)
    return _single["oracle"](case, ans)


def compare(case, impl_ans, model_ans):  # noqa: F811
    if case.get("pair"):
        return PL.compare(impl_ans, model_ans, lambda text, m: _single["compare"](None, text, m))
    return _single["compare"](case, impl_ans, model_ans)


def neighbours(case, rng):  # noqa: F811
    if case.get("pair"):
        return pair_neighbours(case, rng)
    if case.get("kind") == "tx":
        return (rand_tx_case(rng) for _ in range(150))
    return _single["neighbours"](case, rng)


def nontrivial(case):  # noqa: F811
    if case.get("pair"):
        return PL.shared_parents(case["cfgs"][0]["lines"], case["cfgs"][1]["lines"]) > 0 and _nontrivial_plain(case["subs"][0])
    if case.get("kind") == "tx":
        return bool(_typed_classes(case))
    return _single["nontrivial"](case)


def describe(case):  # noqa: F811
    if case.get("pair"):
        return _pair_describe(case)
    if case.get("kind") == "tx":
        return dict(_describe_plain(case), kind="tx (defaults of several types, asked back to back in one call sequence)")
    return _single["describe"](case)


def buckets(case, ans):  # noqa: F811
    if case.get("pair"):
        out = ["kind:pair"] + PL.buckets(case) + ["pair:tx:%d" % bool(case.get("tx"))]
        for s, (_, text) in zip(case["subs"], PL.split_parts(ans) or []):
            out += ["pair:" + b for b in _buckets_plain(s, text) if b.startswith(("op:", "first:", "recurse:", "matches:"))]
        return out
    if case.get("kind") == "tx":
        out = ["kind:tx"] + _buckets_plain(case, ans)
        out += ["tx:default-type:" + type(q["default"]).__name__ + ":" + q["ty"] for q in case["queries"]]
        out += ["tx:equal-but-differently-typed:" + c for c in _typed_classes(case)]
        return out
    return _single["buckets"](case, ans)


RULE += (" TYPED DEFAULTS (kind tx, model Ccp.Model.TypedX, channel `typedx`): Python compares 0 == False == 0.0 == -0.0, 1 == True == 1.0, "
         "1500 == 1500.0, -1 == -1.0, 7 == 7.0, 65535 == 65535.0 (equal hashes), but result_type(default) depends on the TYPE of the default. "
         "416 two-query cases (every ordered pair of two members of such a class x str/int/float/IPv4Obj x re_match / re_match_typed / "
         "re_match_iter_typed / CiscoConfParse.re_match_iter_typed, on a line that does not match), 96 whole-menu sequences (0, False, 0.0, 1, "
         "True, 1.0, 1500, 1500.0, -1, -1.0, '', None and -0.0, 0.5, 2.25, 7, 7.0, '0', '1', '1500', '1500.0', 'True', ... in order and "
         "reversed, typed and untyped) and 700 (quick) random cases of 3-8 extractions back to back in ONE impl() call whose defaults walk "
         "through a class and then the menu (75 % one result type per case, 55 % configs without any match, 15 % untyped_default). The oracle "
         "decides which line answers as before and, when none does, converts the default AS TYPED with Python's own str / int / float (or "
         "hands it back as the object it is: bool results are told apart from ints). A float default is sent to the model by its positional "
         "repr, asserted exact. PAIR STREAM (two LIVE instances; props/pairlib.py, channel `pair`): 500 (quick) cases, two configs from one "
         "template (B = A with children re-texted / re-indented / commented / swapped / inserted / deleted / moved; options same or one "
         "changed), BOTH parsed first, then the same 3-8 queries (biased to the recursive iter / list forms on a focus line with children; "
         "35 % with typed-menu defaults) on corresponding lines in the orders ABA, ABAB, BAB, ABBA, AABA; each judged on its own instance and "
         "compared with the model's answer for that instance alone.")
LEVEL_TEXT += (" Defaults of every type (Ccp.Model.TypedX: default = None / str / int / bool / a float given exactly by sign, integer part and "
               "fraction digits of its positional repr): typedX_old_defaults -- on the old defaults the extended helpers ARE the helpers above; "
               "iterTypedX_first -- with a first matching line the answer is its converted group, whatever the default; iterTypedX_default / "
               "matchTypedX_default / rootIterX_default / matchX_default -- when nothing matches the answer is the default itself "
               "(untyped_default, re_match) or result_type(default) computed from the default as typed; convX_spec -- str(default), int() "
               "truncating a float towards zero and mapping True/False to 1/0, float() leaving a float alone and mapping True/False to 1.0/0.0, "
               "IPv4Obj as oracle; default_keeps_its_type -- an int, a float and a bool never have the same str() (an int has no decimal "
               "point, a float has one, a bool starts with a letter) although 1500 == 1500.0 and 0 == False == 0.0 in Python: an answer "
               "remembered for one of them is wrong for the others.")
LEVEL_NOTE += (" Floats as defaults are restricted to those whose repr is positional and exact (|x| < 1e16, finitely many binary digits: "
               "1500.0, -1.0, 0.5, 2.25, -0.0); inf / nan / exponent forms are not generated. Call ORDER is not in the model (it is a function "
               "of one request): that an extraction does not depend on earlier extractions in the process, or on another live instance, holds "
               "for the model by construction and is MEASURED for the code by the back-to-back sequences, the pair stream and the framework's "
               "mixing pass (seeded change C05e -- a module-level lru_cache(typed=False) around result_type(value) -- is reported with the "
               "two-query input default=0 then default=False, result_type=str).")
