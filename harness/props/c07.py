"""C07 — after commit the tree is that of a fresh parse, for any edit history."""
import wire
from props import edit7 as X
from props import editlib as E
from props import treelib as T

ID = "C07"
LEAN_MODULES = ["Ccp.Props.C07", "Ccp.Props.C07Ck"]
# bound of the escalated quick run (source fingerprint changed -> thorough generator): keeps that run near two minutes
ESCALATE_MAX_CASES = 70000
RULE = ("[also: 500 (quick) checkpoint histories with auto_commit off -- inserts in bursts of identical payloads, pop, text setter, commit -- whose "
        "current_checkpoint - commit_checkpoint and search_safe are read after every operation] edit histories (same operation alphabet as C06, 1..8 operations, raw object handles resolved modulo the current length) from "
        "11 seed configs, banner/macro-bearing random configs and plain random configs; all four syntaxes; ignore_blank_lines on/off; "
        "auto_commit on, or off with explicit commits and search probes in between. After every step on a committed state the full "
        "dump (texts, line numbers, parents, stored child lists) is compared with a from-scratch CiscoConfParse of the same texts "
        "and options; a double commit is appended to every history. "
        "Coverage streams (harness/covreport.py, notes/coverage/C07.json; runner props/edit7.py, model Ccp.Model.EditX, channel editx): "
        "900 more histories over the EXTENDED alphabet -- ConfigList.remove(obj); obj.delete() on an object that is no longer in the "
        "list (auto_commit off, popped / deleted meanwhile -> ConfigListItemDoesNotExist); payloads handed over as line objects "
        "instead of strings (insert, insert_before/after, obj.insert_before/after, append_to_family); malformed calls "
        "(insert(<not an int>, ..) -> ValueError, insert(k, None / 5 / [..] / bytes) -> TypeError, insert_before/after(regex, <bad "
        "value>) -> ValueError, remove(<not a line object>) -> InvalidParameters: state must not change); and search probes of all 16 "
        "guarded entry points (find_objects, find_object_branches, find_parent_objects, find_parent_objects_wo_child, "
        "find_child_objects, CiscoConfParse.re_search_children / re_match_iter_typed, and on a line object all_parents, lineage, "
        "geneology, re_match, re_search, re_search_children, re_match_typed, re_match_iter_typed, re_list_iter_typed), nine argument "
        "forms each (string / [string] / compiled / line-object specs, list and two-argument forms, exactmatch, ignore_ws, "
        "escape_chars, recurse, reverse, regex_groups, empty_branches). Every third history is 'stale-probe': auto_commit off, a list "
        "insert or family append, 0..2 operations that are not a commit, 2..4 probes of random kinds (must all refuse), commit, the "
        "same probes (must all answer, and only with line objects of the committed list). 30 % of these histories run under one more "
        "parse option set: debug 1/2 (the 'if debug' statements of delete / append / insert_after), tuple config, "
        "auto_indent_width 1/2/3/4/8 (an input of the model: append_to_family's indent unit). Every sixth extended history starts "
        "'blank-above-comment': ignore_blank_lines on, and an edit leaves a blank / whitespace-only line directly above an indented "
        "comment (it changes the comment exception until the commit drops it; seeded change C07d is now caught in the plain quick budget). The oracle also requires that remove / "
        "delete take exactly the line and its descendants out of the list. "
        "non-trivial = at least one successful mutation; distinct by request.")
LEVEL_TEXT = ("Theorems (Lean 4, Ccp.Props.C07, every config, option set and history): bootstrap is idempotent on its own output (also with "
              "ignore_blank_lines: the re-bootstrapping loop ends in a fixed point of the blank-line filter; it only ever drops blank lines), "
              "hence parse = one bootstrap; commit of any state yields tree = parse(texts), texts = tree.texts, flags cleared; commit is "
              "idempotent; invariant 'no uncommitted change => tree = parse(cfg, texts)' holds initially and is preserved by every operation, "
              "so it holds in every state reached by any history, in particular after every single operation with auto_commit on (never dirty, "
              "never stale) and directly after an explicit commit; such trees satisfy C03's Forest. With auto_commit off a list insert or a "
              "successful append_to_family makes the state stale, staleness survives every operation except commit, a search probe raises "
              "NotImplementedError exactly when stale, and answers again after commit; nothing else makes a state stale. Line numbers are "
              "positions and child lists are derived from the parent indices in the model's tree, so tree equality is equality of texts, line "
              "numbers, parents and children. EXTENDED ALPHABET (Ccp.Model.EditX embeds the base operations unchanged -- base_embedded -- "
              "and adds ConfigList.remove, delete of an object that is gone, one probe per guarded search entry point, list-level inserts "
              "with a line-object payload, four malformed calls): stepX_preserves_fresh, runX_committed_fresh, autoX_commit_always_fresh, "
              "explicit_commitX_fresh -- the invariant 'no uncommitted change => tree = parse(texts)' holds in every state reached by any "
              "history over the extended alphabet, after every single operation with auto_commit on, and directly after an explicit commit; "
              "remove_is_delete / remove_spec -- remove(obj) is obj.delete(): on a committed state it succeeds and takes exactly the object "
              "and its descendants out; deleteAny_gone / deleteAny_present -- delete on an object that left the list raises "
              "ConfigListItemDoesNotExist and changes nothing; malformed_rejected -- each malformed call raises the code's error class and "
              "changes nothing; listInsObj_spec -- a line-object payload is inserted even when blank under ignore_blank_lines (the string "
              "form is refused), otherwise it is the string form; search_refuses_iff_stale -- each of the SIXTEEN search entry "
              "points never changes the state, raises NotImplementedError exactly when stale and answers otherwise (full statement: "
              "CiscoConfParse.re_match_iter_typed, which had no guard -- finding FC07a --, is repaired in /repo and modelled like the "
              "others); staleX_refuses -- after a list insert and any extended operations other than commit every search entry point "
              "refuses, after commit it answers. Tied to the code by differential runs of histories.")
LEVEL_NOTE = ("Trusted: Lean kernel, standard axioms, harness. The edit machine abstracts the integer checkpoints to a boolean; "
              "Ccp.Props.C07Ck models the two integers themselves (sum of hash((linenum, text)) over the list, hash as a parameter) and proves "
              "that after k >= 1 inserts since a commit current - commit = the sum of the hashes of the fresh objects, so the seatbelt trips iff "
              "that sum is not 0 (inserts_delta, inserts_unsafe_iff), that NoCancel is exactly the assumption of the boolean reading "
              "(insert_sets_stale_of_noCancel, with a decided witness that two cancelling hashes go unnoticed), that pop / delete / the text "
              "setter recompute nothing and commit closes the seatbelt; the 'ckpt' stream compares the implementation's two integers after every "
              "operation with that model on Python-computed hash rows. All C07 theorems of DESIGN.md are proved "
              "at full strength, none is partial (search_refuses_iff_stale_partial became search_refuses_iff_stale when FC07a was repaired by "
              "'fix: CiscoConfParse.re_match_iter_typed() refuses to search an uncommitted config'; the oracle demands a refusal from every one "
              "of the sixteen entry points on a stale state, so dropping any guard is a violation). The model has ONE "
              "probe behaviour for all searches (each starts with the same guard); that every entry point carries the guard, and that the "
              "find_* guards of find_parent_objects / find_child_objects / find_parent_objects_wo_child are shadowed by the guards of the "
              "searches they call, is measured by the probe stream. What the searches ANSWER is C04's subject, not compared here (only: "
              "answers on a committed state consist of objects of that commit). Anchored statements never executed by the quick run: 335 of "
              "651 before the coverage streams, 112 after (dead branches of append_to_family, factory=True branches -- factory is outside "
              "C07's quantifier --, argument validation of the searches and of ConfigList.__init__, delete() with a stale line number on an "
              "uncommitted state -- excluded by the assumption below).")
ASSUMPTIONS = ["hash((linenum, text)) sums differ after an insertion (no 64-bit collision)", "object handles are used only on a committed state"]
TRUSTED = ["regex oracle rows / substituted texts"]
EXHAUSTIVE = {"quick": False, "thorough": False}


from props import ckptlib as CK  # noqa: E402  integer checkpoints (model Ccp.Checkpoint, channel ckpt)

def cases(rng, tier):
    n = {"quick": 1500, "thorough": 60000, "search": 2500}[tier]
    for _ in range(n):
        syntax = rng.choice(T.SYNTAXES)
        auto = rng.random() < 0.55
        ign = rng.random() < 0.4
        r = rng.random()
        if r < 0.35:
            lines = rng.choice(E.SEED_CONFIGS)
        elif r < 0.7:
            lines = T.rand_config(rng, 8, True, None)
        else:
            lines = T.rand_config(rng, 8, False, None)
        ops = E.rand_ops(rng, rng.choice([1, 2, 3, 5, 8]), auto)
        if rng.random() < 0.2:
            # the same payload inserted an even / odd number of times with no commit in between, then a search:
            # a checkpoint in which equal contributions cancel would let the search through
            txt = rng.choice(E.PAYLOADS)
            reps = rng.choice([2, 2, 3, 4])
            if rng.random() < 0.6:
                burst = [["ins", rng.choice([0, 1, 2, -1, 99]), txt] for _ in range(reps)]
            else:
                burst = [["commit"]] + [["atf", rng.randrange(64), txt.lstrip() or "x", -1, True] for _ in range(reps)]
            ops = burst + [["probe"]] + ops if not auto else ops + burst + [["probe"]]
        ops += [["commit"], ["commit"], ["probe"]]
        yield E.mk_case(syntax, ign, auto, lines, ops)
    # coverage streams (notes/coverage/C07.json), over the extended alphabet of props/edit7.py (model Ccp.Model.EditX)
    HIST_OPTS = [{"debug": 1}, {"debug": 2}, {"aiw": 3}, {"aiw": 2}, {"aiw": 1}, {"aiw": 8}, {"form": "tuple"}, {"debug": 1, "aiw": 4}]
    for i in range({"quick": 900, "thorough": 40000, "search": 1500}[tier]):
        syntax = rng.choice(T.SYNTAXES)
        auto = rng.random() < 0.5
        ign = rng.random() < 0.35
        r = rng.random()
        lines = rng.choice(E.SEED_CONFIGS) if r < 0.4 else T.rand_config(rng, 8, r < 0.75, None)
        if i % 3 == 0:
            auto = False
            ops = X.stale_probe_history(rng) + X.rand_ops_x(rng, rng.choice([0, 1, 2]), auto)
        else:
            ops = X.rand_ops_x(rng, rng.choice([1, 2, 3, 5, 8]), auto)
        if i % 6 == 1:
            ign = True
            lines, first = X.blank_above_comment_case(rng)
            ops = first + ops
        ops += [["commit"], X.rand_probe(rng), ["commit"], ["probe"]]
        c = E.mk_case(syntax, ign, auto, lines, ops, "extended")
        if rng.random() < 0.3:
            c["opts"] = dict(rng.choice(HIST_OPTS))
        yield c
    # the two checkpoint integers themselves (current_checkpoint - commit_checkpoint after every operation), auto_commit off
    for _ in range({"quick": 500, "thorough": 20000, "search": 800}[tier]):
        yield CK.rand_case(rng)


def neighbours(case, rng):
    if case.get("kind") == "ckpt":
        for _ in range(150):
            yield CK.rand_case(rng)
        return
    for _ in range(150):
        ops = list(case["ops"])
        if len(ops) > 1 and rng.random() < 0.5:
            del ops[rng.randrange(len(ops))]
        else:
            ops.insert(rng.randrange(len(ops) + 1), X.rand_ops_x(rng, 1, case["auto_commit"])[0])
        c = E.mk_case(case["syntax"], case["ignore_blank"], case["auto_commit"], case["lines"], ops)
        if case.get("opts"):
            c["opts"] = dict(case["opts"])
        yield c


def impl(case):
    if case.get("kind") == "ckpt":
        return CK.impl(case)
    return X.run_history(case)


def oracle(case, ans):
    if case.get("kind") == "ckpt":
        return CK.oracle(case, ans)
    steps = E.parse_answer(ans)
    fails = []
    refuse = False       # auto_commit off: a list insert / family append happened and no commit since
    for idx, (status, fresh, texts, dump, _at) in enumerate(steps):
        op = case["ops"][idx - 1] if idx > 0 else ["parse"]
        if fresh == "!":
            fails.append(f"after step {idx - 1} {op}: committed tree differs from a fresh parse of {texts!r}")
        if dump is not None and dump["linenums"] != list(range(len(texts))):
            fails.append(f"after step {idx - 1} {op}: line numbers {dump['linenums']}")
        if idx > 0:
            k = op[0]
            if k == "commit":
                refuse = False
                prev = steps[idx - 1]
                if case["ops"][idx - 2][0] == "commit" if idx >= 2 else False:
                    if (prev[2], prev[3]) != (texts, dump):
                        fails.append(f"second commit at step {idx - 1} changed the state")
            elif k in ("ins", "atf") and status == "ok" and not case["auto_commit"]:
                refuse = True
            elif k in ("rem", "del", "dela") and status == "ok" and _at is not None and steps[idx - 1][3] is not None:
                # ConfigList.remove(obj) / obj.delete() take the object and all its descendants (as the links of the
                # committed tree before the call have them) out of the list, and nothing else
                before, pd = steps[idx - 1][2], steps[idx - 1][3]
                gone = {_at}
                for j, par in enumerate(pd["parents"]):
                    q = j
                    while pd["parents"][q] != q and q not in gone:
                        q = pd["parents"][q]
                    if q in gone:
                        gone.add(j)
                want = [t for j, t in enumerate(before) if j not in gone]
                if case["auto_commit"] and case["ignore_blank"]:
                    want = T.ref_kept(want, case["syntax"] == "ios", True)
                if texts != want:
                    fails.append(f"{op} at step {idx - 1} on line {_at}: texts {before!r} -> {texts!r}, expected {want!r} "
                                 f"(the line and its descendants {sorted(gone)} removed)")
            elif k in X.MALFORMED:
                # a call with a malformed argument is rejected and changes nothing
                if not status.startswith("err:") or texts != steps[idx - 1][2]:
                    fails.append(f"malformed call {op} at step {idx - 1}: status {status}, texts {steps[idx - 1][2]!r} -> {texts!r}")
            elif k == "probe":
                if status == "ok-stale-objects":
                    fails.append(f"search {op} at step {idx - 1} answered on a committed state with line objects that are not in the "
                                 "committed list")
                    status = "ok"
                if refuse and status == "ok":
                    fails.append(f"search {op[:2]} answered at step {idx - 1} although an insert is uncommitted")
                if not refuse and status != "ok":
                    fails.append(f"search refused at step {idx - 1} on a committed state: {status}")
    return fails[:3]


def nontrivial(case):
    if case.get("kind") == "ckpt":
        return any(o[0] == "i" for o in case["ops"])
    return any(o[0] not in ("commit", "probe") for o in case["ops"])


def describe(case):
    if case.get("kind") == "ckpt":
        return {"kind": "checkpoint history (auto_commit off)", "lines": case["lines"], "ops": case["ops"]}
    return {k: case[k] for k in ("syntax", "ignore_blank", "auto_commit", "lines", "ops", "opts") if k in case}


def buckets(case, ans):
    if case.get("kind") == "ckpt":
        return ["origin:checkpoint"] + ["ckpt-op:" + o[0] + ":" + p.split(",")[1] for o, p in zip(case["ops"], ans.split("|")) if "," in p]
    out = ["syntax:" + case["syntax"], "auto:%d" % case["auto_commit"], "ignore_blank:%d" % case["ignore_blank"]]
    for op, part in zip(case["ops"], ans.split("#")[1:]):
        name = op[0] + ("-" + op[1] if op[0] == "probe" and len(op) > 1 else "") + ("-obj" if op[-1] == "obj" else "")
        out.append("op:" + name + ":" + part.split("~")[0].split("@")[0])
    out.append("origin:" + case.get("_origin", "gen"))
    if case.get("opts"):
        out += T.opt_buckets(case)
    return out


# ================================================================== two live instances (stream `pair`, see props/pairlib.py)
# Appended as wrappers around the functions above, so that the single-instance streams and their seeds stay as they were.
# A pair case: two configs from one template (banner / macro bearing ones included), BOTH parsed first; a history over the
# extended alphabet on A (probes of all guarded searches included) with a look at B before every operation and after the
# last (texts, line numbers, links, family views, two recursive searches: B must not change), then a history on B with
# the same watch on A.  Each history is run by edit7.run_history itself, judged by the oracle above on its own case (tree
# after every commit = fresh parse, searches refuse exactly while an insert is pending ON THAT INSTANCE) and compared with
# the model's answer for that history alone.
from props import pairlib as PL  # noqa: E402


def pair_ops(rng, auto):
    r = rng.random()
    if r < 0.25:
        ops = E.rand_ops(rng, rng.choice([1, 2, 3, 5]), auto)
    elif r < 0.45 and not auto:
        ops = X.stale_probe_history(rng) + X.rand_ops_x(rng, rng.choice([0, 1]), auto)
    else:
        ops = X.rand_ops_x(rng, rng.choice([1, 2, 3, 5]), auto)
    return ops + [["commit"], X.rand_probe(rng), ["commit"]]


def mk_pair(a, b, ops_a, ops_b, muts=(), origin="pair"):
    """a, b: dict(syntax, ignore_blank, auto_commit, lines[, opts])"""
    hist = []
    for c, ops in ((a, ops_a), (b, ops_b)):
        h = E.mk_case(c["syntax"], c["ignore_blank"], c["auto_commit"], c["lines"], ops, origin)
        if c.get("opts"):
            h["opts"] = dict(c["opts"])
        hist.append(h)
    cfgs = [dict(c, delims=None) for c in (a, b)]
    return {"pair": True, "cfgs": cfgs, "hist": hist, "mutations": list(muts), "_origin": origin, "req": None,
            "plan": [0, 1], "ops": ops_a, "lines": a["lines"], "syntax": a["syntax"], "auto_commit": a["auto_commit"],
            "ignore_blank": a["ignore_blank"], "delims": None}


def rand_pair(rng):
    syntax = rng.choice(T.SYNTAXES)
    ign = rng.random() < 0.35
    r = rng.random()
    lines = rng.choice(E.SEED_CONFIGS) if r < 0.4 else T.rand_config(rng, 8, r < 0.75, None)
    opts = [{}, {}, {}, {"aiw": 2}, {"aiw": 3}, {"debug": 1}]
    a = {"syntax": syntax, "ignore_blank": ign, "auto_commit": rng.random() < 0.5, "lines": list(lines), "opts": dict(rng.choice(opts))}
    if rng.random() < 0.15 or not lines:
        blines, muts = list(lines), ["identical"]
    else:
        blines, muts = PL.variant(rng, lines, ["a", "b", "x", "! c", "^", "@", " shutdown"])
    b = {"syntax": syntax if rng.random() < 0.6 else rng.choice(T.SYNTAXES), "ignore_blank": ign if rng.random() < 0.8 else not ign,
         "auto_commit": a["auto_commit"] if rng.random() < 0.6 else not a["auto_commit"], "lines": blines, "opts": dict(rng.choice(opts))}
    ops_a = pair_ops(rng, a["auto_commit"])
    ops_b = [list(o) for o in ops_a] if rng.random() < 0.4 else pair_ops(rng, b["auto_commit"])
    return mk_pair(a, b, ops_a, ops_b, muts)


def pair_cases(rng, tier):
    for _ in range({"quick": 450, "thorough": 15000, "search": 300}[tier]):
        yield rand_pair(rng)


def impl_pair(case):
    return PL.run_history_pair(T, case["cfgs"], case["hist"], X.run_history, T.parse_impl_opts)


def pair_neighbours(case, rng):
    a, b = case["cfgs"]
    for _ in range(100):
        lines, muts = PL.variant(rng, a["lines"], ["a", "b", "x", "! c"])
        ops_a = list(case["hist"][0]["ops"])
        if len(ops_a) > 4 and rng.random() < 0.5:
            del ops_a[rng.randrange(len(ops_a) - 3)]
        yield mk_pair(a, dict(b, lines=lines), ops_a, list(case["hist"][1]["ops"]), muts)


def _pair_describe(case):
    keys = ("syntax", "ignore_blank", "auto_commit", "lines", "ops", "opts")
    return {"two_live_instances": "both configs are parsed first; history A runs with a look at B before every operation and after the last, "
                                  "then history B with the same watch on A",
            "A": {k: case["hist"][0][k] for k in keys if k in case["hist"][0]}, "B": {k: case["hist"][1][k] for k in keys if k in case["hist"][1]},
            "B_differs_from_A_by": case.get("mutations")}


def _pair_buckets(case, ans):
    out = PL.buckets(case) + ["pair:same-ops:%d" % (case["hist"][0]["ops"] == case["hist"][1]["ops"]),
                              "pair:auto:%d-%d" % tuple(c["auto_commit"] for c in case["cfgs"])]
    parts = {label: text for _, label, text in (PL.split_labelled(ans) or [])}
    for i, label in enumerate(("hA", "hB")):
        if label in parts:
            out += ["pair:" + b for b in _single["buckets"](case["hist"][i], parts[label]) if b.startswith("op:")]
    return out


_single = {"cases": cases, "impl": impl, "oracle": oracle, "neighbours": neighbours,
           "known_id": globals().get("known_id") or (lambda case, failure: None), "nontrivial": nontrivial,
           "describe": describe, "buckets": buckets}


def cases(rng, tier):  # noqa: F811
    yield from _single["cases"](rng, tier)
    if PL.enabled():
        yield from pair_cases(rng, tier)


def impl(case):  # noqa: F811
    return impl_pair(case) if case.get("pair") else _single["impl"](case)


def oracle(case, ans):  # noqa: F811
    return PL.history_oracle(case, ans, _single["oracle"]) if case.get("pair") else _single["oracle"](case, ans)


def compare(case, impl_ans, model_ans):
    return PL.compare(impl_ans, model_ans, PL.history_compare) if case.get("pair") else impl_ans == model_ans


def neighbours(case, rng):  # noqa: F811
    return pair_neighbours(case, rng) if case.get("pair") else _single["neighbours"](case, rng)


def known_id(case, failure):  # noqa: F811
    return PL.history_known_id(case, failure, _single["known_id"]) if case.get("pair") else _single["known_id"](case, failure)


def nontrivial(case):  # noqa: F811
    if case.get("pair"):
        return all(_single["nontrivial"](h) for h in case["hist"])
    return _single["nontrivial"](case)


def describe(case):  # noqa: F811
    return _pair_describe(case) if case.get("pair") else _single["describe"](case)


def buckets(case, ans):  # noqa: F811
    return _pair_buckets(case, ans) if case.get("pair") else _single["buckets"](case, ans)


RULE += (" PAIR STREAM (two LIVE instances; props/pairlib.py, channel `pair`): 450 (quick) cases hold two configs from ONE template (seed, "
         "banner / macro bearing and plain random configs; B = A with children re-texted / re-indented / commented / swapped / inserted / "
         "deleted / moved, 15 % identical), parsed with the same or different syntax / ignore_blank_lines / auto_commit / parse options. BOTH "
         "are parsed first; a history over the extended alphabet (stale-probe histories included) runs on A with a look at B before every "
         "operation and after the last -- texts, line numbers, links, the seven family views, two recursive searches --, then a history on B "
         "(40 % the same calls) with the same watch on A. The histories are run by edit7.run_history itself, judged by the oracle above on "
         "their own case (tree after every commit = fresh parse; searches refuse exactly while an insert is pending ON THAT instance) and "
         "compared with the model's answer for that history alone; the watched instance must not change and answers while the other one is stale.")
LEVEL_NOTE += (" Two live instances: the edit machine is a function of one history (channel `pair` only carries ordinary requests), so "
               "'commit / staleness of A neither depends on nor touches B' holds for the model by construction and is MEASURED for the code by "
               "the pair stream.")
