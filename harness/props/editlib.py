"""Edit histories for C06 / C07: generator, implementation runner (computes the regex oracle rows with
`re` directly on the texts of the moment and emits the request for the model), answer parser."""
import re

import wire
from props import treelib as T
from props.common import quiet_ccp

# payload texts: duplicates of seed lines, prefix texts, regex metacharacters
PAYLOADS = [
    "interface Eth1", "interface Eth10", " ip address 1.1.1.1 255.0.0.0", " shutdown", "  deep", "x", "a.b", "aXb",
    " a(b", "! comment", " ! c", "", " ", "router bgp 1", " neighbor 1.1.1.1", "  description x {y}", "end",
]
SEED_CONFIGS = [
    ["a", " b", "  c", "  c2", " d"],
    ["interface Eth1", " ip address 1.1.1.1 255.0.0.0", "interface Eth10", " shutdown", "!", "end"],
    ["a", "a", " b", " b", "a"],
    ["x", " y", "  z", "   w", "x2"],
    ["a.b", "aXb", " a(b", "a.b"],
    ["! c", "a", " ! c", " b", "  ! c2"],
    ["banner motd ^", " hi", "", "x^", "interface X", " shutdown"],
    ["a", "  b", "    c", "  b2", "a2", "  b3"],        # width-2 families (nxos)
    [],
    ["only"],
    [" lead", "a", " b"],
]
REGEXES = ["a", "^a$", "Eth1", "^interface Eth1$", r"a\.b", "a.b", "b|c", r"^\s+b", "^$", "zzz", r"\(", "^ ", "x*"]


def width_of(syntax):
    return 2 if syntax == "nxos" else 1


def rand_ops(rng, n, auto, allow_blank=True):
    ops = []
    for _ in range(n):
        r = rng.random()
        txt = rng.choice(PAYLOADS)
        if not allow_blank and txt.strip() == "":
            txt = "x"
        h = rng.randrange(0, 64)
        if r < 0.10:
            ops.append(["ins", rng.choice([0, 1, 2, 3, -1, -2, 99, -99]), txt])
        elif r < 0.16:
            ops.append(["app", txt])
        elif r < 0.22:
            ops.append(["pop", rng.choice([-1, 0, 1, 2, -2, 50, -50])])
        elif r < 0.30:
            ops.append([rng.choice(["lib", "lia"]), rng.choice(REGEXES + [""]), txt])
        elif r < 0.44:
            ops.append([rng.choice(["oib", "oia"]), h, txt])
        elif r < 0.56:
            ops.append(["del", h])
        elif r < 0.72:
            mode = rng.random()
            if mode < 0.4:
                ops.append(["atf", h, txt, -1, False])
            elif mode < 0.7:
                ops.append(["atf", h, txt.lstrip() or "x", -1, True])
            else:
                ops.append(["atf", h, txt, rng.choice([1, 2, 3, 4]), rng.random() < 0.1])
        elif r < 0.80:
            ops.append(["rep", h, rng.choice(["a", "Eth1", "b", " ", "1.1", "{"]), rng.choice(["", "z", "a", "{q}"])])
        elif r < 0.88:
            ops.append(["sub", h, rng.choice(REGEXES[:10]), rng.choice(["", "z", r"\g<0>\g<0>", "a"])])
        elif r < 0.94:
            ops.append(["commit"])
        else:
            ops.append(["probe"])
        if not auto and rng.random() < 0.25:
            ops.append(["commit"])
    return ops


def mk_case(syntax, ign, auto, lines, ops, origin="gen", delims=None, factory=False):
    return {"syntax": syntax, "factory": bool(factory), "ignore_blank": ign, "delims": delims, "auto_commit": auto,
            "lines": list(lines), "ops": ops, "req": None, "_origin": origin}


def enc_op(op, row=None, newtext=None):
    k = op[0]
    if k == "ins":
        return f"ins:{op[1]}:{wire.enc_str(op[2])}"
    if k == "app":
        return "app:" + wire.enc_str(op[1])
    if k == "pop":
        return f"pop:{op[1]}"
    if k in ("lib", "lia"):
        return f"{k}:{1 if op[1] == '' else 0}:{''.join('1' if b else '0' for b in row)}:{wire.enc_str(op[2])}"
    if k in ("oib", "oia"):
        return f"{k}:{op[1]}:{wire.enc_str(op[2])}"
    if k == "del":
        return f"del:{op[1]}"
    if k == "atf":
        return f"atf:{op[1]}:{wire.enc_str(op[2])}:{op[3]}:{1 if op[4] else 0}"
    if k == "rep":
        return f"rep:{op[1]}:{wire.enc_str(op[2])}:{wire.enc_str(op[3])}"
    if k == "sub":
        return f"sub:{op[1]}:{wire.enc_str(newtext)}"
    # ---- other input forms / rejections (C06, channel `editx`): an argument is `<S|L|X>:<text>`
    if k == "insf":
        return f"insf:{op[1]}:{enc_arg(op[2], op[3])}"
    if k in ("oibf", "oiaf"):
        return f"{k}:{op[1]}:{enc_arg(op[2], op[3])}"
    if k in ("libf", "liaf"):
        return f"{k}:{enc_arg(op[1], op[2])}:{''.join('1' if b else '0' for b in row)}:{enc_arg(op[3], op[4])}"
    if k == "atfl":
        return f"atfl:{op[1]}:{wire.enc_str(op[2])}:{op[3]}:{1 if op[4] else 0}"
    if k in ("rem", "del2"):
        return f"{k}:{op[1]}"
    return k


EXT_OPS = ("insf", "oibf", "oiaf", "libf", "liaf", "atfl", "rem", "remf", "remx", "del2")


def enc_arg(form, txt):
    return f"{form}:{wire.enc_str(txt if form != 'X' else '')}"


def mk_arg(form, txt, syntax):
    """the Python value an argument form stands for: `S` the text itself, `L` a line object that is in no list,
    `X` a value that is neither (which one depends on the text only, so that a case is reproducible)"""
    if form == "S":
        return txt
    if form == "L":
        from ciscoconfparse2.ciscoconfparse2 import CFGLINE
        return CFGLINE[syntax](line=txt)
    return [None, 7, ["x"], 1.5, b"x"][len(txt) % 5]


def run_history(case):
    """returns (answer, request line for the model)"""
    quiet_ccp()
    from ciscoconfparse2 import CiscoConfParse
    from ciscoconfparse2.errors import InvalidParameters, ConfigListItemDoesNotExist
    p = T.parse_impl(case)
    auto = case["auto_commit"]
    kw = dict(syntax=case["syntax"], factory=bool(case.get("factory")), ignore_blank_lines=case["ignore_blank"])
    if case["delims"] is not None:
        kw["comment_delimiters"] = list(case["delims"])
    syn = case["syntax"]

    def dump(dirty):
        if dirty:
            return "-~" + wire.enc_strs(p.get_text())
        mine = T.dump_all(p)
        fresh = T.dump_all(CiscoConfParse(list(p.get_text()), **kw))
        return ("=" if mine == fresh else "!") + "~" + mine

    dirty = False
    out = ["ok~" + dump(False)]
    enc = []
    committed = list(p.config_objs.data)      # the objects of the last commit, by committed line number

    def skip(op, row, newtext):
        enc.append(enc_op(op, row, "" if (op[0] == "sub" and newtext is None) else newtext))
        out.append("skip~" + dump(dirty))

    for op in case["ops"]:
        k = op[0]
        status = "ok"
        changed = False
        row = newtext = None
        at = ""
        try:
            if k in ("lib", "lia"):
                row = [re.search(op[1], t) is not None for t in p.get_text()] if op[1] != "" else [False] * len(p.config_objs)
            if k in ("libf", "liaf"):
                # a `str` pattern must be non-empty; the text of a foreign line object is used as it is
                usable = (op[1] == "S" and op[2] != "") or op[1] == "L"
                row = [usable and re.search(op[2], t) is not None for t in p.get_text()]
            if k in ("oib", "oia", "del", "atf", "rep", "sub", "oibf", "oiaf", "atfl", "rem", "del2"):
                if not committed:
                    skip(op, row, newtext)
                    continue
                obj = committed[op[1] % len(committed)]
                present = any(o is obj for o in p.config_objs.data)
                if k in ("del", "atf", "atfl", "rem", "del2") and dirty:
                    # delete()/append_to_family() index by the stored line number, which is documented to be
                    # stale until the next commit; not modelled on an uncommitted state
                    skip(op, row, newtext)
                    continue
                if not present:
                    skip(op, row, newtext)
                    continue
                at = "@%d" % [j for j, o in enumerate(p.config_objs.data) if o is obj][0]
            if k == "ins":
                p.config_objs.insert(op[1], op[2]); changed = True
            elif k == "app":
                p.config_objs.append(op[1]); changed = True
            elif k == "pop":
                p.config_objs.pop(op[1]); changed = True
            elif k == "lib":
                p.config_objs.insert_before(exist_val=op[1], new_val=op[2]); changed = True
            elif k == "lia":
                p.config_objs.insert_after(exist_val=op[1], new_val=op[2]); changed = True
            elif k == "oib":
                obj.insert_before(op[2]); changed = True
            elif k == "oia":
                obj.insert_after(op[2]); changed = True
            elif k == "del":
                obj.delete(); changed = True
            elif k == "atf":
                obj.append_to_family(op[2], indent=op[3], auto_indent=op[4]); changed = True
            elif k == "rep":
                obj.replace_text(op[2], op[3]); changed = True
            elif k == "sub":
                newtext = re.sub(op[2], op[3], obj.text)
                before = obj.text
                obj.re_sub(op[2], op[3])
                changed = newtext != before
            elif k == "insf":
                p.config_objs.insert([None, "1", 1.5][len(op[3]) % 3] if op[1] == "X" else op[1], mk_arg(op[2], op[3], syn)); changed = True
            elif k == "oibf":
                obj.insert_before(mk_arg(op[2], op[3], syn)); changed = True
            elif k == "oiaf":
                obj.insert_after(mk_arg(op[2], op[3], syn)); changed = True
            elif k == "libf":
                p.config_objs.insert_before(exist_val=mk_arg(op[1], op[2], syn), new_val=mk_arg(op[3], op[4], syn)); changed = True
            elif k == "liaf":
                p.config_objs.insert_after(exist_val=mk_arg(op[1], op[2], syn), new_val=mk_arg(op[3], op[4], syn)); changed = True
            elif k == "atfl":
                obj.append_to_family(mk_arg("L", op[2], syn), indent=op[3], auto_indent=op[4]); changed = True
            elif k == "rem":
                p.config_objs.remove(obj); changed = True
            elif k == "remf":
                p.config_objs.remove(mk_arg("L", "zz foreign", syn)); changed = True
            elif k == "remx":
                p.config_objs.remove("a"); changed = True
            elif k == "del2":
                obj.delete(); changed = True
                obj.delete()
            elif k == "commit":
                p.commit(); dirty = False
            elif k == "probe":
                p.find_objects("x")
        except IndexError:
            status = "err:IndexError"
        except InvalidParameters:
            status = "err:InvalidParameters"
        except ConfigListItemDoesNotExist:
            status = "err:ConfigListItemDoesNotExist"
        except NotImplementedError:
            status = "err:NotImplementedError"
        except ValueError:
            status = "err:ValueError"
        except Exception as e:  # noqa: BLE001 — anything else is reported as the operation's outcome, for the oracle to judge
            status = "err:" + type(e).__name__
        if k == "sub" and newtext is None:
            newtext = ""
        if changed and (status == "ok" or k == "del2") and not auto:
            # (`del2`: the first of the two deletes has succeeded when the second one raises)
            dirty = True
        if not dirty:
            committed = list(p.config_objs.data)
        enc.append(enc_op(op, row, newtext))
        out.append(status + at + "~" + dump(dirty))
    ds = T.cfg_delims(case["syntax"], case["delims"])
    if case.get("factory") or any(o[0] in EXT_OPS for o in case["ops"]):
        chan = ("editx", "hist", "1" if case.get("factory") else "0")
    else:
        chan = ("edit",)
    req = wire.req(*chan, "1" if case["syntax"] == "ios" else "0", wire.enc_str("".join(ds)),
                   "1" if case["ignore_blank"] else "0", "1" if auto else "0", str(width_of(case["syntax"])),
                   wire.enc_strs(case["lines"]), *enc)
    return "#".join(out), req


def parse_answer(ans):
    """[(status, fresh, texts, dump-or-None)] per step (step 0 = initial parse)"""
    steps = []
    for part in ans.split("#"):
        status, fresh, dump = part.split("~", 2)
        status, _, at = status.partition("@")
        at = int(at) if at else None
        if fresh == "-":
            steps.append((status, fresh, wire.dec_strs(dump), None, at))
        else:
            f = dump.split("|")
            nat = lambda w: [int(x) for x in w.split(",")] if w else []  # noqa: E731
            texts = wire.dec_strs(f[0])
            steps.append((status, fresh, texts, {
                "linenums": nat(f[1]), "parents": nat(f[2]),
                "children": [nat(w) for w in f[3].split(";")] if texts else [],
            }, at))
    return steps
