"""C06 — edits change exactly the targeted lines."""
import itertools
import re

import wire
from props import editlib as E
from props import treelib as T

ID = "C06"
LEAN_MODULES = ["Ccp.Props.C06"]
# bound of the escalated quick run (source fingerprint changed -> thorough generator): keeps that run near two minutes
ESCALATE_MAX_CASES = 80000
RULE = ("histories of 1..6 editing operations (list insert/append/pop, list-level insert_before/after by regex, object-level "
        "insert_before/after, delete, append_to_family with explicit/auto/no indent, replace_text, re_sub, commit) over 10 seed "
        "configs and random configs of 2..10 lines with duplicate texts, prefix texts (Eth1/Eth10) and regex metacharacters; "
        "auto_commit on and off (+ explicit commits); syntax ios (indent width 1) and nxos (width 2); ignore_blank_lines off and on "
        "(30 % of the random histories, a sample of the single operations, 40 % of the directed stream; configs with blank lines, "
        "blank payloads included). quick: every single operation of a 60-op alphabet on every seed config, random histories, and a "
        "directed stream (auto_commit on, 1..3 ops) aimed at the parent-frame theorems: child-level append_to_family to childless "
        "and to parent targets (as given / auto_indent / explicit indent), object-level inserts at the indent of the line they are "
        "placed next to, list-level inserts by a regex that matches the lines of one indent, list insert(k) of a shallow line, "
        "replace_text that keeps indentation and kind, delete. Banner/macro configs (3 seed configs + 2 with a macro / two banners) get "
        "every single operation except delete/append_to_family (their families are delimited, not indentation based; C07 compares "
        "those trees): text effect, 'lines above the edit keep their parents' and, for insertions at a closed position, 'every line "
        "below keeps its parent or is captured' are judged there. Object-level operations take their object from the committed "
        "tree: while an uncommitted change is pending (auto_commit off) delete/append_to_family are skipped on both sides, because "
        "line numbers of held objects are documented to be stale until commit. non-trivial = a history with at least one successful "
        "mutation; distinct by request. The buckets `frame:*` count the situations of the parent-frame theorems that occurred. "
        "INPUT FORMS AND REJECTIONS (added after a line/branch coverage report of the anchored functions, notes/coverage/C06.json; "
        "channel `editx`, model Ccp.Model.EditForms): stream `forms` = 142 single operations on every seed config (+ a third of them under "
        "ignore_blank_lines, a quarter under nxos with auto_commit off, half of the list-level ones on the banner/macro configs): a "
        "BaseCfgLine object (not in the list) instead of the str as payload of ConfigList.insert, obj.insert_before/after, list-level "
        "insert_before/after and append_to_family; a foreign BaseCfgLine as exist_val of the list-level inserts (its text is the regex, "
        "the empty text included); values that are neither str nor BaseCfgLine as payload or pattern (None, int, list, float, bytes) and "
        "a non-int index for insert (None, '1', 1.5) — the exception class is compared with the model and pinned by the oracle; "
        "ConfigList.remove(obj) / remove(foreign line) / remove(str); `del2` = delete() twice through the same handle "
        "(ConfigListItemDoesNotExist, IndexError, or a second deletion when an equal line has moved to the handle's number; configs with "
        "runs of equal texts make the last two happen). Stream `forms-rand` = 700 histories of 1..4 operations mixing these with the "
        "old alphabet, every third one (ignore_blank_lines off) parsed with factory=True — there every operation, insert and "
        "append_to_family included, is generated and judged like without the factory (both were always refused with InvalidParameters "
        "before the repair of finding F10e; a refusal is now a violation). Stream `cfi` = 260 direct calls of classify_family_indent (str / line object / other value; indents 0..8 against "
        "widths 1 and 2); stream `det` = 120 replace_text / re_sub sequences on a line object that belongs to no configuration.")
LEVEL_TEXT = ("Theorems (Lean 4, Ccp.Props.C06, for all states and payloads of the edit state machine; text effect of one step when the "
              "following commit does not filter, i.e. auto_commit off, or on without ignore_blank_lines): insert(k)/append/pop(k) are exactly "
              "Python's list operations with the index normalisation stated (pop out of range = IndexError, state unchanged); list-level "
              "insert_before/after give the old list with one copy of the payload next to every line whose regex-oracle row entry is true "
              "(explicit flatMap form; length = old + matches; old list is a sublist; everything that is not a copy of the payload untouched; "
              "no match = no change); object-level insert_before/after find their object by identity (posOf: the position p of the list element "
              "carrying that committed line number — also on states with uncommitted changes; every step keeps these identities pairwise "
              "distinct, so p is unique; p = the line number itself on a committed state) and add exactly one line at p / p+1 "
              "(take ++ [txt] ++ drop); delete (committed states only) removes "
              "exactly the positions {i} ∪ all_children(i) (under C03's Forest: i and the lines having i on their ancestor chain; length shrinks "
              "by 1 + |all_children|); replace_text / re_sub change position p only (List.set), an unchanged re_sub is a no-op; a successful "
              "append_to_family inserts exactly one line at the computed index, for a child-level append to a target with children that index "
              "is family_endpoint + 1 (directly after the last descendant); every refused operation leaves the whole state unchanged; options "
              "never change and with auto_commit off only commit replaces the tree. "
              "Parent links (PlainCommitted: committed state, C07's invariant, auto_commit on, no banner/macro start in the config; with OR "
              "without ignore_blank_lines — such a state holds no blank line and its tree is the option-off parse of its texts; the payload "
              "starts no banner/macro and is not blank under ignore_blank_lines, a blank one being dropped again by the commit, "
              "blank_payload_ignored): "
              "(1) the EXACT frame condition of a one-line insertion at position c (InsertFrame, proved from C02's specParent): lines above c "
              "keep their parents; an old line j >= c gets the new line as parent iff it is captured — the new line is a config line shallower "
              "than j, j is not a comment left unattached under a deeper line, and no config line in [c, j) is shallower than j "
              "(captured_iff) — and otherwise keeps its parent index-shifted; instantiated for ConfigList.insert(k), obj.insert_before, "
              "obj.insert_after and every successful append_to_family whatever its index branch (F10b and childless same-indent included: "
              "appendToFamily_parents says exactly which lines change parent). "
              "(2) child-level append_to_family: to a target with children, for every indent width and every payload (comments included) the "
              "line goes to family_endpoint+1 and no old line changes parent; a non-comment payload becomes a child of the target — the former "
              "hypothesis that no config-line child is shallower than the payload is shown to follow from the success of the call for every "
              "width (appendToFamily_children_anywidth; with width 2 the excluded shapes are refused by the code); to a CHILDLESS target that is "
              "a config line the line goes to i+1, becomes the target's only child (comment payloads too) and no old line changes parent. "
              "(3) delete leaves every surviving line's parent at the new position of its old parent, with or without ignore_blank_lines. "
              "(4) obj.insert_before above a config line that is not indented deeper than the payload (e.g. same indent) changes no parent at "
              "all and the new line gets the parent of that line; obj.insert_after of a config line at the indent of the (config) line above "
              "takes over exactly that line's children and becomes its sibling; list-level insert_before/after: removing the copies gives back "
              "the old list and an old line whose new parent is an old line has it at the image of its old parent (MultiFrame), and when the "
              "regex matches only config lines not indented deeper than the payload no old line is adopted by a copy "
              "(listInsertBefore_same_indent). (5) replace_text / re_sub: lines above the position keep their parents whatever the new text is; "
              "when the new text has the indentation and kind of the old one no parent changes. (6) For EVERY config — banner and macro families "
              "included, no restriction on config or payload, blank lines kept — no operation changes the parent of a line above the edited "
              "position (lines_above_keep_parents, from prefix locality of passes 1-3: link_prefix). (7) One line inserted into a config WITH "
              "banner/macro families (blank lines kept) at a position that is not inside a family body (ClosedAt: every banner/macro start "
              "above it finds its terminator above it; payload starts no family): every old line at or below the insertion point keeps its "
              "parent, index-shifted, or is adopted by the new line — only if captured in the sense of captured_iff (InsertFrameW, by a "
              "shifted simulation of the banner and macro walks); instantiated for insert(k), obj.insert_before/after and every successful "
              "append_to_family. Exclusions, each with a decided "
              "counterexample: a comment directly below the insertion point / below a deleted line (C02's comment-under-a-deeper-line rule). "
              "With auto_commit on and ignore_blank_lines the texts are one bootstrap of the auto_commit-off result: a sublist of it keeping "
              "every non-blank line. The model is tied to the code by differential runs of whole histories (texts after every step, tree after "
              "every commit), and the parent-frame theorems are additionally replayed by the Python oracle on the implementation's own trees "
              "(an independent re-implementation of captured_iff). "
              "Input forms (stepX / stepF of Ccp.Model.EditForms, tied to the code by the same differential runs): a BaseCfgLine payload is "
              "its text for insert, obj.insert_before/after and append_to_family (line_payload_is_text); list-level inserts with str "
              "arguments are the operation of the first part (listInsert_str_forms), a foreign line object as pattern is the regex of its "
              "text, empty text included (listInsert_foreign_pattern), a line object as new_val is its text except that the blank-line "
              "guard of ignore_blank_lines looks at str payloads only (listInsert_line_payload) — the blank line object is inserted and, on "
              "a committed plain config, dropped again by the commit: texts and tree unchanged (listInsert_blank_line_dropped); every "
              "value that is neither str nor line, a non-int index, a non-line / foreign argument of remove is refused with the class of its "
              "entry point and the state is unchanged (malformed_rejected, errorsX_leave_state); ConfigList.remove(obj) is delete at list "
              "level: the line and its descendants, nothing else (remove_is_delete, remove_spec); delete() twice through one handle: "
              "always ConfigListItemDoesNotExist with auto_commit off; with auto_commit on refused unless the line now at the handle's "
              "number has the deleted line's text, in which case the stale numbers are deleted once more or IndexError is raised "
              "(deleteTwice_spec); factory=True changes no editing call and no history (factory_neutral), so under the factory "
              "ConfigList.insert -- str or line object -- is exactly list.insert and append_to_family adds exactly the one line of "
              "appendToFamily_spec, a refused call changing nothing (factory_insert_spec, factory_appendToFamily_spec; they replace "
              "factory_insert_refused, which stated the refusal of both before finding F10e was repaired in /repo); classify_family_indent called directly accepts a str only and returns the level difference "
              "(classify_direct); replace_text / re_sub on a detached line are the same text functions (detached_edit).")
LEVEL_NOTE = ("Trusted: Lean kernel, standard axioms, harness. Regexes are oracle data (rows / substituted texts computed with re by the "
              "harness); str.replace is modelled for a non-empty 'before'. Partial: the same-indent append_to_family placement is proved as the "
              "code does it (self + |children|, known finding F10b), not as the property wants it; for a childless target and a same-indent "
              "payload the index is characterised through the code's own helpers (last sibling / last_family_linenum). Known finding F10d: "
              "append_to_family on a comment or blank target (which heads no family) can make following lines children of the new line — "
              "the hypothesis 'the target is a configuration line' of the childless theorem is necessary; appendToFamily_parents says "
              "which lines are captured. Configs with banner or macro starts: covered are the lines ABOVE any edit (lines_above_keep_parents) "
              "and, for one-line insertions at a position outside every family body with a payload that starts no family, the lines below "
              "(InsertFrameW; in the disjunctive form 'keeps its parent or is captured', because inside such configs the tree is not the "
              "indentation tree). Not covered there: insertions inside a banner/macro body (a payload holding the delimiter ends the family "
              "early — decided counterexample), payloads that start a family, delete / replace below the edit, ignore_blank_lines together "
              "with families; for those only C07's 'tree after commit = fresh parse' applies. Not covered: states with uncommitted changes "
              "(auto_commit off), where no tree exists until the commit. The list-level frame is stated over positions of the new list "
              "(rank = old position), not as a closed formula old index -> new index. Finding F10e (with factory=True ConfigList.insert, hence "
              "append_to_family, always raised InvalidParameters: config_line_factory was called without all_lines) is repaired in /repo by "
              "'fix: ConfigList.insert() passes all_lines to config_line_factory() under factory=True'; the model's stepF ignores the flag, and "
              "the class the factory picks for a new line is not modelled (it is not observable in texts or links). "
              "Observed, outside the property (ConfigList.append is typed `value: str`): append(<BaseCfgLine or any non-str>) stores a line "
              "whose text is that object and then raises ValueError from the commit, leaving the list corrupted. Anchored lines never "
              "executed by the quick run: 113 of 379 before the input-form streams, 64 after; the rest is debug logging, branches that "
              "cannot be reached on a consistent tree (children without all_children and the like), a non-bool factory, a non-int "
              "auto_indent_width, and ConfigList.__init__'s argument checks (the constructor is no editing operation).")
ASSUMPTIONS = ["object handles are used only on a committed state (the one stale-handle case modelled is delete() twice in a row)",
               "auto_indent_width is the syntax default (1, or 2 for nxos)"]
TRUSTED = ["regex oracle rows", "str.replace modelled for non-empty 'before'"]
EXHAUSTIVE = {"quick": False, "thorough": False}


def single_ops():
    ops = []
    for txt in ["x", " y", "  z", "interface Eth1", ""]:
        ops += [["ins", 0, txt], ["ins", 2, txt], ["ins", -1, txt], ["app", txt]]
        for h in range(6):
            ops += [["oib", h, txt], ["oia", h, txt], ["atf", h, txt, -1, False]]
    for h in range(6):
        ops += [["del", h], ["atf", h, "q", -1, True], ["atf", h, "q", 2, False], ["rep", h, "a", "zz"], ["sub", h, "a|b", "Q"]]
    for rx in E.REGEXES:
        ops += [["lib", rx, "new"], ["lia", rx, " new"]]
    ops += [["pop", -1], ["pop", 0], ["pop", 9]]
    return ops


def seeds():
    # banner/macro families are delimited, not indentation based; appending to them is C07's (commit) business only
    return [c for c in E.SEED_CONFIGS if not any(T.BANNER_RE.search(l) or l[:11] == "macro name " for l in c)]


def plain_config(rng, blanks):
    """a config without banner / macro starts; with `blanks`, some blank lines (dropped by ignore_blank_lines)"""
    n = rng.randint(2, 10)
    out = []
    for _ in range(n):
        if blanks and rng.random() < 0.2:
            out.append(rng.choice(["", " ", "   "]))
        else:
            out.append(rng.choice(["", " ", "  ", "   ", "    "]) + rng.choice(["a", "b", "Eth1", "Eth10", "a.b", "a(b", "! c"]))
    return out


def directed_ops(rng, lines, width, ign=False):
    """one operation aimed at the situations of the parent-frame theorems: child-level append to a childless
    target, insert next to a line of the same indent, list-level insert above lines of one indent, a replace
    that keeps indentation and kind"""
    h = rng.randrange(0, 64)
    kept = [l for l in lines if not (ign and l.strip() == "")] or ["x"]
    tgt = kept[h % len(kept)]
    ind = len(tgt) - len(tgt.lstrip())
    word = rng.choice(["n", "Eth1", "a", "! k", "a.b"])
    r = rng.random()
    if r < 0.30:
        mode = rng.random()
        if mode < 0.5:
            return ["atf", h, " " * (ind + width) + word, -1, False]
        if mode < 0.8:
            return ["atf", h, word, -1, True]
        return ["atf", h, word, ind + width, False]
    if r < 0.55:
        return [rng.choice(["oib", "oia"]), h, " " * ind + word]
    if r < 0.65:
        return ["ins", rng.choice([0, 1, 2, 3, -1, -2]), " " * rng.choice([0, 1, 2]) + word]
    if r < 0.80:
        k = rng.choice([0, 1, 2])
        rx = "^" + " " * k + r"[^ !]"
        return [rng.choice(["lib", "lia"]), rx, " " * k + word]
    if r < 0.90:
        return ["rep", h, rng.choice(["a", "Eth1", "b", "1"]), rng.choice(["z", "zz", "Po"])]
    return ["del", h]


def banner_seeds():
    return [c for c in E.SEED_CONFIGS if c not in seeds()] + [
        ["hostname a", "macro name m", " x", "y", "@", "interface X", " shutdown"],
        ["a", " b", "banner login ^C", "  deep", "^C", " c", "banner motd #one line#", "d"],
    ]


# ---- the other accepted input forms and the rejections (ops of channel `editx`, see editlib.enc_op):
# ---- S = the text as a str, L = a line object (BaseCfgLine) that is in no list, X = neither
def form_ops():
    ops = []
    for txt in ["n", " n", "! k", " "]:
        ops += [["insf", 0, "L", txt], ["insf", 2, "L", txt], ["insf", -1, "L", txt]]
        for h in range(4):
            ops += [["oibf", h, "L", txt], ["oiaf", h, "L", txt], ["atfl", h, txt, -1, False]]
    for h in range(4):
        ops += [["oibf", h, "X", "x" * h], ["oiaf", h, "X", "x" * h], ["atfl", h, "q", -1, True], ["atfl", h, "q", 2, False],
                ["rem", h], ["del2", h]]
    ops += [["insf", "X", "S", "n"], ["insf", "X", "L", "nn"], ["insf", "X", "X", "nnn"], ["insf", 1, "X", "n"], ["insf", -1, "X", "nn"]]
    for rx in ["a", "^a$", "Eth1", " b", "", "^ ", "zzz", "a.b"]:
        ops += [["libf", "L", rx, "S", "new"], ["liaf", "L", rx, "S", " new"], ["libf", "S", rx, "L", "new"], ["liaf", "S", rx, "L", " "],
                ["libf", "L", rx, "L", " "], ["liaf", "S", rx, "X", "new"]]
    ops += [["libf", "X", "", "S", "new"], ["liaf", "X", "", "L", "new"], ["libf", "X", "", "X", "new"], ["remf"], ["remx"]]
    return ops


def rand_form_op(rng):
    txt = rng.choice(E.PAYLOADS)
    h = rng.randrange(0, 64)
    form = rng.choice(["L", "L", "L", "S", "X"])
    r = rng.random()
    if r < 0.15:
        return ["insf", rng.choice([0, 1, 2, -1, -2, 99, "X"]), form, txt]
    if r < 0.35:
        return [rng.choice(["oibf", "oiaf"]), h, form, txt]
    if r < 0.55:
        return [rng.choice(["libf", "liaf"]), rng.choice(["L", "L", "S", "X"]), rng.choice(E.REGEXES + ["", " b", "a"]), form, txt]
    if r < 0.70:
        mode = rng.random()
        if mode < 0.4:
            return ["atfl", h, txt, -1, False]
        if mode < 0.7:
            return ["atfl", h, txt.lstrip() or "x", -1, True]
        return ["atfl", h, txt, rng.choice([1, 2, 3, 4]), rng.random() < 0.1]
    if r < 0.82:
        return ["rem", h]
    if r < 0.94:
        return ["del2", h]
    return [rng.choice(["remf", "remx"])]


def rand_form_ops(rng, n, auto):
    ops = []
    for _ in range(n):
        if rng.random() < 0.5:
            ops += E.rand_ops(rng, 1, auto)
        else:
            ops.append(rand_form_op(rng))
            if not auto and rng.random() < 0.25:
                ops.append(["commit"])
    return ops


def dup_config(rng):
    """short configs with equal texts in a row: after a delete the same text can sit at the deleted line's number
    (the one situation in which a second delete() through the same handle is not refused)"""
    out = []
    for _ in range(rng.randint(2, 7)):
        out.append(rng.choice(["", "", " ", "  "]) + rng.choice(["a", "a", "a", "b"]))
    return out


def aux_cases(rng, tier):
    """calls that are not part of a history: classify_family_indent called directly (any argument form), and
    replace_text / re_sub on a line object that belongs to no configuration"""
    n = {"quick": 260, "thorough": 6000, "search": 200}[tier]
    for _ in range(n):
        syntax = rng.choice(["ios", "ios", "nxos", "asa"])
        st = " " * rng.choice([0, 0, 1, 2, 3, 4, 6]) + rng.choice(["a", "interface Eth1", "! c"])
        form = rng.choice(["S", "S", "S", "S", "S", "L", "X"])
        txt = " " * rng.choice([0, 1, 2, 3, 4, 5, 6, 8]) + rng.choice(["x", "", "! k", "a b"])
        yield {"kind": "cfi", "syntax": syntax, "self": st, "form": form, "txt": txt, "_origin": "cfi",
               "req": wire.req("editx", "cfi", str(E.width_of(syntax)), wire.enc_str(st), form,
                               wire.enc_str(txt if form != "X" else ""))}
    m = {"quick": 120, "thorough": 3000, "search": 100}[tier]
    for _ in range(m):
        text = rng.choice(E.PAYLOADS + [" a.b a(b", "Eth1 Eth10 Eth1"])
        ops = []
        for _ in range(rng.choice([1, 2, 3])):
            if rng.random() < 0.5:
                ops.append(["rep", rng.choice(["a", "Eth1", "b", " ", "1.1", "{", "("]), rng.choice(["", "z", "a", "{q}"])])
            else:
                ops.append(["sub", rng.choice(E.REGEXES[:10]), rng.choice(["", "z", r"\g<0>\g<0>", "a"])])
        # the substituted texts are oracle data of the model (as in a history), computed here on the harness's own
        # replay of the operations, not on what the implementation returned
        cur, enc = text, []
        for o in ops:
            cur = cur.replace(o[1], o[2]) if o[0] == "rep" else re.sub(o[1], o[2], cur)
            enc.append(f"rep:{wire.enc_str(o[1])}:{wire.enc_str(o[2])}" if o[0] == "rep" else "sub:" + wire.enc_str(cur))
        yield {"kind": "det", "syntax": rng.choice(["ios", "nxos", "asa"]), "text": text, "ops": ops, "_origin": "det",
               "req": wire.req("editx", "det", wire.enc_str(text), *enc)}


def cases(rng, tier):
    if tier != "search":
        for lines in seeds():
            for op in single_ops():
                for syntax in ("ios", "nxos"):
                    yield E.mk_case(syntax, False, True, lines, [op], "single")
            # the same single operations under ignore_blank_lines (a sample; blank payloads included)
            for op in single_ops()[::3]:
                yield E.mk_case("ios", True, True, lines, [op], "single-ign")
        # configs with banner / macro families: text effect and `lines_above_keep_parents` only (their families
        # are delimited, not indentation based; delete / append_to_family on them are C07's)
        for lines in banner_seeds():
            for op in single_ops():
                if op[0] in ("del", "atf"):
                    continue
                yield E.mk_case("ios", False, True, lines, [op], "single-banner")
    n = {"quick": 1200, "thorough": 60000, "search": 2500}[tier]
    for _ in range(n):
        syntax = rng.choice(["ios", "ios", "nxos", "asa", "iosxr"])
        auto = rng.random() < 0.6
        ign = rng.random() < 0.3
        if rng.random() < 0.5:
            lines = rng.choice(seeds())
        else:
            lines = plain_config(rng, ign and rng.random() < 0.5)
        yield E.mk_case(syntax, ign, auto, lines, E.rand_ops(rng, rng.choice([1, 2, 3, 4, 6]), auto))
    # directed stream: auto-commit on (the parent theorems speak about committed states), 1..3 operations
    m = {"quick": 900, "thorough": 30000, "search": 1500}[tier]
    for _ in range(m):
        syntax = rng.choice(["ios", "ios", "nxos", "asa"])
        ign = rng.random() < 0.4
        if rng.random() < 0.4:
            lines = rng.choice(seeds())
        else:
            lines = plain_config(rng, ign and rng.random() < 0.5)
        ops = [directed_ops(rng, lines, E.width_of(syntax), ign) for _ in range(rng.choice([1, 1, 2, 3]))]
        yield E.mk_case(syntax, ign, True, lines, ops, "directed")
    # the input-form streams come last: the cases above are, seed by seed, the ones generated before they existed
    if tier != "search":
        fo = form_ops()
        for lines in seeds():
            for op in fo:
                yield E.mk_case("ios", False, True, lines, [op], "forms")
            for op in fo[::3]:
                yield E.mk_case("ios", True, True, lines, [op], "forms-ign")
            for op in fo[1::4]:
                yield E.mk_case("nxos", False, False, lines, [op], "forms-nxos")
        for lines in banner_seeds():
            for op in fo[::2]:
                if op[0] in ("atfl", "rem", "del2"):
                    continue
                yield E.mk_case("ios", False, True, lines, [op], "forms-banner")
    nf = {"quick": 700, "thorough": 30000, "search": 1200}[tier]
    for j in range(nf):
        syntax = rng.choice(["ios", "ios", "nxos", "asa", "iosxr"])
        auto = rng.random() < 0.7
        ign = rng.random() < 0.3
        r = rng.random()
        if r < 0.35:
            lines = rng.choice(seeds())
        elif r < 0.65:
            lines = dup_config(rng)
        else:
            lines = plain_config(rng, ign and rng.random() < 0.5)
        # every third history runs with factory=True (the lines are then built by config_line_factory)
        ops = rand_form_ops(rng, rng.choice([1, 2, 3, 4]), auto)
        factory = j % 3 == 0 and not ign      # (CiscoConfParse refuses factory together with ignore_blank_lines)
        yield E.mk_case(syntax, ign, auto, lines, ops, "forms-rand", factory=factory)
    yield from aux_cases(rng, tier)


def neighbours(case, rng):
    if case.get("kind"):
        return
    for _ in range(150):
        ops = list(case["ops"])
        if len(ops) > 1 and rng.random() < 0.5:
            del ops[rng.randrange(len(ops))]
        else:
            ops.insert(rng.randrange(len(ops) + 1), E.rand_ops(rng, 1, case["auto_commit"])[0])
        yield E.mk_case(case["syntax"], case["ignore_blank"], case["auto_commit"], case["lines"], ops,
                        factory=case.get("factory", False))


def impl(case):
    if case.get("kind") == "cfi":
        return impl_cfi(case)
    if case.get("kind") == "det":
        return impl_det(case)
    return E.run_history(case)


def impl_cfi(case):
    from props.common import quiet_ccp
    quiet_ccp()
    from ciscoconfparse2 import CiscoConfParse
    p = CiscoConfParse([case["self"]], syntax=case["syntax"], factory=False)
    try:
        return str(p.config_objs[0].classify_family_indent(E.mk_arg(case["form"], case["txt"], case["syntax"])))
    except Exception as e:  # noqa: BLE001 — the class is the outcome
        return "err:" + type(e).__name__


def impl_det(case):
    from props.common import quiet_ccp
    quiet_ccp()
    obj = E.mk_arg("L", case["text"], case["syntax"])
    out = []
    for o in case["ops"]:
        try:
            if o[0] == "rep":
                obj.replace_text(o[1], o[2])
            else:
                obj.re_sub(o[1], o[2])
            out.append(wire.enc_str(obj.text))
        except Exception as e:  # noqa: BLE001
            out.append("err:" + type(e).__name__)
    return "|".join(out)


def oracle_aux(case, ans):
    if case["kind"] == "cfi":
        width = E.width_of(case["syntax"])
        if case["form"] != "S":
            return [] if ans == "err:InvalidParameters" else [f"classify_family_indent({case['form']}-form argument): {ans}, expected InvalidParameters"]
        it = len(case["txt"]) - len(case["txt"].lstrip())
        si = len(case["self"]) - len(case["self"].lstrip())
        if it % width != 0:
            return [] if ans == "err:NotImplementedError" else [f"indent {it} is no multiple of {width}: {ans}, expected NotImplementedError"]
        if ans.startswith("err:") or not re.fullmatch(r"-?\d+", ans):
            return [f"unexpected {ans}"]
        d = it - si
        if d % width == 0:
            return [] if int(ans) == d // width else [f"classify_family_indent = {ans}, expected {d // width} levels"]
        # the object itself is not on a multiple of the width: the docstring is silent; between floor and ceiling
        return [] if d // width <= int(ans) <= -((-d) // width) else [f"classify_family_indent = {ans} for an indent difference of {d}"]
    cur, want = case["text"], []
    for o in case["ops"]:
        cur = cur.replace(o[1], o[2]) if o[0] == "rep" else re.sub(o[1], o[2], cur)
        want.append(wire.enc_str(cur))
    return [] if ans == "|".join(want) else [f"detached line: texts {ans} expected {'|'.join(want)}"]


def rejection(case, op):
    """the error the new entry points must answer a malformed form with (None = the call must be accepted)"""
    k = op[0]
    ign = case["ignore_blank"]
    if k == "insf":
        if op[1] == "X":
            return "err:ValueError"
        if op[2] == "X":
            return "err:TypeError"
    elif k in ("oibf", "oiaf"):
        if op[2] == "X":
            return "err:NotImplementedError"
        if op[3].strip() == "" and ign:
            return "err:InvalidParameters"
    elif k in ("libf", "liaf"):
        if op[3] == "S" and op[4].strip() == "" and ign:
            return "err:InvalidParameters"
        if op[1] == "X" or (op[1] == "S" and op[2] == "") or op[3] == "X":
            return "err:ValueError"
    elif k == "remf":
        return "err:ValueError"
    elif k == "remx":
        return "err:InvalidParameters"
    return None


def canon(op):
    """an accepted form, as the operation on texts it stands for"""
    k = op[0]
    if k == "insf":
        return ["ins", op[1], op[3]]
    if k in ("oibf", "oiaf"):
        return [k[:3], op[1], op[3]]
    if k in ("libf", "liaf"):
        return [k[:3], op[2], op[4]]
    if k == "atfl":
        return ["atf"] + op[1:]
    if k == "rem":
        return ["del", op[1]]
    return op


def descendants(parents, i):
    out = []
    for j in range(len(parents)):
        k = j
        while parents[k] != k:
            k = parents[k]
            if k == i:
                out.append(j)
                break
    return out


def py_insert(lst, k, x):
    l2 = list(lst)
    l2.insert(k, x)
    return l2


# ---- the indentation rule seen from the texts only (independent of the model): used to replay the parent-frame
# ---- theorems of Ccp.Props.C06 on the implementation's own dumps
def line_info(t, delims):
    st = t.lstrip()
    cmt = st != "" and st[0] in delims
    return (len(t) - len(st), st != "" and not cmt, cmt)     # indent, is_config_line, is_comment


def is_plain(lines):
    return not any(T.BANNER_RE.search(l) or l[:11] == "macro name " for l in lines)


def comment_under_deeper(infos, j):
    return j > 0 and infos[j][2] and infos[j - 1][0] > infos[j][0]


def captured(infos, x, c, j):
    """`captured_iff`: old line j >= c is adopted by the line x inserted at c"""
    l = infos[j]
    return (x[1] and x[0] < l[0] and not comment_under_deeper(infos, j)
            and all(infos[m][0] >= l[0] for m in range(c, j) if infos[m][1]))


def frame_insert(prev, par0, cur, par1, c, txt, delims):
    """InsertFrame: one line `txt` inserted at position c"""
    if cur != prev[:c] + [txt] + prev[c:]:
        return None            # the text effect is judged elsewhere
    infos = [line_info(t, delims) for t in prev]
    x = line_info(txt, delims)
    bad = []
    for j in range(len(prev)):
        if j < c:
            if par1[j] != par0[j]:
                bad.append(j)
            continue
        if j == c and infos[j][2]:
            continue           # a comment directly behind the new line (C02's legacy rule)
        want = c if captured(infos, x, c, j) else (par0[j] if par0[j] < c else par0[j] + 1)
        if par1[j + 1] != want:
            bad.append(j)
    return f"insert-frame: old lines {bad} do not have the parent the frame theorem gives" if bad else None


def frame_multi(prev, par0, cur, par1, rows, after, txt, delims):
    """MultiFrame: a copy of `txt` before / after every matching line"""
    origin = []
    for i, t in enumerate(prev):
        if rows[i] and not after:
            origin.append(None)
        origin.append(i)
        if rows[i] and after:
            origin.append(None)
    want = [txt if o is None else prev[o] for o in origin]
    if cur != want:
        return None
    bad = []
    for q, o in enumerate(origin):
        if o is None:
            continue
        if line_info(cur[q], delims)[2] and q > 0 and origin[q - 1] is None:
            continue
        np_ = par1[q]
        if origin[np_] is None:
            # adopted by a copy: only possible when the copy is a config line shallower than the line
            xi = line_info(txt, delims)
            if not (xi[1] and xi[0] < line_info(cur[q], delims)[0]):
                bad.append(q)
            continue
        if par0[o] != origin[np_]:
            bad.append(q)
    return f"multi-insert-frame: new positions {bad} hold old lines with an unexpected parent" if bad else None


def frame_replace(prev, par0, cur, par1, p, delims):
    bad = [j for j in range(min(p, len(prev), len(cur))) if par1[j] != par0[j]]
    if not bad and len(cur) == len(prev) and line_info(cur[p], delims) == line_info(prev[p], delims) and par1 != par0:
        bad = [j for j in range(len(prev)) if par1[j] != par0[j]]
    return f"replace-frame: lines {bad} changed parent" if bad else None


def frame_delete(prev, par0, cur, par1, gone, delims):
    keep = [j for j in range(len(prev)) if j not in gone]
    if cur != [prev[j] for j in keep]:
        return None
    rank = {j: r for r, j in enumerate(keep)}
    bad = []
    for j in keep:
        if line_info(prev[j], delims)[2] and j > 0 and (j - 1) in gone:
            continue
        if par0[j] not in rank or par1[rank[j]] != rank[par0[j]]:
            bad.append(j)
    return f"delete-frame: surviving lines {bad} changed parent" if bad else None


def is_start(t, ios):
    return bool(T.BANNER_RE.search(t)) or (ios and t[:11] == "macro name ")


def closed_at(lines, c, ios):
    """`ClosedAt`: every banner / macro start above c finds its terminator above c"""
    for p in range(min(c, len(lines))):
        x = lines[p]
        if T.BANNER_RE.search(x):
            m = T.BANNER_DELIM_RE.search(x)
            if m is not None:
                d = m.group("bchar")
                if len(x.split(d)) <= 2 and not any(d in lines[q].strip() for q in range(p + 1, c)):
                    return False
        if ios and x[:11] == "macro name " and not any(lines[q].rstrip() == "@" for q in range(p + 1, c)):
            return False
    return True


def frame_insert_families(prev, par0, cur, par1, c, txt, delims):
    """InsertFrameW: insertion at a closed position of a config with banner / macro families"""
    if cur != prev[:c] + [txt] + prev[c:]:
        return None
    infos = [line_info(t, delims) for t in prev]
    x = line_info(txt, delims)
    bad = []
    for j in range(c, len(prev)):
        if j == c and infos[j][2]:
            continue
        keeps = par1[j + 1] == (par0[j] if par0[j] < c else par0[j] + 1)
        adopted = par1[j + 1] == c and captured(infos, x, c, j)
        if not (keeps or adopted):
            bad.append(j)
    return f"insert-frame (families): old lines {bad} neither keep their parent nor are captured by the new line" if bad else None


def ins_pos(n, k):
    return max(0, n + k) if k < 0 else min(k, n)


def oracle(case, ans):
    if case.get("kind"):
        return oracle_aux(case, ans)
    steps = E.parse_answer(ans)
    fails = []
    width = E.width_of(case["syntax"])
    ign = case["ignore_blank"]
    delims = T.cfg_delims(case["syntax"], case["delims"])
    for idx, op in enumerate(case["ops"]):
        st_prev, _, prev, dump_prev, _ = steps[idx]
        status, _, cur, dump_cur, at = steps[idx + 1]
        k = op[0]
        tag = f"step {idx} {op}"
        if dump_cur is not None and (dump_cur["linenums"] != list(range(len(cur)))
                                     or len(dump_cur["parents"]) != len(cur)
                                     or any(not (0 <= q <= j) for j, q in enumerate(dump_cur["parents"]))):
            # a committed tree whose line numbers are not 0..n-1 or whose parent links point outside / forwards:
            # nothing below can be judged on it
            fails.append(f"{tag}: committed tree is not well-formed (linenums {dump_cur['linenums']}, parents {dump_cur['parents']})")
            break
        if status == "skip":
            if cur != prev:
                fails.append(f"{tag}: skipped but the text changed")
            continue
        if k in E.EXT_OPS:
            # the other input forms: a malformed one is refused with the class of its entry point and changes
            # nothing; an accepted one is judged as the operation on texts it stands for
            want_err = rejection(case, op)
            if want_err is not None:
                if status != want_err:
                    fails.append(f"{tag}: {status}, expected {want_err}")
                elif cur != prev:
                    fails.append(f"{tag}: {status} but the text changed")
                continue
            if k == "del2":
                f = check_del2(case, status, at, prev, cur, dump_prev, dump_cur)
                if f:
                    fails.append(f"{tag}: {f}")
                continue
            if status != "ok" and not (k == "atfl" and status == "err:NotImplementedError"):
                fails.append(f"{tag}: unexpected {status}")
                continue
            op = canon(op)
            k = op[0]
        if status != "ok":
            if cur != prev:
                fails.append(f"{tag}: {status} but the text changed")
            allowed = set()
            if k == "pop":
                if not (-len(prev) <= op[1] < len(prev)):
                    allowed.add("err:IndexError")
            elif k in ("lib", "lia", "oib", "oia"):
                if op[2].strip() == "" and case["ignore_blank"]:
                    allowed.add("err:InvalidParameters")
                if k in ("lib", "lia") and op[1] == "":
                    allowed.add("err:ValueError")
            elif k == "atf":
                allowed.add("err:NotImplementedError")     # unsupported indentation relations are refused by design
            elif k in ("sub", "probe"):
                allowed.add("err:NotImplementedError")     # search_safe refusal; C07 judges when it must happen
            if status not in allowed:
                fails.append(f"{tag}: unexpected {status}")
            continue
        n = len(prev)
        rows = None
        if k == "ins":
            want = py_insert(prev, op[1], op[2])
        elif k == "app":
            want = prev + [op[1]]
        elif k == "pop":
            want = list(prev); want.pop(op[1])
        elif k in ("lib", "lia"):
            want = []
            rows = [re.search(op[1], t) is not None for t in prev]
            for t, hit in zip(prev, rows):
                if hit and k == "lib":
                    want.append(op[2])
                want.append(t)
                if hit and k == "lia":
                    want.append(op[2])
        elif k in ("oib", "oia"):
            i = at
            want = prev[:i] + [op[2]] + prev[i:] if k == "oib" else prev[:i + 1] + [op[2]] + prev[i + 1:]
        elif k == "del":
            i = at
            gone = {i} | set(descendants(dump_prev["parents"], i))
            want = [t for j, t in enumerate(prev) if j not in gone]
        elif k == "rep":
            i = at
            want = list(prev); want[i] = prev[i].replace(op[2], op[3])
        elif k == "sub":
            i = at
            want = list(prev); want[i] = re.sub(op[2], op[3], prev[i])
        elif k == "atf":
            i = at
            f = check_atf(case, op, i, prev, cur, dump_prev, dump_cur, width)
            if f:
                fails.append(f"{tag}: {f}")
            continue
        else:
            want = prev
        if ign and dump_cur is not None:
            # the commit that followed dropped the blank lines (no banner / macro bodies in these configs)
            want = [t for t in want if t.strip() != ""]
        if cur != want:
            fails.append(f"{tag}: texts {cur!r} expected {want!r}")
            continue
        # ---- replay of the parent-frame theorems on the implementation's own trees (committed states)
        if dump_prev is None or dump_cur is None:
            continue
        if not ign:
            # `lines_above_keep_parents`: any config, banner / macro families included
            npre = 0
            while npre < min(len(prev), len(cur)) and prev[npre] == cur[npre]:
                npre += 1
            bad = [j for j in range(npre) if dump_cur["parents"][j] != dump_prev["parents"][j]]
            if bad:
                fails.append(f"{tag}: prefix-frame: lines {bad} above the edited position changed parent")
                continue
        par0, par1 = dump_prev["parents"], dump_cur["parents"]
        if not is_plain(prev) or not is_plain(cur):
            # `insert_parents_families` / `objInsert_parents_families`: closed position, payload starts no family
            ios = case["syntax"] == "ios"
            if k in ("ins", "oib", "oia") and not ign and not is_start(op[2], ios):
                c = ins_pos(n, op[1]) if k == "ins" else (at if k == "oib" else at + 1)
                if closed_at(prev, c, ios):
                    f = frame_insert_families(prev, par0, cur, par1, c, op[2], delims)
                    if f:
                        fails.append(f"{tag}: {f}")
            continue
        f = None
        if k in ("ins", "oib", "oia") and not (ign and op[2].strip() == ""):
            c = ins_pos(n, op[1]) if k == "ins" else (at if k == "oib" else at + 1)
            f = frame_insert(prev, par0, cur, par1, c, op[2], delims)
        elif k in ("lib", "lia"):
            f = frame_multi(prev, par0, cur, par1, rows, k == "lia", op[2], delims)
        elif k in ("rep", "sub") and len(cur) == len(prev):
            f = frame_replace(prev, par0, cur, par1, at, delims)
        elif k == "del":
            f = frame_delete(prev, par0, cur, par1, gone, delims)
        if f:
            fails.append(f"{tag}: {f}")
    return fails[:3]


def check_del2(case, status, i, prev, cur, dump_prev, dump_cur):
    """delete() twice through the same handle: the first removes the line and its descendants; the second is refused
    with ConfigListItemDoesNotExist unless a line with the same text now sits at the handle's line number — then it
    deletes the handle's (stale) line numbers once more, or raises IndexError when they no longer exist"""
    gone = {i} | set(descendants(dump_prev["parents"], i))
    once = [t for j, t in enumerate(prev) if j not in gone]
    same_place = case["auto_commit"] and i < len(once) and once[i] == prev[i]
    if status == "err:ConfigListItemDoesNotExist":
        if same_place:
            return "refused although an equal line is at the handle's line number"
        return None if cur == once else f"texts {cur!r} expected {once!r} (one delete)"
    if not same_place:
        return f"{status}, expected ConfigListItemDoesNotExist (the line is gone)"
    if status == "err:IndexError":
        if max(gone) < len(once):
            return "IndexError although every stale line number exists"
        return None if cur == once else f"texts {cur!r} expected {once!r} (one delete)"
    if status != "ok":
        return f"unexpected {status}"
    twice = [t for j, t in enumerate(once) if j not in gone]
    return None if cur == twice else f"texts {cur!r} expected {twice!r}"


def check_atf(case, op, i, prev, cur, dump_prev, dump_cur, width):
    """exactly one line added, all other lines keep text and order; a child-level append lands inside the
    target's family and no existing line changes parent"""
    if case["ignore_blank"] and op[2].strip() == "" and dump_cur is not None:
        # a blank payload under ignore_blank_lines is dropped again by the commit (`blank_payload_ignored`)
        return None if cur == prev else f"blank payload under ignore_blank_lines: texts {cur!r} from {prev!r}"
    if len(cur) != len(prev) + 1:
        return f"{len(cur) - len(prev)} lines added"
    cands = [j for j in range(len(cur)) if cur[:j] + cur[j + 1:] == prev]
    if not cands:
        return f"other lines changed: {cur!r} from {prev!r}"
    # adjacent identical lines make several positions indistinguishable: prefer a position holding the payload,
    # and among those one inside the target's family (any such reading satisfies the property)
    good = [j for j in cands if cur[j].lstrip() == op[2].lstrip()] or cands
    pos = good[0]
    if dump_prev is not None:
        fam0 = [i] + descendants(dump_prev["parents"], i)
        inside = [j for j in good if i < j <= max(fam0) + 1]
        if inside:
            pos = inside[0]
    new = cur[pos]
    if new.lstrip() != op[2].lstrip():
        return f"inserted text {new!r} is not the payload {op[2]!r}"
    ind0 = len(prev[i]) - len(prev[i].lstrip())
    want_txt = (" " * op[3] + op[2].lstrip()) if op[3] > 0 else ((" " * (ind0 + width) + op[2].lstrip()) if op[4] else op[2])
    if not any(cur[j] == want_txt for j in good):
        return f"inserted text {new!r}, expected {want_txt!r} (explicit indent / auto_indent = target indent + width / as given)"
    if dump_cur is None or dump_prev is None:
        return None
    ind = lambda t: len(t) - len(t.lstrip())  # noqa: E731
    delims = T.cfg_delims(case["syntax"], case["delims"])
    if not is_plain(prev) or not is_plain(cur):
        return None      # banner / macro families are delimited, not indentation based (C07 compares their trees)
    tgt = prev[i].lstrip()
    # parents of the old lines, before and after (indices shifted by the insertion)
    shift = lambda j: j if j < pos else j + 1  # noqa: E731
    is_cmt = lambda t: t.lstrip()[:1] != "" and t.lstrip()[0] in T.cfg_delims(case["syntax"], case["delims"])  # noqa: E731
    # a comment's attachment follows the legacy rule of C02 (it depends on the indent of the line directly above it),
    # so comments are not counted as "existing lines that changed parent"
    moved = [j for j in range(len(prev)) if not is_cmt(prev[j])
             and shift(dump_prev["parents"][j]) != dump_cur["parents"][shift(j)]]
    if tgt == "" or tgt[0] in delims:
        # a comment or blank line heads no family: the new line cannot become its child; the clause "no existing line
        # changes parent" is judged all the same (known finding F10d)
        if moved and ind(new) != ind(prev[i]):
            return f"noncfg-target-reparent: target {prev[i]!r} is a comment/blank line; old lines {moved} changed parent"
        if moved:
            return f"same-indent-reparent: old lines {moved} changed parent"
        return None
    child_level = ind(new) == ind(prev[i]) + width
    if child_level:
        fam = [i] + descendants(dump_prev["parents"], i)
        if not (i < pos <= max(fam) + 1):
            return f"child-level append landed at {pos}, outside the family {fam} of line {i}"
        newl = new.lstrip()
        payload_is_config = newl != "" and newl[0] not in delims
        childless = not any(q == i and j != i for j, q in enumerate(dump_prev["parents"]))
        # a comment payload is attached by C02's legacy rule: to the target when it lands directly below it (childless
        # target, `appendToFamily_childless_keeps_parents`), possibly nowhere when it lands below a deeper line
        if (payload_is_config or childless) and dump_cur["parents"][pos] != i:
            return f"new line's parent is {dump_cur['parents'][pos]}, not the target {i}"
    if moved:
        return ("same-indent-reparent" if not child_level else "child-level-reparent") + f": old lines {moved} changed parent"
    return None


def known_id(case, failure):
    if "same-indent-reparent" in failure:
        return "F10b"
    if "noncfg-target-reparent" in failure:
        return "F10d"
    return None


def nontrivial(case):
    if case.get("kind"):
        return True
    return any(o[0] not in ("commit", "probe") for o in case["ops"])


def describe(case):
    if case.get("kind"):
        return {k: v for k, v in case.items() if k not in ("req", "_origin")}
    return {k: case[k] for k in ("syntax", "auto_commit", "lines", "ops", "factory", "ignore_blank")}


def buckets(case, ans):
    if case.get("kind") == "cfi":
        return ["aux:cfi:" + case["form"] + ":" + ("err" if ans.startswith("err:") else "int"), "syntax:" + case["syntax"]]
    if case.get("kind") == "det":
        return ["aux:det:ops:%d" % len(case["ops"])]
    out = ["factory:%d" % bool(case.get("factory")), "syntax:" + case["syntax"], "auto:%d" % case["auto_commit"], "ops:%d" % len(case["ops"]),
           "ignore_blank:%d" % case["ignore_blank"]]
    for op, part in zip(case["ops"], ans.split("#")[1:]):
        out.append("op:" + op[0] + ":" + part.split("~")[0].split("@")[0])
    # the situations of the parent-frame theorems (committed plain states, successful operation)
    try:
        steps = E.parse_answer(ans)
    except Exception:  # noqa: BLE001
        return out
    delims = T.cfg_delims(case["syntax"], case["delims"])
    width = E.width_of(case["syntax"])
    ign = "ign" if case["ignore_blank"] else "noign"
    for idx, op in enumerate(case["ops"]):
        _, _, prev, dp, _ = steps[idx]
        status, _, cur, dc, at = steps[idx + 1]
        if status != "ok" or dp is None or dc is None:
            continue
        if op[0] in E.EXT_OPS:
            if rejection(case, op) is not None or op[0] == "del2":
                continue
            op = canon(op)
        k = op[0]
        if not is_plain(prev) or not is_plain(cur):
            ios = case["syntax"] == "ios"
            if k in ("ins", "oib", "oia") and len(cur) == len(prev) + 1:
                c = ins_pos(len(prev), op[1]) if k == "ins" else (at if k == "oib" else at + 1)
                out.append("frame:families:%s:%s:%s" % (k, "closed" if closed_at(prev, c, ios) else "inside-body",
                                                        "start-payload" if is_start(op[2], ios) else "plain-payload"))
            continue
        infos = [line_info(t, delims) for t in prev]
        if k == "atf" and at is not None and len(cur) == len(prev) + 1:
            kids = [j for j, q in enumerate(dp["parents"]) if q == at and j != at]
            cands = [j for j in range(len(cur)) if cur[:j] + cur[j + 1:] == prev]
            lvl = "?"
            if cands:
                d = line_info(cur[cands[0]], delims)[0] - infos[at][0]
                lvl = "child" if d == width else ("same" if d == 0 else "other")
            kind = "cfg" if infos[at][1] else "noncfg"
            out.append(f"frame:atf:{'childless' if not kids else 'parent'}:{lvl}:{kind}-target:{ign}")
        elif k in ("oib", "oia") and at is not None and len(cur) == len(prev) + 1:
            x = line_info(op[2], delims)
            rel = "same-indent" if x[0] == infos[at][0] else ("deeper" if x[0] > infos[at][0] else "shallower")
            c = at if k == "oib" else at + 1
            cap = sum(1 for j in range(c, len(prev)) if captured(infos, x, c, j))
            out.append(f"frame:{k}:{rel}:{'cfg' if infos[at][1] else 'noncfg'}-target:{'captures' if cap else 'no-capture'}:{ign}")
        elif k == "ins" and len(cur) == len(prev) + 1:
            x = line_info(op[2], delims)
            c = ins_pos(len(prev), op[1])
            cap = sum(1 for j in range(c, len(prev)) if captured(infos, x, c, j))
            out.append(f"frame:ins:{'captures' if cap else 'no-capture'}:{ign}")
        elif k in ("lib", "lia"):
            rows = [re.search(op[1], t) is not None for t in prev] if op[1] != "" else []
            hits = [i for i, b in enumerate(rows) if b]
            if hits:
                x = line_info(op[2], delims)
                same = all(infos[i][1] and infos[i][0] <= x[0] for i in hits)
                out.append(f"frame:{k}:matches>0:{'all-cfg-not-deeper' if same else 'mixed'}:{ign}")
        elif k in ("rep", "sub") and at is not None and len(cur) == len(prev) and cur != prev:
            out.append(f"frame:{k}:{'same-info' if line_info(cur[at], delims) == infos[at] else 'info-changed'}:{ign}")
        elif k == "del" and len(cur) < len(prev):
            out.append(f"frame:del:{ign}")
    return out


# ================================================================== two live instances (stream `pair`, see props/pairlib.py)
# Appended as wrappers around the functions above, so that the single-instance streams and their seeds stay as they were.
# A pair case: two configs from one template, BOTH parsed first (same or different syntax -- hence indent width --,
# ignore_blank_lines, auto_commit); an edit history on A with a look at B before every operation and after the last
# (texts, line numbers, links, family views, two recursive searches: B must not change), then a history on B with the same
# watch on A.  Each history is run by editlib.run_history itself, judged by the oracle above on its own case and
# compared with the model's answer for that history alone; every look is compared with the model's tree / search answer
# for the texts the watched instance holds.
from props import pairlib as PL  # noqa: E402


def pair_ops(rng, lines, syntax, auto, ign):
    r = rng.random()
    if r < 0.45:
        ops = E.rand_ops(rng, rng.choice([1, 2, 3, 4]), auto)
    elif r < 0.8:
        ops = [directed_ops(rng, lines, E.width_of(syntax), ign) for _ in range(rng.choice([1, 2, 3]))]
    else:
        ops = rand_form_ops(rng, rng.choice([1, 2, 3]), auto)
    return ops + [["commit"]]


def mk_pair(a, b, ops_a, ops_b, muts=(), origin="pair"):
    """a, b: dict(syntax, ignore_blank, auto_commit, lines)"""
    hist = [E.mk_case(c["syntax"], c["ignore_blank"], c["auto_commit"], c["lines"], ops, origin) for c, ops in ((a, ops_a), (b, ops_b))]
    cfgs = [dict(c, delims=None) for c in (a, b)]
    return {"pair": True, "cfgs": cfgs, "hist": hist, "mutations": list(muts), "_origin": origin, "req": None,
            "plan": [0, 1], "ops": ops_a, "lines": a["lines"], "syntax": a["syntax"], "auto_commit": a["auto_commit"],
            "ignore_blank": a["ignore_blank"], "delims": None, "factory": False}


def rand_pair(rng):
    syntax = rng.choice(["ios", "ios", "nxos", "asa"])
    ign = rng.random() < 0.3
    r = rng.random()
    lines = rng.choice(seeds()) if r < 0.4 else dup_config(rng) if r < 0.55 else plain_config(rng, ign and rng.random() < 0.5)
    a = {"syntax": syntax, "ignore_blank": ign, "auto_commit": rng.random() < 0.65, "lines": list(lines)}
    if rng.random() < 0.15 or not lines:
        blines, muts = list(lines), ["identical"]
    else:
        blines, muts = PL.variant(rng, lines, ["a", "b", "Eth1", "Eth10", "! c", "n"])
    b = {"syntax": syntax if rng.random() < 0.55 else rng.choice(["ios", "nxos", "nxos", "asa"]),
         "ignore_blank": ign if rng.random() < 0.8 else not ign,
         "auto_commit": a["auto_commit"] if rng.random() < 0.7 else not a["auto_commit"], "lines": blines}
    ops_a = pair_ops(rng, a["lines"], a["syntax"], a["auto_commit"], a["ignore_blank"])
    if rng.random() < 0.5:
        ops_b = [list(o) for o in ops_a]         # the same calls on the corresponding lines of the other instance
    else:
        ops_b = pair_ops(rng, b["lines"], b["syntax"], b["auto_commit"], b["ignore_blank"])
    return mk_pair(a, b, ops_a, ops_b, muts)


def pair_cases(rng, tier):
    for _ in range({"quick": 450, "thorough": 15000, "search": 300}[tier]):
        yield rand_pair(rng)


def impl_pair(case):
    return PL.run_history_pair(T, case["cfgs"], case["hist"], E.run_history, T.parse_impl)


def pair_neighbours(case, rng):
    a, b = case["cfgs"]
    for _ in range(100):
        lines, muts = PL.variant(rng, a["lines"], ["a", "b", "Eth1", "! c"])
        ops_a = list(case["hist"][0]["ops"])
        if len(ops_a) > 2 and rng.random() < 0.5:
            del ops_a[rng.randrange(len(ops_a) - 1)]
        yield mk_pair(a, dict(b, lines=lines), ops_a, list(case["hist"][1]["ops"]), muts)


def _pair_describe(case):
    keys = ("syntax", "ignore_blank", "auto_commit", "lines", "ops")
    return {"two_live_instances": "both configs are parsed first; history A runs with a look at B before every operation and after the last, "
                                  "then history B with the same watch on A",
            "A": {k: case["hist"][0][k] for k in keys}, "B": {k: case["hist"][1][k] for k in keys},
            "B_differs_from_A_by": case.get("mutations")}


def _pair_buckets(case, ans):
    out = PL.buckets(case) + ["pair:same-ops:%d" % (case["hist"][0]["ops"] == case["hist"][1]["ops"]),
                              "pair:width:%d-%d" % tuple(E.width_of(c["syntax"]) for c in case["cfgs"]),
                              "pair:auto:%d-%d" % tuple(c["auto_commit"] for c in case["cfgs"])]
    parts = {label: text for _, label, text in (PL.split_labelled(ans) or [])}
    for i, label in enumerate(("hA", "hB")):
        if label in parts:
            out += ["pair:" + b for b in _single["buckets"](case["hist"][i], parts[label]) if b.startswith("op:")]
    return out


_single = {"cases": cases, "impl": impl, "oracle": oracle, "neighbours": neighbours, "known_id": known_id, "nontrivial": nontrivial,
           "describe": describe, "buckets": buckets}


def cases(rng, tier):  # noqa: F811
    yield from _single["cases"](rng, tier)
    if PL.enabled():
        yield from pair_cases(rng, tier)


def impl(case):  # noqa: F811
    return impl_pair(case) if case.get("pair") else _single["impl"](case)


def oracle(case, ans):  # noqa: F811
    return PL.history_oracle(case, ans, _single["oracle"]) if case.get("pair") else _single["oracle"](case, ans)


def compare(case, impl_ans, model_ans):
    return PL.compare(impl_ans, model_ans, PL.history_compare) if case.get("pair") else impl_ans == model_ans


def neighbours(case, rng):  # noqa: F811
    return pair_neighbours(case, rng) if case.get("pair") else _single["neighbours"](case, rng)


def known_id(case, failure):  # noqa: F811
    return PL.history_known_id(case, failure, _single["known_id"]) if case.get("pair") else _single["known_id"](case, failure)


def nontrivial(case):  # noqa: F811
    if case.get("pair"):
        return all(_single["nontrivial"](h) for h in case["hist"])
    return _single["nontrivial"](case)


def describe(case):  # noqa: F811
    return _pair_describe(case) if case.get("pair") else _single["describe"](case)


def buckets(case, ans):  # noqa: F811
    return _pair_buckets(case, ans) if case.get("pair") else _single["buckets"](case, ans)


RULE += (" PAIR STREAM (two LIVE instances; props/pairlib.py, channel `pair`): 450 (quick) cases hold two configs from ONE template (seed / "
         "duplicate-text / plain configs; B = A with children re-texted / re-indented / commented / swapped / inserted / deleted / moved, 15 % "
         "identical), parsed with the same or a different syntax (hence indent width 1 / 2), ignore_blank_lines and auto_commit. BOTH are "
         "parsed first; a history (random / directed / input-form operations, then commit) runs on A with a look at B before every operation "
         "and after the last -- texts, line numbers, links, the seven family views, two recursive searches --, then a history on B (half of "
         "the time the same calls) with the same watch on A. The histories are run by editlib.run_history itself (handed the live instance "
         "instead of a fresh parse), judged by the oracle above on their own case and compared with the model's answer for that history "
         "alone; every look is compared with the model's tree / search answer for the texts the watched instance holds, must not change "
         "while only the other instance is edited, and must be the state the instance's own history starts / ends with.")
LEVEL_NOTE += (" Two live instances: the edit machine is a function of one history (channel `pair` only carries ordinary requests), so 'an "
               "edit of A changes nothing of B and is not influenced by B' holds for the model by construction and is MEASURED for the code by "
               "the pair stream (seeded C06e -- an lru_cache on the indent width keyed by the line -- and hand mutations of all_children / "
               "family_endpoint memos shared between instances are reported by it).")
