"""C06 — edits change exactly the targeted lines."""
import itertools
import re

import wire
from props import editlib as E
from props import treelib as T

ID = "C06"
LEAN_MODULES = ["Ccp.Props.C06"]
RULE = ("histories of 1..6 editing operations (list insert/append/pop, list-level insert_before/after by regex, object-level "
        "insert_before/after, delete, append_to_family with explicit/auto/no indent, replace_text, re_sub, commit) over 11 seed "
        "configs and random configs of 2..10 lines with duplicate texts, prefix texts (Eth1/Eth10) and regex metacharacters; "
        "auto_commit on and off (+ explicit commits); syntax ios (indent width 1) and nxos (width 2); ignore_blank_lines off "
        "(its interaction with commits is C07's). quick: every single operation of a 60-op alphabet on every seed config, plus "
        "random histories. Object-level operations take their object from the committed tree: while an uncommitted change is "
        "pending (auto_commit off) they are skipped on both sides, because line numbers of held objects are documented to be "
        "stale until commit. non-trivial = a history with at least one successful mutation; distinct by request.")
LEVEL_TEXT = ("Theorems (Lean 4, Ccp.Props.C06, for all states and payloads of the edit state machine; text effect of one step when the "
              "following commit does not filter, i.e. auto_commit off, or on without ignore_blank_lines): insert(k)/append/pop(k) are exactly "
              "Python's list operations with the index normalisation stated (pop out of range = IndexError, state unchanged); list-level "
              "insert_before/after give the old list with one copy of the payload next to every line whose regex-oracle row entry is true "
              "(explicit flatMap form; length = old + matches; old list is a sublist; everything that is not a copy of the payload untouched; "
              "no match = no change); object-level insert_before/after find their object by identity (posOf: the position p of the list element "
              "carrying that committed line number — also on states with uncommitted changes; every step keeps these identities pairwise "
              "distinct, so p is unique; p = the line number itself on a committed state) and add exactly one line at p / p+1 "
              "(take ++ [txt] ++ drop); delete (committed states only) removes "
              "exactly the positions {i} ∪ all_children(i) (under C03's Forest: i and the lines having i on their ancestor chain; length shrinks "
              "by 1 + |all_children|); replace_text / re_sub change position p only (List.set), an unchanged re_sub is a no-op; a successful "
              "append_to_family inserts exactly one line at the computed index, for a child-level append to a target with children that index "
              "is family_endpoint + 1 (directly after the last descendant); every refused operation leaves the whole state unchanged; options "
              "never change and with auto_commit off only commit replaces the tree. Parent links (configs without banner/macro starts, "
              "auto_commit on, blank lines kept, committed state): a child-level append_to_family to a target with children puts the line at "
              "family_endpoint+1, the new line's parent is the target and every existing line keeps its parent (index-shifted), provided the "
              "payload is not a comment and every config-line child of the target is indented at least as deep as the payload (automatic for "
              "indent width 1); delete leaves every surviving line's parent at the new position of its old parent; both with the one "
              "exclusion of a comment directly below the insertion point / below a deleted line (its attachment follows C02's "
              "comment-under-a-deeper-line rule; counterexamples are given). With auto_commit on and ignore_blank_lines the texts are "
              "one bootstrap of the auto_commit-off result: a sublist of it keeping every non-blank line. The model is tied to the code by "
              "differential runs of whole histories (texts after every step, tree after every commit).")
LEVEL_NOTE = ("Trusted: Lean kernel, standard axioms, harness. Regexes are oracle data (rows / substituted texts computed with re by the "
              "harness); str.replace is modelled for a non-empty 'before'. Partial: the same-indent append_to_family placement is proved as the "
              "code does it (self + |children|, known finding F10b), not as the property wants it; for a childless target the index is "
              "characterised through the code's own helpers (last sibling / last_family_linenum / last_parent_linenums[0]). The parent-preservation "
              "theorems are proved from a specification-level lemma (specParent under insertion of one line / removal of a set of lines) and "
              "do not cover configs with banner or macro starts, ignore_blank_lines, nxos payloads when some config-line child of the target "
              "is indented less than the payload, childless targets, or the same-indent placement (F10b, where parents do change).")
ASSUMPTIONS = ["object handles are used only on a committed state", "auto_indent_width is the syntax default (1, or 2 for nxos)"]
TRUSTED = ["regex oracle rows", "str.replace modelled for non-empty 'before'"]
EXHAUSTIVE = {"quick": False, "thorough": False}


def single_ops():
    ops = []
    for txt in ["x", " y", "  z", "interface Eth1", ""]:
        ops += [["ins", 0, txt], ["ins", 2, txt], ["ins", -1, txt], ["app", txt]]
        for h in range(6):
            ops += [["oib", h, txt], ["oia", h, txt], ["atf", h, txt, -1, False]]
    for h in range(6):
        ops += [["del", h], ["atf", h, "q", -1, True], ["atf", h, "q", 2, False], ["rep", h, "a", "zz"], ["sub", h, "a|b", "Q"]]
    for rx in E.REGEXES:
        ops += [["lib", rx, "new"], ["lia", rx, " new"]]
    ops += [["pop", -1], ["pop", 0], ["pop", 9]]
    return ops


def seeds():
    # banner/macro families are delimited, not indentation based; appending to them is C07's (commit) business only
    return [c for c in E.SEED_CONFIGS if not any(T.BANNER_RE.search(l) or l[:11] == "macro name " for l in c)]


def cases(rng, tier):
    if tier != "search":
        for lines in seeds():
            for op in single_ops():
                for syntax in ("ios", "nxos"):
                    yield E.mk_case(syntax, False, True, lines, [op], "single")
    n = {"quick": 1200, "thorough": 60000, "search": 2500}[tier]
    for _ in range(n):
        syntax = rng.choice(["ios", "ios", "nxos", "asa", "iosxr"])
        auto = rng.random() < 0.6
        if rng.random() < 0.5:
            lines = rng.choice(seeds())
        else:
            lines = [rng.choice(["", " ", "  ", "   ", "    "]) + rng.choice(["a", "b", "Eth1", "Eth10", "a.b", "a(b", "! c"])
                     for _ in range(rng.randint(2, 10))]
        yield E.mk_case(syntax, False, auto, lines, E.rand_ops(rng, rng.choice([1, 2, 3, 4, 6]), auto))


def neighbours(case, rng):
    for _ in range(150):
        ops = list(case["ops"])
        if len(ops) > 1 and rng.random() < 0.5:
            del ops[rng.randrange(len(ops))]
        else:
            ops.insert(rng.randrange(len(ops) + 1), E.rand_ops(rng, 1, case["auto_commit"])[0])
        yield E.mk_case(case["syntax"], case["ignore_blank"], case["auto_commit"], case["lines"], ops)


def impl(case):
    return E.run_history(case)


def descendants(parents, i):
    out = []
    for j in range(len(parents)):
        k = j
        while parents[k] != k:
            k = parents[k]
            if k == i:
                out.append(j)
                break
    return out


def py_insert(lst, k, x):
    l2 = list(lst)
    l2.insert(k, x)
    return l2


def oracle(case, ans):
    steps = E.parse_answer(ans)
    fails = []
    width = E.width_of(case["syntax"])
    for idx, op in enumerate(case["ops"]):
        st_prev, _, prev, dump_prev, _ = steps[idx]
        status, _, cur, dump_cur, at = steps[idx + 1]
        k = op[0]
        tag = f"step {idx} {op}"
        if status == "skip":
            if cur != prev:
                fails.append(f"{tag}: skipped but the text changed")
            continue
        if status != "ok":
            if cur != prev:
                fails.append(f"{tag}: {status} but the text changed")
            allowed = set()
            if k == "pop":
                if not (-len(prev) <= op[1] < len(prev)):
                    allowed.add("err:IndexError")
            elif k in ("lib", "lia", "oib", "oia"):
                if op[2].strip() == "" and case["ignore_blank"]:
                    allowed.add("err:InvalidParameters")
                if k in ("lib", "lia") and op[1] == "":
                    allowed.add("err:ValueError")
            elif k == "atf":
                allowed.add("err:NotImplementedError")     # unsupported indentation relations are refused by design
            elif k in ("sub", "probe"):
                allowed.add("err:NotImplementedError")     # search_safe refusal; C07 judges when it must happen
            if status not in allowed:
                fails.append(f"{tag}: unexpected {status}")
            continue
        n = len(prev)
        if k == "ins":
            want = py_insert(prev, op[1], op[2])
        elif k == "app":
            want = prev + [op[1]]
        elif k == "pop":
            want = list(prev); want.pop(op[1])
        elif k in ("lib", "lia"):
            want = []
            for t in prev:
                hit = re.search(op[1], t) is not None
                if hit and k == "lib":
                    want.append(op[2])
                want.append(t)
                if hit and k == "lia":
                    want.append(op[2])
        elif k in ("oib", "oia"):
            i = at
            want = prev[:i] + [op[2]] + prev[i:] if k == "oib" else prev[:i + 1] + [op[2]] + prev[i + 1:]
        elif k == "del":
            i = at
            gone = {i} | set(descendants(dump_prev["parents"], i))
            want = [t for j, t in enumerate(prev) if j not in gone]
        elif k == "rep":
            i = at
            want = list(prev); want[i] = prev[i].replace(op[2], op[3])
        elif k == "sub":
            i = at
            want = list(prev); want[i] = re.sub(op[2], op[3], prev[i])
        elif k == "atf":
            i = at
            f = check_atf(case, op, i, prev, cur, dump_prev, dump_cur, width)
            if f:
                fails.append(f"{tag}: {f}")
            continue
        else:
            want = prev
        if cur != want:
            fails.append(f"{tag}: texts {cur!r} expected {want!r}")
    return fails[:3]


def check_atf(case, op, i, prev, cur, dump_prev, dump_cur, width):
    """exactly one line added, all other lines keep text and order; a child-level append lands inside the
    target's family and no existing line changes parent"""
    if len(cur) != len(prev) + 1:
        return f"{len(cur) - len(prev)} lines added"
    cands = [j for j in range(len(cur)) if cur[:j] + cur[j + 1:] == prev]
    if not cands:
        return f"other lines changed: {cur!r} from {prev!r}"
    # adjacent identical lines make several positions indistinguishable: prefer a position holding the payload,
    # and among those one inside the target's family (any such reading satisfies the property)
    good = [j for j in cands if cur[j].lstrip() == op[2].lstrip()] or cands
    pos = good[0]
    if dump_prev is not None:
        fam0 = [i] + descendants(dump_prev["parents"], i)
        inside = [j for j in good if i < j <= max(fam0) + 1]
        if inside:
            pos = inside[0]
    new = cur[pos]
    if new.lstrip() != op[2].lstrip():
        return f"inserted text {new!r} is not the payload {op[2]!r}"
    if dump_cur is None or dump_prev is None:
        return None
    ind = lambda t: len(t) - len(t.lstrip())  # noqa: E731
    delims = T.cfg_delims(case["syntax"], case["delims"])
    tgt = prev[i].lstrip()
    if tgt == "" or tgt[0] in delims:
        return None      # a comment or blank line cannot head a family; only the text effect is judged
    # parents of the old lines, before and after (indices shifted by the insertion)
    shift = lambda j: j if j < pos else j + 1  # noqa: E731
    is_cmt = lambda t: t.lstrip()[:1] != "" and t.lstrip()[0] in T.cfg_delims(case["syntax"], case["delims"])  # noqa: E731
    # a comment's attachment follows the legacy rule of C02 (it depends on the indent of the line directly above it),
    # so comments are not counted as "existing lines that changed parent"
    moved = [j for j in range(len(prev)) if not is_cmt(prev[j])
             and shift(dump_prev["parents"][j]) != dump_cur["parents"][shift(j)]]
    child_level = ind(new) == ind(prev[i]) + width
    if child_level:
        fam = [i] + descendants(dump_prev["parents"], i)
        if not (i < pos <= max(fam) + 1):
            return f"child-level append landed at {pos}, outside the family {fam} of line {i}"
        newl = new.lstrip()
        payload_is_config = newl != "" and newl[0] not in delims
        if payload_is_config and dump_cur["parents"][pos] != i:
            return f"new line's parent is {dump_cur['parents'][pos]}, not the target {i}"
    if moved:
        return ("same-indent-reparent" if not child_level else "child-level-reparent") + f": old lines {moved} changed parent"
    return None


def known_id(case, failure):
    if "same-indent-reparent" in failure:
        return "F10b"
    return None


def nontrivial(case):
    return any(o[0] not in ("commit", "probe") for o in case["ops"])


def describe(case):
    return {k: case[k] for k in ("syntax", "auto_commit", "lines", "ops")}


def buckets(case, ans):
    out = ["syntax:" + case["syntax"], "auto:%d" % case["auto_commit"], "ops:%d" % len(case["ops"])]
    for op, part in zip(case["ops"], ans.split("#")[1:]):
        out.append("op:" + op[0] + ":" + part.split("~")[0].split("@")[0])
    return out
