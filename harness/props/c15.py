"""C15 — interface names round-trip and sort numerically; interface ranges expand exactly."""
import re

import wire
from props.common import quiet_ccp

ID = "C15"
LEAN_MODULES = ["Ccp.Props.C15", "Ccp.Props.RxC15"]
RULE = ("names: description = prefix (Ethernet, Eth, Gi, GigabitEthernet, Port-channel, Bundle-Ether, Serial, Vlan, Loopback, Tunnel, ATM, "
        "TenGigE, mgmt, '', or random [A-Za-z-]+ ending in a letter) x 1..3 numbers 0..9999 (boundary biased: 0,1,9,10,99,100,"
        "999,1000,4094,9999) joined by '/' x optional .sub x optional :chan x optional class word over [A-Za-z-]; the surface "
        "string is the independent rendering plus, at random, a blank/tab/NBSP after the prefix, leading zeros, outer blanks. "
        "pairs: two descriptions of the same shape (same or different prefix, numbers drawn close to each other so that ties "
        "and one-digit/two-digit neighbours such as 2 vs 10 occur), and mixed-shape pairs (no oracle, correspondence only). "
        "ranges: base name (about a quarter with a hyphenated prefix: Port-channel, Bundle-Ether, nve-x, a-b-c, random) + list of singles/intervals over the LAST numeric component (port, .sub or :chan), later parts "
        "written bare ('5', '9-10'), marked ('.5', ':9-10') or as full names, with duplicates, overlaps, descending intervals, "
        "blanks around ',' and '-', optional hyphen-free class word at the end (hyphenated class words only in the fixed list); each followed by a sequence of read accessors "
        "(len/iter/list/set/dicts). malformed stream: random strings over 'EthPo-19/.:^ _,x' and single-character mutations of "
        "valid names/ranges (oracle silent, correspondence only). non-trivial = name with >=2 components or a surface variation; "
        "pair with a numeric tie-break beyond the first component; range with an interval of width>=2 or >=3 parts. "
        "Only ASCII digits are generated (the code's \\d / str.isdigit / int() also accept other Unicode decimal digits; the "
        "model does not). Digit runs have at most 5 digits and an interval spans at most 400 values (run-time bound: __hash__ is (idx+1)**value). Whitespace inside names is one of ' ', TAB, NBSP.")
LEVEL_TEXT = ("Theorems (Lean 4, all inputs): parse(render d) = d for every well-formed description, and parse(render(parse s)) = parse s "
              "for every accepted text s; same-shape interfaces "
              "order by their numeric components and never raise; == implies equal hash and neither < nor >; an accepted range "
              "text (hyphenated prefixes such as Port-channel1-3 included since fix f223496) expands to the begin object with its "
              "last numeric component varied over the denoted integers, each once, ascending; readers leave the data unchanged. "
              "The model (hand-written scanners for the five regexes of "
              "CiscoIOSInterface, slot/card/port assignment, rendering, sort_list order, hash, CiscoRange.parse_cisco_interfaces "
              "and its read accessors) is tied to the code by differential runs on every check.")
LEVEL_NOTE = ("Trusted: Lean kernel; axioms propext/Classical.choice/Quot.sound only; the correspondence harness; Python re "
              "is re-implemented as character-class scanners and the interval split re.split(r'(?<=\\d)\\s*-\\s*(?=\\d)') as a four-state automaton "
              "(agreement measured, not proved); set()/sorted() re-implemented "
              "as one insertion pass. Proved about the model, measured against the code.")
LEVEL_NOTE += (" " + "regexes_as_modelled (Ccp.RxC15): every regular expression / separator of CiscoIOSInterface.parse_single_interface (with parse_intf_short / parse_intf_long) and of CiscoRange.__init__ + parse_cisco_interfaces (incl. the interval splitter (?<=\\d)\\s*-\\s*(?=\\d)) is re-read from /repo's AST on every run and proved equal to the literal the scanner of Model/Intf.lean (matchHead, firstDigits, searchAfter, classWord, scanSlotCardPort, splitIv) was written for.")
LEVEL_NOTE += (" Scan sets as revised: regexes_as_modelled ties the regex-engine calls with the pattern in canonical form (canonical verbose form without the flag, group names and redundant escapes removed, per-value specialisation of a pattern passed to a same-file helper or built from a name that ranges over a constant collection, always-true searches left out), flags, re.sub replacements and the separator arguments of str.split/join/replace/strip; the literal tests (\"lit\" in x, == against string literals and their subscripts, startswith) are informational definitions Gen.rx...Info, no theorem is about them.")
EXHAUSTIVE = {"quick": False, "thorough": False}
ASSUMPTIONS = [
    "digits are ASCII (\\d, str.isdigit and int() of CPython also accept other Unicode decimal digits)",
    "numbers are short enough for int() (CPython refuses more than 4300 digits)",
    "hash(obj) is the value of __hash__ below 2^63 and that value modulo 2^61-1 above (64-bit CPython)",
    "set()+sorted() raise TypeError exactly when an int and a None meet at the first unequal sort_list position of two members",
]
TRUSTED = ["CiscoIOSInterface and CiscoRange(result_type=None) only; CiscoIOSXRInterface is out of scope"]

PREFIXES = ["Ethernet", "Eth", "Gi", "GigabitEthernet", "Port-channel", "Bundle-Ether", "Serial", "Vlan", "Loopback", "Tunnel", "ATM",
            "TenGigE", "mgmt", "Po", "Fa", "Te"]
CLASSES = ["multipoint", "point-to-point", "l-two", "x", "PtP"]
BOUNDARY = [0, 1, 2, 9, 10, 11, 19, 20, 99, 100, 101, 999, 1000, 4094, 9998, 9999]
ERRS = ("InvalidCiscoInterface", "NoRegexMatch", "ValueError", "TypeError", "InvalidCiscoRange", "IndexError")
READS = ["len", "iter", "list", "set", "dicts"]


# ------------------------------------------------------------------ independent reference (never the Lean model)
def ref_render(d):
    s = d["prefix"] + "/".join(str(n) for n in d["nums"])
    if d["sub"] is not None:
        s += "." + str(d["sub"])
    if d["chan"] is not None:
        s += ":" + str(d["chan"])
    if d["cls"] is not None:
        s += " " + d["cls"]
    return s


def ref_dict(d):
    nums = d["nums"]
    slot = nums[0] if len(nums) >= 2 else None
    card = nums[1] if len(nums) == 3 else None
    opt = lambda v: "-" if v is None else str(v)  # noqa: E731
    return ",".join([wire.enc_str(d["prefix"]), "47" if len(nums) >= 2 else "-", opt(slot), opt(card), str(nums[-1]),
                     opt(d["sub"]), opt(d["chan"]), "-" if d["cls"] is None else wire.enc_str(d["cls"])])


def ref_key(d):
    """numeric components in the order slot, card, port, sub, chan; the class word last"""
    return (list(d["nums"]) + [x for x in (d["sub"], d["chan"]) if x is not None], d["cls"] or "")


def ref_shape(d):
    return (len(d["nums"]), d["sub"] is None, d["chan"] is None, d["cls"] is None)


def ref_vary(d, v):
    """the description with its last numeric component replaced"""
    e = dict(d)
    e["nums"] = list(d["nums"])
    if d["chan"] is not None:
        e["chan"] = v
    elif d["sub"] is not None:
        e["sub"] = v
    else:
        e["nums"][-1] = v
    return e


def ref_last(d):
    if d["chan"] is not None:
        return d["chan"], ":"
    if d["sub"] is not None:
        return d["sub"], "."
    return d["nums"][-1], ""


# ------------------------------------------------------------------ generators
def _num(rng, near=None):
    if near is not None and rng.random() < 0.7:
        return max(0, min(9999, near + rng.choice([-9, -1, 0, 0, 1, 8, 9, 10, 90])))
    return rng.choice(BOUNDARY) if rng.random() < 0.5 else rng.randint(0, 9999)


def _prefix(rng):
    r = rng.random()
    if r < 0.8:
        return rng.choice(PREFIXES)
    if r < 0.85:
        return ""
    n = rng.randint(1, 6)
    w = "".join(rng.choice("abcxyzABEPS-") for _ in range(n))
    return w + rng.choice("atXZ")


def _descr(rng, shape=None, near=None, prefix=None, hyphen_class=True):
    if shape is None:
        shape = (rng.choice([1, 1, 2, 2, 2, 3]), rng.random() < 0.65, rng.random() < 0.75, rng.random() < 0.8)
    n, nosub, nochan, nocls = shape
    nd = near or {}
    nums = [_num(rng, (nd.get("nums") or [None] * 3)[i] if near else None) for i in range(n)]
    classes = CLASSES if hyphen_class else [c for c in CLASSES if "-" not in c]
    return {"prefix": _prefix(rng) if prefix is None else prefix, "nums": nums,
            "sub": None if nosub else _num(rng, nd.get("sub")),
            "chan": None if nochan else _num(rng, nd.get("chan")),
            "cls": None if nocls else (nd.get("cls") if near and rng.random() < 0.5 and nd.get("cls") else rng.choice(classes))}


def _surface(rng, d):
    """a spelling of d that the parser must read as d"""
    z = lambda n: ("0" * rng.choice([0, 0, 0, 1, 2])) + str(n)  # noqa: E731
    blank = rng.choice(["", "", "", " ", " ", "\t", " ", "  "]) if d["prefix"] else ""
    s = d["prefix"] + blank + "/".join(z(n) for n in d["nums"])
    if d["sub"] is not None:
        s += "." + z(d["sub"])
    if d["chan"] is not None:
        s += ":" + z(d["chan"])
    if d["cls"] is not None:
        s += rng.choice([" ", " ", "  ", "\t"]) + d["cls"]
    return rng.choice(["", "", "", " "]) + s + rng.choice(["", "", "", " ", "\n"])


def mk_name(s, d=None, origin="gen"):
    return {"kind": "name", "s": s, "d": d, "req": wire.req("intf", "name", wire.enc_str(s)), "_origin": origin}


def mk_cmp(a, b, da=None, db=None, origin="gen"):
    return {"kind": "cmp", "a": a, "b": b, "da": da, "db": db,
            "req": wire.req("intf", "cmp", wire.enc_str(a), wire.enc_str(b)), "_origin": origin}


def mk_range(text, ops, base=None, values=None, style=None, origin="gen"):
    return {"kind": "range", "text": text, "ops": ops, "base": base, "values": values, "style": style,
            "req": wire.req("intf", "range", wire.enc_str(text), *ops), "_origin": origin}


def from_corpus(c):
    if c["kind"] == "name":
        return mk_name(c["s"], c.get("d"), "corpus")
    if c["kind"] == "cmp":
        return mk_cmp(c["a"], c["b"], c.get("da"), c.get("db"), "corpus")
    return mk_range(c["text"], c["ops"], c.get("base"), c.get("values"), c.get("style"), "corpus")


def _rand_ops(rng):
    ops = [rng.choice(READS) for _ in range(rng.choice([1, 2, 3, 5]))]
    return ["len"] + ops + ["list", "set", "iter", "len"]


def _rand_range(rng):
    style = rng.choice(["bare", "bare", "marked", "full"])
    base = _descr(rng, hyphen_class=False)
    if rng.random() < 0.2:
        base["prefix"] = rng.choice(["Port-channel", "Bundle-Ether", "Port-channel", "nve-x", "a-b-c"])
    cls, base["cls"] = base["cls"], None
    last, mark = ref_last(base)
    sp = lambda: rng.choice(["", "", "", "", " "])  # noqa: E731
    values, parts = [], []
    nparts = rng.choice([1, 1, 2, 3, 4, 6])
    for i in range(nparts):
        lo = last if i == 0 else _num(rng, last)
        if i == 0:
            head = ref_render(base) if rng.random() < 0.7 else _surface(rng, base).strip()
        elif style == "full":
            head = ref_render(ref_vary(base, lo))
        elif style == "marked":
            head = mark + str(lo)
        else:
            head = str(lo)
        if rng.random() < 0.5:
            width = rng.choice([0, 1, 2, 3, 5, 12, 40])
            hi = min(9999, lo + width)
            if rng.random() < 0.07 and hi > lo:
                parts.append(f"{head}{sp()}-{sp()}{lo - 1 if lo else 0}")
                if lo == 0:
                    values.append(0)
                continue
            parts.append(f"{sp()}{head}{sp()}-{sp()}{hi}{sp()}")
            values.extend(range(lo, hi + 1))
        else:
            parts.append(f"{sp() if i else ''}{head}{sp()}")
            values.append(lo)
    if rng.random() < 0.25 and len(parts) > 1:
        j = rng.randrange(1, len(parts))
        parts.append(parts[j])
    text = ",".join(parts)
    if cls is not None:
        text = text.rstrip() + " " + cls
        base["cls"] = cls
    return mk_range(text, _rand_ops(rng), base, sorted(set(values)), style)


ALPH = "EthPo-19/.:^ _,x0"


def _malformed(rng, seed_text):
    r = rng.random()
    if r < 0.4:
        return "".join(rng.choice(ALPH) for _ in range(rng.randint(0, 9)))
    s = list(seed_text)
    for _ in range(rng.choice([1, 1, 2])):
        k = rng.random()
        if s and k < 0.4:
            del s[rng.randrange(len(s))]
        elif s and k < 0.6:
            s[rng.randrange(len(s))] = rng.choice(ALPH)
        else:
            s.insert(rng.randrange(len(s) + 1), rng.choice(ALPH))
    return "".join(s)


FIXED_NAMES = ["Ethernet", "Eth 1/2.3:4 multipoint", "1//2", "1/", "1.2/3", "Eth/1", "Eth1 2", "Eth1 foo bar", "Eth.5",
               "Serial 4/1/2.9:5 point-to-point", "Eth1/2/3/4", "Eth1^2", "Eth1_2", "", "  ", "Eth1/2 l2transport",
               "eth1,2", "Eth1 -", "-1", "Eth-1/2", "1", "Eth1/2/", "Eth1/2/3/", "Eth1:5.7", "Eth1..2", "Eth1.:2",
               "Eth1/2.x", "Eth 1 / 2", "Eth1/ 2", "a", "-", "Eth1/2:3/4", "Eth1 x y", "Eth1\tx", "9999/9999/9999.9999:9999 z"]
FIXED_RANGES = ["Eth1/1-3,5,9-10", "Port-channel1-3", "Port-channel1,2", "Serial1/0:1-3,5", "Serial1/0:1-3,:5", "Eth1/1.1-3,5",
                "Eth1/1.1-3,.5,.7-8", "Serial1/0-5 multipoint", "Eth1/3-1", "Eth1/1,1,1-2", "Eth1/1,Eth1/3", "Eth1/1,Eth2/3",
                "Serial1/0:3-1,5", "Eth1-3", "Eth1/2/1-3,7", " ", "Eth1/1-3-5", "Eth1/1-", "Eth1/1-a", "Eth 1/1 - 3 , 5",
                "Eth1/1,,2", "Serial1/0,1 multipoint", "Serial1/0.1-2 multipoint", "Eth1/1,x", "Eth1/1, 7 , 9 - 11 ", "",
                ",", "Eth1/1,", ",Eth1/1", "Eth1/1-3 foo_bar", "Eth1/1 foo,2 bar", "Serial1/0:1,5-7,x", "Eth1/1-3 point-to-point",
                "Eth1/1.2:3-4,:9", "Eth1/1,2-", "Eth1/1 -3", "1-3", "1/1-3,5", "Port-channel 1 - 3 , 7", "Bundle-Ether10-12,15",
                "Port-channel1.1-3", "Po-1-3", "Eth1/1--3", "Eth1/1- -3", "Eth1/1 x-3", "Eth1/1-3x-5", "1-2-3", "Eth1/1-3 point-to-point,5",
                "Eth1/1 -", "-1-3", "Eth1-2/3", "Serial1/0-2 point-to-point"]


def _too_big(text):
    """keeps the run time bounded: __hash__ is (idx+1)**value and a mutated interval may span thousands of members"""
    if re.search(r"\d{6,}", text):
        return True
    for part in text.split(","):
        pieces = re.split(r"(?<=\d)\s*-\s*(?=\d)", part)
        if len(pieces) == 2:
            hi = int("".join(c for c in pieces[1] if c.isdigit()) or "0")
            los = [int(x) for x in re.findall(r"\d+", pieces[0])] or [0]
            if hi - los[-1] > 400:
                return True
    return False


def cases(rng, tier):
    for c in _cases(rng, tier):
        texts = [c.get("s"), c.get("a"), c.get("b"), c.get("text")]
        if not any(t is not None and _too_big(t) for t in texts):
            yield c


def _cases(rng, tier):
    if tier != "search":
        for s in FIXED_NAMES:
            yield mk_name(s)
        for t in FIXED_RANGES:
            yield mk_range(t, ["len", "list", "set", "iter", "dicts", "len"])
    n = {"quick": 3200, "thorough": 150000, "search": 3000}[tier]
    for i in range(n):
        r = rng.random()
        if r < 0.35:
            d = _descr(rng)
            s = _surface(rng, d) if rng.random() < 0.6 else ref_render(d)
            if rng.random() < 0.07:
                yield mk_name(_malformed(rng, s))
            else:
                yield mk_name(s, d)
        elif r < 0.65:
            da = _descr(rng)
            if rng.random() < 0.85:
                db = _descr(rng, shape=ref_shape(da), near=da, prefix=da["prefix"] if rng.random() < 0.7 else None)
            else:
                db = _descr(rng, prefix=da["prefix"])
            a, b = ref_render(da), ref_render(db)
            if rng.random() < 0.3:
                a, b = _surface(rng, da), _surface(rng, db)
            yield mk_cmp(a, b, da, db)
        else:
            c = _rand_range(rng)
            if rng.random() < 0.08:
                yield mk_range(_malformed(rng, c["text"]), c["ops"])
            else:
                yield c


def neighbours(case, rng):
    for _ in range(300):
        if case["kind"] == "name":
            yield mk_name(_malformed(rng, case["s"]))
        elif case["kind"] == "cmp":
            yield mk_cmp(_malformed(rng, case["a"]), case["b"])
        else:
            yield mk_range(_malformed(rng, case["text"]), case["ops"])


def nontrivial(case):
    if case["kind"] == "name":
        d = case.get("d")
        return bool(d) and (len(d["nums"]) > 1 or d["sub"] is not None or d["chan"] is not None or case["s"] != ref_render(d))
    if case["kind"] == "cmp":
        da, db = case.get("da"), case.get("db")
        return bool(da and db) and ref_shape(da) == ref_shape(db) and len(ref_key(da)[0]) > 1 and ref_key(da)[0][0] == ref_key(db)[0][0]
    return bool(case.get("base")) and (len(case["values"]) >= 3)


def describe(case):
    return {k: v for k, v in case.items() if k not in ("req", "_origin")}


def buckets(case, ans):
    out = ["kind:" + case["kind"], "answer:" + (ans if ans.startswith("err") else "ok")]
    if case["kind"] == "name" and case.get("d"):
        d = case["d"]
        out.append("shape:%d%s%s%s" % (len(d["nums"]), "" if d["sub"] is None else ".s", "" if d["chan"] is None else ":c",
                                      "" if d["cls"] is None else " w"))
        out.append("prefix-hyphen:%s" % ("-" in d["prefix"]))
        out.append("surface-varied:%s" % (case["s"] != ref_render(d)))
    if case["kind"] == "cmp" and case.get("da"):
        out.append("same-shape:%s" % (ref_shape(case["da"]) == ref_shape(case["db"])))
        out.append("same-prefix:%s" % (case["da"]["prefix"] == case["db"]["prefix"]))
    if case["kind"] == "range":
        out.append("style:%s" % case.get("style"))
        if case.get("base"):
            out.append("iter:" + ("chan" if case["base"]["chan"] is not None else "sub" if case["base"]["sub"] is not None else "port"))
            out.append("members:%s" % min(50, len(case["values"]) // 5 * 5))
        if case.get("base"):
            out.append("range-prefix-hyphen:%s" % ("-" in case["base"]["prefix"]))
        out.append("parts:%d" % min(9, case["text"].count(",") + 1))
    return out


# ------------------------------------------------------------------ implementation
def _enc_dict(o):
    d = o.as_dict()
    opt = lambda v: "-" if v is None else str(int(v))  # noqa: E731
    sep = d["digit_separator"]
    assert sep is None or len(sep) == 1, sep
    return ",".join([wire.enc_str(d["prefix"]), "-" if sep is None else str(ord(sep)), opt(d["slot"]), opt(d["card"]),
                     opt(d["port"]), opt(d["subinterface"]), opt(d["channel"]),
                     "-" if d["interface_class"] is None else wire.enc_str(d["interface_class"])])


def _err(e):
    n = type(e).__name__
    if n in ERRS:
        return "err:" + n
    raise e


def _render(o):
    try:
        return wire.enc_str(str(o))
    except ValueError as e:
        return _err(e)


def _describe(o):
    return [_render(o), _enc_dict(o), str(hash(o))]


def _boole(f):
    try:
        return "T" if f() else "F"
    except TypeError:
        return "err:TypeError"


def impl(case):
    quiet_ccp()
    from ciscoconfparse2.ccp_util import CiscoIOSInterface, CiscoRange
    try:
        if case["kind"] == "name":
            o = CiscoIOSInterface(case["s"])
            out = ["ok"] + _describe(o)
            try:
                j = CiscoIOSInterface(str(o))
                out += _describe(j) + ["T" if o == j else "F"]
            except Exception as e:
                out.append(_err(e))
            return "|".join(out)
        if case["kind"] == "cmp":
            a = CiscoIOSInterface(case["a"])
            b = CiscoIOSInterface(case["b"])
            return "|".join(["ok", "T" if a == b else "F", _boole(lambda: a < b), _boole(lambda: a > b),
                             "T" if hash(a) == hash(b) else "F"])
        obj = CiscoRange(case["text"], result_type=None)
    except SystemExit:
        raise AssertionError("sys.exit() reached")
    except Exception as e:
        return _err(e)
    out = ["ok"]
    for op in case["ops"]:
        if op == "len":
            out.append(str(len(obj)))
        elif op == "iter":
            out.append(" ".join(_render(m) for m in iter(obj)))
        elif op == "dicts":
            out.append(" ".join(_enc_dict(m) for m in obj.data))
        elif op == "list":
            r = obj.as_list()
            out.append(" ".join(_render(m) for m in r))
        elif op == "set":
            r = obj.as_set(result_type=str)
            assert isinstance(r, (set, list))
            out.append(wire.enc_strs(sorted(r)))
        else:
            raise AssertionError(op)
    return "|".join(out)


# ------------------------------------------------------------------ oracle (independent of the Lean model)
def known_id(case, failure):
    if case["kind"] == "range" and case.get("base"):
        last_is_port = case["base"]["sub"] is None and case["base"]["chan"] is None
        if (not last_is_port and case["style"] == "bare" and case["text"].count(",") >= 1
                and (failure.startswith("well-formed range rejected with err:TypeError") or failure.startswith("bare-part:"))):
            return "FC15b"
    return None


def oracle(case, ans):
    fails = []
    if case["kind"] == "name":
        d = case.get("d")
        if not d:
            return []
        if ans.startswith("err"):
            return [f"well-formed name rejected with {ans}"]
        f = ans.split("|")
        want_s, want_d = wire.enc_str(ref_render(d)), ref_dict(d)
        if f[1] != want_s:
            fails.append(f"rendering {wire.dec_str(f[1])!r} is not the canonical name {ref_render(d)!r}")
        if f[2] != want_d:
            fails.append(f"components {f[2]} expected {want_d}")
        if len(f) < 8:
            fails.append(f"re-parsing the rendering failed: {f[4:]}")
        else:
            if f[4] != f[1] or f[5] != f[2]:
                fails.append(f"re-parsed rendering has components {f[5]} / name {f[4]}")
            if f[7] != "T":
                fails.append("re-parsed object is not equal to the original")
            if f[6] != f[3]:
                fails.append("re-parsed object has a different hash")
        return fails[:3]
    if case["kind"] == "cmp":
        da, db = case.get("da"), case.get("db")
        if not da or not db:
            return []
        if ans.startswith("err"):
            return [f"well-formed name rejected with {ans}"]
        _, eq, lt, gt, hs = ans.split("|")
        same_obj = da["prefix"] == db["prefix"] and ref_shape(da) == ref_shape(db) and ref_key(da) == ref_key(db)
        if (eq == "T") != same_obj:
            fails.append(f"== is {eq} for descriptions that are {'equal' if same_obj else 'different'}")
        if eq == "T" and hs != "T":
            fails.append("equal objects with different hashes")
        if ref_shape(da) == ref_shape(db):
            ka, kb = ref_key(da), ref_key(db)
            if lt != ("T" if ka < kb else "F"):
                fails.append(f"a < b is {lt}, numeric components {ka} vs {kb}")
            if gt != ("T" if ka > kb else "F"):
                fails.append(f"a > b is {gt}, numeric components {ka} vs {kb}")
        return fails[:3]
    base, values = case.get("base"), case.get("values")
    if not base or not values:
        return []
    if ans.startswith("err"):
        return [f"well-formed range rejected with {ans}"]
    members = [ref_render(ref_vary(base, v)) for v in values]
    fields = ans.split("|")[1:]
    tag = "bare-part: " if case["style"] == "bare" else ""
    for op, got in zip(case["ops"], fields):
        if op == "len" and int(got) != len(members):
            fails.append(f"{tag}len {got} != {len(members)}")
        elif op in ("iter", "list"):
            exp = " ".join(wire.enc_str(m) for m in members)
            if got != exp:
                fails.append(f"{tag}{op} view is {[wire.dec_str(x) for x in got.split(' ')][:12]} expected {members[:12]}")
        elif op == "set":
            if got != wire.enc_strs(sorted(members)):
                fails.append(f"{tag}as_set is {wire.dec_strs(got)[:12]} expected {sorted(members)[:12]}")
        elif op == "dicts":
            exp = " ".join(ref_dict(ref_vary(base, v)) for v in values)
            if got != exp:
                fails.append(f"{tag}member components differ: {got[:120]} expected {exp[:120]}")
    return fails[:3]
