"""C15 — interface names round-trip and sort numerically; interface ranges expand exactly."""
import re

import wire
from props.common import quiet_ccp

ID = "C15"
LEAN_MODULES = ["Ccp.Props.C15", "Ccp.Props.RxC15"]
RULE = ("names: description = prefix (Ethernet, Eth, Gi, GigabitEthernet, Port-channel, Bundle-Ether, Serial, Vlan, Loopback, Tunnel, ATM, "
        "TenGigE, mgmt, '', or random [A-Za-z-]+ ending in a letter) x 1..3 numbers 0..9999 (boundary biased: 0,1,9,10,99,100,"
        "999,1000,4094,9999) joined by '/' x optional .sub x optional :chan x optional class word over [A-Za-z-]; the surface "
        "string is the independent rendering plus, at random, a blank/tab/NBSP after the prefix, leading zeros, outer blanks. "
        "pairs: two descriptions of the same shape (same or different prefix, numbers drawn close to each other so that ties "
        "and one-digit/two-digit neighbours such as 2 vs 10 occur), and mixed-shape pairs (no oracle, correspondence only). "
        "ranges: base name (about a quarter with a hyphenated prefix: Port-channel, Bundle-Ether, nve-x, a-b-c, random) + list of singles/intervals over the LAST numeric component (port, .sub or :chan), later parts "
        "written bare ('5', '9-10'), marked ('.5', ':9-10') or as full names, with duplicates, overlaps, descending intervals, "
        "blanks around ',' and '-', optional hyphen-free class word at the end (hyphenated class words only in the fixed list); each followed by a sequence of read accessors "
        "(len/iter/list/set/dicts). malformed stream: random strings over 'EthPo-19/.:^ _,x' and single-character mutations of "
        "valid names/ranges (oracle silent, correspondence only). non-trivial = name with >=2 components or a surface variation; "
        "pair with a numeric tie-break beyond the first component; range with an interval of width>=2 or >=3 parts. "
        "Only ASCII digits are generated (the code's \\d / str.isdigit / int() also accept other Unicode decimal digits; the "
        "model does not). Digit runs have at most 5 digits and an interval spans at most 400 values (run-time bound: __hash__ is (idx+1)**value). Whitespace inside names is one of ' ', TAB, NBSP. "
        "FURTHER ENTRY POINTS (channel intfx, 2000 random + fixed cases in quick): obj = repr(), .name, == against a str / an int, "
        "str() after assigning .number, and the object rebuilt by CiscoIOSInterface(interface_dict=o.as_dict()), CiscoIOSInterface(o), "
        "o.from_dict(o.as_dict()) and from_dict with the card overwritten; raw = parse_single_interface() called directly (names with "
        "commas included); dict = check_interface_dict() and the constructor on dictionaries with the eight keys, a missing key, an "
        "unknown key, an extra key, no key, random subsets; setpfx = the prefix setter with blanks around the value; guard = ten calls "
        "with an argument of the wrong type (parse_single_interface(5), parse_intf_short/long(None|'x'), check_interface_dict(5), "
        "prefix = 5, CiscoIOSInterface(5 | interface_dict=5 | nothing)); xrange = the range stream again with result_type None / "
        "CiscoIOSInterface / str, reverse on/off and as_list / as_set over every rung of the result_type ladder (auto, None, an "
        "instance, str, int, float, invalid), container kind and member kind compared, interleaved with iteration, len, str(), repr(), "
        "obj[k] (inside and beyond the end), == against a freshly parsed range and the raw obj.data (half of these ranges have "
        "reverse=True: it must show in as_list only, and reading must not change the object). Anchored statements executed by the quick run: "
        "360 of 469 (was 305); the 109 left are debug logging, CiscoIOSXRInterface (out of scope), and branches that cannot execute "
        "(card / slot iteration in parse_cisco_interfaces: the port is always an int; the separator ladder of parse_intf_long after "
        "_sep2 = sep1; groupdict() is None; sys.exit(99) in number) - notes/coverage/C15.json.")
LEVEL_TEXT = ("Theorems (Lean 4, all inputs): parse(render d) = d for every well-formed description, and parse(render(parse s)) = parse s "
              "for every accepted text s; same-shape interfaces "
              "order by their numeric components and never raise; == implies equal hash and neither < nor >; an accepted range "
              "text (hyphenated prefixes such as Port-channel1-3 included since fix f223496) expands to the begin object with its "
              "last numeric component varied over the denoted integers, each once, ascending; readers leave the data unchanged. "
              "Further entry points (Model/IntfX.lean): rebuild_from_components (for every accepted text the object rebuilt from as_dict() by "
              "the dictionary constructor, the copy constructor and from_dict is the same object), repr_is_name, set_prefix_roundtrip, "
              "check_dict_spec (accepted iff eight known keys), ctor_dict_spec (full key set gives the object back, a missing key other than "
              "card raises KeyError), range_typed_views (as_list(result_type=None|str) ascending, descending exactly under reverse=True; "
              "as_set the same members; the constructor's result_type None / CiscoIOSInterface / str all give the same data), "
              "range_bad_casts (int / float / instance / invalid casts are refused on a non-empty range), range_further_readers (str / repr / "
              "obj[k] / == / obj.data are functions of the data alone, a range that was only read is == to a freshly parsed one). "
              "The model (hand-written scanners for the five regexes of "
              "CiscoIOSInterface, slot/card/port assignment, rendering, sort_list order, hash, CiscoRange.parse_cisco_interfaces "
              "and its read accessors) is tied to the code by differential runs on every check.")
LEVEL_NOTE = ("Trusted: Lean kernel; axioms propext/Classical.choice/Quot.sound only; the correspondence harness; Python re "
              "is re-implemented as character-class scanners and the interval split re.split(r'(?<=\\d)\\s*-\\s*(?=\\d)') as a four-state automaton "
              "(agreement measured, not proved); set()/sorted() re-implemented "
              "as one insertion pass. Proved about the model, measured against the code.")
LEVEL_NOTE += (" " + "regexes_as_modelled (Ccp.RxC15): every regular expression / separator of CiscoIOSInterface.parse_single_interface (with parse_intf_short / parse_intf_long) and of CiscoRange.__init__ + parse_cisco_interfaces (incl. the interval splitter (?<=\\d)\\s*-\\s*(?=\\d)) is re-read from /repo's AST on every run and proved equal to the literal the scanner of Model/Intf.lean (matchHead, firstDigits, searchAfter, classWord, scanSlotCardPort, splitIv) was written for.")
LEVEL_NOTE += (" Scan sets as revised: regexes_as_modelled ties the regex-engine calls with the pattern in canonical form (canonical verbose form without the flag, group names and redundant escapes removed, per-value specialisation of a pattern passed to a same-file helper or built from a name that ranges over a constant collection, always-true searches left out), flags, re.sub replacements and the separator arguments of str.split/join/replace/strip; the literal tests (\"lit\" in x, == against string literals and their subscripts, startswith) are informational definitions Gen.rx...Info, no theorem is about them.")
EXHAUSTIVE = {"quick": False, "thorough": False}
ASSUMPTIONS = [
    "digits are ASCII (\\d, str.isdigit and int() of CPython also accept other Unicode decimal digits)",
    "numbers are short enough for int() (CPython refuses more than 4300 digits)",
    "hash(obj) is the value of __hash__ below 2^63 and that value modulo 2^61-1 above (64-bit CPython)",
    "set()+sorted() raise TypeError exactly when an int and a None meet at the first unequal sort_list position of two members",
]
TRUSTED = ["CiscoIOSInterface and CiscoRange(result_type=None) only; CiscoIOSXRInterface is out of scope"]

PREFIXES = ["Ethernet", "Eth", "Gi", "GigabitEthernet", "Port-channel", "Bundle-Ether", "Serial", "Vlan", "Loopback", "Tunnel", "ATM",
            "TenGigE", "mgmt", "Po", "Fa", "Te"]
CLASSES = ["multipoint", "point-to-point", "l-two", "x", "PtP"]
BOUNDARY = [0, 1, 2, 9, 10, 11, 19, 20, 99, 100, 101, 999, 1000, 4094, 9998, 9999]
ERRS = ("InvalidCiscoInterface", "NoRegexMatch", "ValueError", "TypeError", "InvalidCiscoRange", "IndexError")
READS = ["len", "iter", "list", "set", "dicts"]


# ------------------------------------------------------------------ independent reference (never the Lean model)
def ref_render(d):
    s = d["prefix"] + "/".join(str(n) for n in d["nums"])
    if d["sub"] is not None:
        s += "." + str(d["sub"])
    if d["chan"] is not None:
        s += ":" + str(d["chan"])
    if d["cls"] is not None:
        s += " " + d["cls"]
    return s


def ref_dict(d):
    nums = d["nums"]
    slot = nums[0] if len(nums) >= 2 else None
    card = nums[1] if len(nums) == 3 else None
    opt = lambda v: "-" if v is None else str(v)  # noqa: E731
    return ",".join([wire.enc_str(d["prefix"]), "47" if len(nums) >= 2 else "-", opt(slot), opt(card), str(nums[-1]),
                     opt(d["sub"]), opt(d["chan"]), "-" if d["cls"] is None else wire.enc_str(d["cls"])])


def ref_key(d):
    """numeric components in the order slot, card, port, sub, chan; the class word last"""
    return (list(d["nums"]) + [x for x in (d["sub"], d["chan"]) if x is not None], d["cls"] or "")


def ref_shape(d):
    return (len(d["nums"]), d["sub"] is None, d["chan"] is None, d["cls"] is None)


def ref_vary(d, v):
    """the description with its last numeric component replaced"""
    e = dict(d)
    e["nums"] = list(d["nums"])
    if d["chan"] is not None:
        e["chan"] = v
    elif d["sub"] is not None:
        e["sub"] = v
    else:
        e["nums"][-1] = v
    return e


def ref_last(d):
    if d["chan"] is not None:
        return d["chan"], ":"
    if d["sub"] is not None:
        return d["sub"], "."
    return d["nums"][-1], ""


# ------------------------------------------------------------------ generators
def _num(rng, near=None):
    if near is not None and rng.random() < 0.7:
        return max(0, min(9999, near + rng.choice([-9, -1, 0, 0, 1, 8, 9, 10, 90])))
    return rng.choice(BOUNDARY) if rng.random() < 0.5 else rng.randint(0, 9999)


def _prefix(rng):
    r = rng.random()
    if r < 0.8:
        return rng.choice(PREFIXES)
    if r < 0.85:
        return ""
    n = rng.randint(1, 6)
    w = "".join(rng.choice("abcxyzABEPS-") for _ in range(n))
    return w + rng.choice("atXZ")


def _descr(rng, shape=None, near=None, prefix=None, hyphen_class=True):
    if shape is None:
        shape = (rng.choice([1, 1, 2, 2, 2, 3]), rng.random() < 0.65, rng.random() < 0.75, rng.random() < 0.8)
    n, nosub, nochan, nocls = shape
    nd = near or {}
    nums = [_num(rng, (nd.get("nums") or [None] * 3)[i] if near else None) for i in range(n)]
    classes = CLASSES if hyphen_class else [c for c in CLASSES if "-" not in c]
    return {"prefix": _prefix(rng) if prefix is None else prefix, "nums": nums,
            "sub": None if nosub else _num(rng, nd.get("sub")),
            "chan": None if nochan else _num(rng, nd.get("chan")),
            "cls": None if nocls else (nd.get("cls") if near and rng.random() < 0.5 and nd.get("cls") else rng.choice(classes))}


def _surface(rng, d):
    """a spelling of d that the parser must read as d"""
    z = lambda n: ("0" * rng.choice([0, 0, 0, 1, 2])) + str(n)  # noqa: E731
    blank = rng.choice(["", "", "", " ", " ", "\t", " ", "  "]) if d["prefix"] else ""
    s = d["prefix"] + blank + "/".join(z(n) for n in d["nums"])
    if d["sub"] is not None:
        s += "." + z(d["sub"])
    if d["chan"] is not None:
        s += ":" + z(d["chan"])
    if d["cls"] is not None:
        s += rng.choice([" ", " ", "  ", "\t"]) + d["cls"]
    return rng.choice(["", "", "", " "]) + s + rng.choice(["", "", "", " ", "\n"])


def mk_name(s, d=None, origin="gen"):
    return {"kind": "name", "s": s, "d": d, "req": wire.req("intf", "name", wire.enc_str(s)), "_origin": origin}


def mk_cmp(a, b, da=None, db=None, origin="gen"):
    return {"kind": "cmp", "a": a, "b": b, "da": da, "db": db,
            "req": wire.req("intf", "cmp", wire.enc_str(a), wire.enc_str(b)), "_origin": origin}


def mk_range(text, ops, base=None, values=None, style=None, origin="gen"):
    return {"kind": "range", "text": text, "ops": ops, "base": base, "values": values, "style": style,
            "req": wire.req("intf", "range", wire.enc_str(text), *ops), "_origin": origin}


# ---------------------------------------------------------------- further entry points (channel `intfx`)
DICT_KEYS = ["prefix", "slot", "card", "port", "digit_separator", "subinterface", "channel", "interface_class"]
GUARDS = ["psi-int", "short-none", "short-str", "long-none", "long-str", "check-int", "prefix-int", "ctor-int",
          "ctor-dict-int", "ctor-nothing"]
VIEW_TYPES = ["auto", "none", "inst", "str", "int", "float", "bad"]
RANGE_RTS = ["none", "ios", "str"]


def mk_obj(s, d=None, origin="gen"):
    return {"kind": "obj", "s": s, "d": d, "req": wire.req("intfx", "obj", wire.enc_str(s)), "_origin": origin}


def mk_raw(s, d=None, origin="gen"):
    return {"kind": "raw", "s": s, "d": d, "req": wire.req("intfx", "raw", wire.enc_str(s)), "_origin": origin}


def mk_dict(s, keys, d=None, origin="gen"):
    return {"kind": "dict", "s": s, "keys": keys, "d": d, "_origin": origin,
            "req": wire.req("intfx", "dict", wire.enc_str(s), wire.enc_strs(keys))}


def mk_setpfx(s, p, d=None, origin="gen"):
    return {"kind": "setpfx", "s": s, "p": p, "d": d, "_origin": origin,
            "req": wire.req("intfx", "setpfx", wire.enc_str(s), wire.enc_str(p))}


def mk_guard(g, origin="gen"):
    return {"kind": "guard", "g": g, "req": wire.req("intfx", "guard", g), "_origin": origin}


def mk_xrange(text, rt, rev, ops, base=None, values=None, style=None, origin="gen"):
    return {"kind": "xrange", "text": text, "rt": rt, "rev": int(bool(rev)), "ops": ops, "base": base, "values": values,
            "style": style, "_origin": origin,
            "req": wire.req("intfx", "range", wire.enc_str(text), rt, str(int(bool(rev))), *ops)}


def _rand_keys(rng):
    r = rng.random()
    keys = list(DICT_KEYS)
    if r < 0.3:
        pass
    elif r < 0.5:
        keys.remove(rng.choice(DICT_KEYS))
    elif r < 0.65:
        keys.remove(rng.choice(DICT_KEYS))
        keys.append(rng.choice(["extra", "Prefix", "ports", "sub"]))
    elif r < 0.8:
        keys.append(rng.choice(["extra", "Prefix", "ports", "sub"]))
    elif r < 0.85:
        keys = []
    else:
        keys = [k for k in DICT_KEYS if rng.random() < 0.7] + [k for k in ["extra", "x", "y"] if rng.random() < 0.3]
    rng.shuffle(keys)
    return keys


def _rand_xops(rng):
    ops = []
    for _ in range(rng.choice([2, 3, 4, 6, 8])):
        r = rng.random()
        if r < 0.5:
            ops.append(rng.choice(["list", "set"]) + ":" + rng.choice(VIEW_TYPES))
        elif r < 0.75:
            ops.append(rng.choice(["str", "repr", "eqfresh", "data", "data", "idx:%d" % rng.choice([0, 0, 1, 2, 3, 7, 50, 500])]))
        else:
            ops.append(rng.choice(READS))
    return ["len"] + ops + ["list:none", "data", "set:auto", "iter", "eqfresh", "len"]


X_FIXED_RANGES = ["", "Eth1/1-3,7", "Port-channel1-3", "Serial1/0:1-3,5", "Eth1/1.1-3,.5", "Serial1/0-5 multipoint", "Eth1/3-1",
                  "Eth1/1,Eth2/3", "Eth1-3", "Eth1/1-3-5", "Eth1/1,,2", "1-3", "Eth1/2/1-3,7"]


def _x_cases(rng, tier):
    if tier != "search":
        for g in GUARDS:
            yield mk_guard(g)
        for s in FIXED_NAMES:
            yield mk_obj(s)
            yield mk_raw(s)
            yield mk_dict(s, list(DICT_KEYS))
        for t in X_FIXED_RANGES:
            for rt in RANGE_RTS:
                for rev in (0, 1):
                    yield mk_xrange(t, rt, rev, ["len", "iter"] + ["%s:%s" % (m, v) for v in VIEW_TYPES for m in ("list", "set")]
                                    + ["data", "str", "repr", "idx:0", "idx:3", "idx:4", "eqfresh", "list", "data", "iter"])
    n = {"quick": 2000, "thorough": 60000, "search": 2000}[tier]
    for i in range(n):
        r = rng.random()
        if r < 0.6:
            d = _descr(rng)
            s = _surface(rng, d) if rng.random() < 0.5 else ref_render(d)
            bad = rng.random() < 0.08
            if bad:
                s, d = _malformed(rng, s), None
            k = rng.random()
            if k < 0.35:
                yield mk_obj(s, d)
            elif k < 0.6:
                yield mk_raw(s, d)
            elif k < 0.85:
                yield mk_dict(s, _rand_keys(rng), d)
            else:
                yield mk_setpfx(s, rng.choice(["", " "]) + _prefix(rng) + rng.choice(["", " ", "\t "]), d)
        else:
            c = _rand_range(rng)
            text = c["text"]
            ops = _rand_xops(rng)
            rt, rev = rng.choice(RANGE_RTS), rng.random() < 0.5
            if rng.random() < 0.08:
                yield mk_xrange(_malformed(rng, text), rt, rev, ops)
            else:
                yield mk_xrange(text, rt, rev, ops, c["base"], c["values"], c["style"])


def from_corpus(c):
    if c["kind"] == "name":
        return mk_name(c["s"], c.get("d"), "corpus")
    if c["kind"] == "cmp":
        return mk_cmp(c["a"], c["b"], c.get("da"), c.get("db"), "corpus")
    return mk_range(c["text"], c["ops"], c.get("base"), c.get("values"), c.get("style"), "corpus")


def _rand_ops(rng):
    ops = [rng.choice(READS) for _ in range(rng.choice([1, 2, 3, 5]))]
    return ["len"] + ops + ["list", "set", "iter", "len"]


def _rand_range(rng):
    style = rng.choice(["bare", "bare", "marked", "full"])
    base = _descr(rng, hyphen_class=False)
    if rng.random() < 0.2:
        base["prefix"] = rng.choice(["Port-channel", "Bundle-Ether", "Port-channel", "nve-x", "a-b-c"])
    cls, base["cls"] = base["cls"], None
    last, mark = ref_last(base)
    sp = lambda: rng.choice(["", "", "", "", " "])  # noqa: E731
    values, parts = [], []
    nparts = rng.choice([1, 1, 2, 3, 4, 6])
    for i in range(nparts):
        lo = last if i == 0 else _num(rng, last)
        if i == 0:
            head = ref_render(base) if rng.random() < 0.7 else _surface(rng, base).strip()
        elif style == "full":
            head = ref_render(ref_vary(base, lo))
        elif style == "marked":
            head = mark + str(lo)
        else:
            head = str(lo)
        if rng.random() < 0.5:
            width = rng.choice([0, 1, 2, 3, 5, 12, 40])
            hi = min(9999, lo + width)
            if rng.random() < 0.07 and hi > lo:
                parts.append(f"{head}{sp()}-{sp()}{lo - 1 if lo else 0}")
                if lo == 0:
                    values.append(0)
                continue
            parts.append(f"{sp()}{head}{sp()}-{sp()}{hi}{sp()}")
            values.extend(range(lo, hi + 1))
        else:
            parts.append(f"{sp() if i else ''}{head}{sp()}")
            values.append(lo)
    if rng.random() < 0.25 and len(parts) > 1:
        j = rng.randrange(1, len(parts))
        parts.append(parts[j])
    text = ",".join(parts)
    if cls is not None:
        text = text.rstrip() + " " + cls
        base["cls"] = cls
    return mk_range(text, _rand_ops(rng), base, sorted(set(values)), style)


ALPH = "EthPo-19/.:^ _,x0"


def _malformed(rng, seed_text):
    r = rng.random()
    if r < 0.4:
        return "".join(rng.choice(ALPH) for _ in range(rng.randint(0, 9)))
    s = list(seed_text)
    for _ in range(rng.choice([1, 1, 2])):
        k = rng.random()
        if s and k < 0.4:
            del s[rng.randrange(len(s))]
        elif s and k < 0.6:
            s[rng.randrange(len(s))] = rng.choice(ALPH)
        else:
            s.insert(rng.randrange(len(s) + 1), rng.choice(ALPH))
    return "".join(s)


FIXED_NAMES = ["Ethernet", "Eth 1/2.3:4 multipoint", "1//2", "1/", "1.2/3", "Eth/1", "Eth1 2", "Eth1 foo bar", "Eth.5",
               "Serial 4/1/2.9:5 point-to-point", "Eth1/2/3/4", "Eth1^2", "Eth1_2", "", "  ", "Eth1/2 l2transport",
               "eth1,2", "Eth1 -", "-1", "Eth-1/2", "1", "Eth1/2/", "Eth1/2/3/", "Eth1:5.7", "Eth1..2", "Eth1.:2",
               "Eth1/2.x", "Eth 1 / 2", "Eth1/ 2", "a", "-", "Eth1/2:3/4", "Eth1 x y", "Eth1\tx", "9999/9999/9999.9999:9999 z"]
FIXED_RANGES = ["Eth1/1-3,5,9-10", "Port-channel1-3", "Port-channel1,2", "Serial1/0:1-3,5", "Serial1/0:1-3,:5", "Eth1/1.1-3,5",
                "Eth1/1.1-3,.5,.7-8", "Serial1/0-5 multipoint", "Eth1/3-1", "Eth1/1,1,1-2", "Eth1/1,Eth1/3", "Eth1/1,Eth2/3",
                "Serial1/0:3-1,5", "Eth1-3", "Eth1/2/1-3,7", " ", "Eth1/1-3-5", "Eth1/1-", "Eth1/1-a", "Eth 1/1 - 3 , 5",
                "Eth1/1,,2", "Serial1/0,1 multipoint", "Serial1/0.1-2 multipoint", "Eth1/1,x", "Eth1/1, 7 , 9 - 11 ", "",
                ",", "Eth1/1,", ",Eth1/1", "Eth1/1-3 foo_bar", "Eth1/1 foo,2 bar", "Serial1/0:1,5-7,x", "Eth1/1-3 point-to-point",
                "Eth1/1.2:3-4,:9", "Eth1/1,2-", "Eth1/1 -3", "1-3", "1/1-3,5", "Port-channel 1 - 3 , 7", "Bundle-Ether10-12,15",
                "Port-channel1.1-3", "Po-1-3", "Eth1/1--3", "Eth1/1- -3", "Eth1/1 x-3", "Eth1/1-3x-5", "1-2-3", "Eth1/1-3 point-to-point,5",
                "Eth1/1 -", "-1-3", "Eth1-2/3", "Serial1/0-2 point-to-point"]


def _too_big(text):
    """keeps the run time bounded: __hash__ is (idx+1)**value and a mutated interval may span thousands of members"""
    if re.search(r"\d{6,}", text):
        return True
    for part in text.split(","):
        pieces = re.split(r"(?<=\d)\s*-\s*(?=\d)", part)
        if len(pieces) == 2:
            hi = int("".join(c for c in pieces[1] if c.isdigit()) or "0")
            los = [int(x) for x in re.findall(r"\d+", pieces[0])] or [0]
            if hi - los[-1] > 400:
                return True
    return False


def cases(rng, tier):
    for c in _cases(rng, tier):
        texts = [c.get("s"), c.get("a"), c.get("b"), c.get("text"), c.get("p")]
        if not any(t is not None and _too_big(t) for t in texts):
            yield c


def _cases(rng, tier):
    if tier != "search":
        for s in FIXED_NAMES:
            yield mk_name(s)
        for t in FIXED_RANGES:
            yield mk_range(t, ["len", "list", "set", "iter", "dicts", "len"])
    n = {"quick": 3200, "thorough": 150000, "search": 3000}[tier]
    for i in range(n):
        r = rng.random()
        if r < 0.35:
            d = _descr(rng)
            s = _surface(rng, d) if rng.random() < 0.6 else ref_render(d)
            if rng.random() < 0.07:
                yield mk_name(_malformed(rng, s))
            else:
                yield mk_name(s, d)
        elif r < 0.65:
            da = _descr(rng)
            if rng.random() < 0.85:
                db = _descr(rng, shape=ref_shape(da), near=da, prefix=da["prefix"] if rng.random() < 0.7 else None)
            else:
                db = _descr(rng, prefix=da["prefix"])
            a, b = ref_render(da), ref_render(db)
            if rng.random() < 0.3:
                a, b = _surface(rng, da), _surface(rng, db)
            yield mk_cmp(a, b, da, db)
        else:
            c = _rand_range(rng)
            if rng.random() < 0.08:
                yield mk_range(_malformed(rng, c["text"]), c["ops"])
            else:
                yield c
    import random
    yield from _x_cases(random.Random(rng.getrandbits(64) ^ 0xC15), tier)


def neighbours(case, rng):
    for c in _neighbours(case, rng):
        if not any(t is not None and _too_big(t) for t in (c.get("s"), c.get("a"), c.get("text"))):
            yield c


def _neighbours(case, rng):
    for _ in range(300):
        if case["kind"] == "name":
            yield mk_name(_malformed(rng, case["s"]))
        elif case["kind"] == "obj":
            yield mk_obj(_malformed(rng, case["s"]))
        elif case["kind"] == "raw":
            yield mk_raw(_malformed(rng, case["s"]))
        elif case["kind"] == "dict":
            yield mk_dict(_malformed(rng, case["s"]), case["keys"])
        elif case["kind"] == "setpfx":
            yield mk_setpfx(_malformed(rng, case["s"]), case["p"])
        elif case["kind"] == "guard":
            return
        elif case["kind"] == "xrange":
            yield mk_xrange(_malformed(rng, case["text"]), case["rt"], case["rev"], case["ops"])
        elif case["kind"] == "cmp":
            yield mk_cmp(_malformed(rng, case["a"]), case["b"])
        else:
            yield mk_range(_malformed(rng, case["text"]), case["ops"])


def nontrivial(case):
    if case["kind"] in ("obj", "raw", "dict", "setpfx"):
        return bool(case.get("d"))
    if case["kind"] == "guard":
        return True
    if case["kind"] == "xrange":
        return bool(case.get("base")) and len(case["values"]) >= 2
    if case["kind"] == "name":
        d = case.get("d")
        return bool(d) and (len(d["nums"]) > 1 or d["sub"] is not None or d["chan"] is not None or case["s"] != ref_render(d))
    if case["kind"] == "cmp":
        da, db = case.get("da"), case.get("db")
        return bool(da and db) and ref_shape(da) == ref_shape(db) and len(ref_key(da)[0]) > 1 and ref_key(da)[0][0] == ref_key(db)[0][0]
    return bool(case.get("base")) and (len(case["values"]) >= 3)


def describe(case):
    return {k: v for k, v in case.items() if k not in ("req", "_origin")}


def buckets(case, ans):
    out = ["kind:" + case["kind"], "answer:" + (ans if ans.startswith("err") else "ok")]
    if case["kind"] == "name" and case.get("d"):
        d = case["d"]
        out.append("shape:%d%s%s%s" % (len(d["nums"]), "" if d["sub"] is None else ".s", "" if d["chan"] is None else ":c",
                                      "" if d["cls"] is None else " w"))
        out.append("prefix-hyphen:%s" % ("-" in d["prefix"]))
        out.append("surface-varied:%s" % (case["s"] != ref_render(d)))
    if case["kind"] == "cmp" and case.get("da"):
        out.append("same-shape:%s" % (ref_shape(case["da"]) == ref_shape(case["db"])))
        out.append("same-prefix:%s" % (case["da"]["prefix"] == case["db"]["prefix"]))
    if case["kind"] == "dict":
        ks = case["keys"]
        out.append("dict-keys:%d%s%s" % (len(ks), ",missing" if any(k not in ks for k in DICT_KEYS) else "",
                                        ",unknown" if any(k not in DICT_KEYS for k in ks) else ""))
    if case["kind"] == "guard":
        out.append("guard:" + case["g"])
    if case["kind"] == "xrange":
        out.append("ctor:result_type=%s,reverse=%d" % (case["rt"], case["rev"]))
        for o in case["ops"]:
            if ":" in o:
                out.append("view:" + o)
    if case["kind"] in ("range", "xrange"):
        out.append("style:%s" % case.get("style"))
        if case.get("base"):
            out.append("iter:" + ("chan" if case["base"]["chan"] is not None else "sub" if case["base"]["sub"] is not None else "port"))
            out.append("members:%s" % min(50, len(case["values"]) // 5 * 5))
        if case.get("base"):
            out.append("range-prefix-hyphen:%s" % ("-" in case["base"]["prefix"]))
        out.append("parts:%d" % min(9, case["text"].count(",") + 1))
    return out


# ------------------------------------------------------------------ implementation
def _enc_dict(o):
    d = o.as_dict()
    opt = lambda v: "-" if v is None else str(int(v))  # noqa: E731
    sep = d["digit_separator"]
    assert sep is None or len(sep) == 1, sep
    return ",".join([wire.enc_str(d["prefix"]), "-" if sep is None else str(ord(sep)), opt(d["slot"]), opt(d["card"]),
                     opt(d["port"]), opt(d["subinterface"]), opt(d["channel"]),
                     "-" if d["interface_class"] is None else wire.enc_str(d["interface_class"])])


def _err(e):
    n = type(e).__name__
    if n in ERRS:
        return "err:" + n
    raise e


def _render(o):
    try:
        return wire.enc_str(str(o))
    except ValueError as e:
        return _err(e)


def _describe(o):
    return [_render(o), _enc_dict(o), str(hash(o))]


def _boole(f):
    try:
        return "T" if f() else "F"
    except TypeError:
        return "err:TypeError"


def _describe3(o, j):
    return [_render(j), _enc_dict(j), "T" if o == j else "F"]


def _try3(o, f):
    try:
        return _describe3(o, f())
    except Exception as e:
        return [_err(e)]


def _enc_view(r, CiscoIOSInterface):
    kind = "L" if type(r) is list else "S" if type(r) is set else "?"
    items = list(r)
    if not items:
        return kind + "e:"
    if all(type(x) is CiscoIOSInterface for x in items):
        tag, names = "o", [str(x) for x in items]
    elif all(type(x) is str for x in items):
        tag, names = "s", items
    else:
        return kind + "?:" + repr(items)[:60]
    if kind == "S":
        names = sorted(names)
    return kind + tag + ":" + wire.enc_strs(names)


def _impl_x(case, CiscoIOSInterface, CiscoRange):
    kind = case["kind"]
    if kind == "guard":
        g = case["g"]
        try:
            if g.startswith("ctor"):
                {"ctor-int": lambda: CiscoIOSInterface(5), "ctor-dict-int": lambda: CiscoIOSInterface(interface_dict=5),
                 "ctor-nothing": lambda: CiscoIOSInterface()}[g]()
            else:
                o = CiscoIOSInterface("Ethernet1")
                if g == "prefix-int":
                    o.prefix = 5
                else:
                    {"psi-int": lambda: o.parse_single_interface(5), "short-none": lambda: o.parse_intf_short(None),
                     "short-str": lambda: o.parse_intf_short("x"), "long-none": lambda: o.parse_intf_long(None),
                     "long-str": lambda: o.parse_intf_long("x"), "check-int": lambda: o.check_interface_dict(5)}[g]()
            return "ok"
        except Exception as e:
            return _err(e)
    if kind == "raw":
        o = CiscoIOSInterface("Ethernet1")
        try:
            d = o.parse_single_interface(case["s"])
        except Exception as e:
            return _err(e)
        opt = lambda v: "-" if v is None else str(int(v))  # noqa: E731
        sep = d["digit_separator"]
        cls = d["interface_class"]
        return ",".join([wire.enc_str(d["prefix"].strip()), "-" if sep is None else str(ord(sep)), opt(d["slot"]), opt(d["card"]),
                         opt(d["port"]), opt(d["subinterface"]), opt(d["channel"]),
                         "-" if cls is None else wire.enc_str(cls.strip())])
    if kind == "xrange":
        rt = {"none": None, "ios": CiscoIOSInterface, "str": str}[case["rt"]]
        try:
            obj = CiscoRange(case["text"], result_type=rt, reverse=bool(case["rev"]))
        except Exception as e:
            return _err(e)
        view_arg = {"none": None, "str": str, "int": int, "float": float, "bad": bool}
        out = ["ok"]
        for op in case["ops"]:
            f = op.split(":")
            if len(f) == 2 and f[0] in ("list", "set"):
                meth = obj.as_list if f[0] == "list" else obj.as_set
                try:
                    if f[1] == "auto":
                        r = meth()
                    elif f[1] == "inst":
                        r = meth(result_type=CiscoIOSInterface("Ethernet1"))
                    else:
                        r = meth(result_type=view_arg[f[1]])
                    out.append(_enc_view(r, CiscoIOSInterface))
                except Exception as e:
                    n = type(e).__name__
                    if n not in ERRS + ("ListItemMissingAttribute",):
                        raise
                    out.append("err:" + n)
            elif op == "str":
                out.append(wire.enc_str(str(obj)))
            elif op == "repr":
                out.append(wire.enc_str(repr(obj)))
            elif f[0] == "idx":
                try:
                    m = obj[int(f[1])]
                    out.append(_render(m) if type(m) is CiscoIOSInterface else "?" + repr(m)[:40])
                except IndexError:
                    out.append("err:IndexError")
            elif op == "eqfresh":
                r = obj == CiscoRange(case["text"], result_type=None)
                out.append("T" if r is True else "F" if r is False else "?" + repr(r)[:40])
            elif op == "data":
                d = obj.data
                out.append(" ".join(_render(m) for m in d) if type(d) is list else "?" + repr(d)[:40])
            else:
                out.append(_range_op(obj, op))
        return "|".join(out)
    # obj / dict / setpfx start from a parsed name
    try:
        o = CiscoIOSInterface(case["s"])
    except Exception as e:
        return _err(e)
    if kind == "obj":
        out = ["ok", wire.enc_str(repr(o)), wire.enc_str(o.name), "T" if o == str(o) else "F", "T" if o == 5 else "F"]
        p = CiscoIOSInterface(case["s"])
        p.number = "9/9"
        out.append(_render(p))
        out += _try3(o, lambda: CiscoIOSInterface(interface_dict=o.as_dict()))
        out += _try3(o, lambda: CiscoIOSInterface(o))
        out += _try3(o, lambda: o.from_dict(o.as_dict()))
        j = o.from_dict(dict(o.as_dict(), card=7))
        out += [_render(j), _enc_dict(j)]
        return "|".join(out)
    if kind == "dict":
        d = o.as_dict()
        dd = {k: d.get(k, "junk") for k in case["keys"]}
        try:
            chk = "T" if o.check_interface_dict(dd) is True else "F"
        except (ValueError, KeyError) as e:
            chk = "err:" + type(e).__name__
        try:
            ctor = "|".join(_describe3(o, CiscoIOSInterface(interface_dict=dd)))
        except KeyError:
            ctor = "err:KeyError"
        except Exception as e:
            ctor = _err(e)
        return "|".join(["ok", chk, ctor])
    if kind == "setpfx":
        o.prefix = case["p"]
        return "|".join(["ok", _render(o), _enc_dict(o)])
    raise AssertionError(kind)


def _range_op(obj, op):
    if op == "len":
        return str(len(obj))
    if op == "iter":
        return " ".join(_render(m) for m in iter(obj))
    if op == "dicts":
        return " ".join(_enc_dict(m) for m in obj.data)
    if op == "list":
        return " ".join(_render(m) for m in obj.as_list())
    if op == "set":
        r = obj.as_set(result_type=str)
        assert isinstance(r, (set, list))
        return wire.enc_strs(sorted(r))
    raise AssertionError(op)


def impl(case):
    quiet_ccp()
    from ciscoconfparse2.ccp_util import CiscoIOSInterface, CiscoRange
    if case["kind"] in ("obj", "raw", "dict", "setpfx", "guard", "xrange"):
        try:
            return _impl_x(case, CiscoIOSInterface, CiscoRange)
        except SystemExit:
            raise AssertionError("sys.exit() reached")
    try:
        if case["kind"] == "name":
            o = CiscoIOSInterface(case["s"])
            out = ["ok"] + _describe(o)
            try:
                j = CiscoIOSInterface(str(o))
                out += _describe(j) + ["T" if o == j else "F"]
            except Exception as e:
                out.append(_err(e))
            return "|".join(out)
        if case["kind"] == "cmp":
            a = CiscoIOSInterface(case["a"])
            b = CiscoIOSInterface(case["b"])
            return "|".join(["ok", "T" if a == b else "F", _boole(lambda: a < b), _boole(lambda: a > b),
                             "T" if hash(a) == hash(b) else "F"])
        obj = CiscoRange(case["text"], result_type=None)
    except SystemExit:
        raise AssertionError("sys.exit() reached")
    except Exception as e:
        return _err(e)
    out = ["ok"]
    for op in case["ops"]:
        if op == "len":
            out.append(str(len(obj)))
        elif op == "iter":
            out.append(" ".join(_render(m) for m in iter(obj)))
        elif op == "dicts":
            out.append(" ".join(_enc_dict(m) for m in obj.data))
        elif op == "list":
            r = obj.as_list()
            out.append(" ".join(_render(m) for m in r))
        elif op == "set":
            r = obj.as_set(result_type=str)
            assert isinstance(r, (set, list))
            out.append(wire.enc_strs(sorted(r)))
        else:
            raise AssertionError(op)
    return "|".join(out)


# ------------------------------------------------------------------ oracle (independent of the Lean model)
def known_id(case, failure):
    if case["kind"] in ("range", "xrange") and case.get("base"):
        last_is_port = case["base"]["sub"] is None and case["base"]["chan"] is None
        if (not last_is_port and case["style"] == "bare" and case["text"].count(",") >= 1
                and (failure.startswith("well-formed range rejected with err:TypeError") or failure.startswith("bare-part:"))):
            return "FC15b"
    return None


def _oracle_x(case, ans):
    kind = case["kind"]
    fails = []
    if kind == "guard":
        return [] if ans.startswith("err") else [f"a call with an argument of the wrong type ({case['g']}) was accepted"]
    if kind == "xrange":
        base, values = case.get("base"), case.get("values")
        if not base or not values:
            return []
        if ans.startswith("err"):
            return [f"well-formed range rejected with {ans}"]
        members = [ref_render(ref_vary(base, v)) for v in values]
        tag = "bare-part: " if case["style"] == "bare" else ""
        for op, got in zip(case["ops"], ans.split("|")[1:]):
            f = op.split(":")
            if op in ("str", "repr"):
                inner = "[" + ", ".join(members) + "]"
                exp = inner if op == "str" else f"<CiscoRange {inner} members: <class 'ciscoconfparse2.ccp_util.CiscoIOSInterface'>>"
                if got != wire.enc_str(exp):
                    fails.append(f"{tag}{op}() is {wire.dec_str(got)[:100] if got.startswith('s') else got!r}")
            elif f[0] == "idx":
                k = int(f[1])
                exp = wire.enc_str(members[k]) if k < len(members) else "err:IndexError"
                if got != exp:
                    fails.append(f"{tag}obj[{k}] gives {wire.dec_str(got) if got.startswith('s') else got} of {len(members)} members")
            elif op == "eqfresh":
                if got != "T":
                    fails.append(f"{tag}the range is not == to a freshly parsed one after reading it")
            elif op == "data":
                exp = " ".join(wire.enc_str(m) for m in members)
                if got != exp:
                    fails.append(f"{tag}obj.data is {[wire.dec_str(x) for x in got.split(' ')][:12] if got[:1] == 's' else got} expected {members[:12]}")
            elif len(f) == 2:
                if f[1] not in ("auto", "none", "str"):
                    continue      # the property does not say what an int / float cast of an interface is
                if got.startswith("err"):
                    fails.append(f"{tag}{op} raised {got}")
                    continue
                order = members[::-1] if (case["rev"] and f[0] == "list") else members
                exp = ("L" if f[0] == "list" else "S") + ("s" if f[1] == "str" else "o") + ":" + \
                    wire.enc_strs(order if f[0] == "list" else sorted(members))
                if got != exp:
                    shown = [wire.dec_str(x) for x in got[3:].split(" ")][:12] if got[2:3] == ":" and got[3:] else got[:40]
                    fails.append(f"{tag}{op} gives {got[:2]} {shown} expected {exp[:2]} {order[:12]}"
                                 + (" (reverse=True)" if case["rev"] and f[0] == "list" else ""))
            elif op == "len" and int(got) != len(members):
                fails.append(f"{tag}len {got} != {len(members)}")
            elif op in ("iter", "list"):
                order = members[::-1] if (case["rev"] and op == "list") else members
                exp = " ".join(wire.enc_str(m) for m in order)
                if got != exp:
                    fails.append(f"{tag}{op} view is {[wire.dec_str(x) for x in got.split(' ')][:12]} expected {order[:12]}")
            elif op == "set" and got != wire.enc_strs(sorted(members)):
                fails.append(f"{tag}as_set is {wire.dec_strs(got)[:12]} expected {sorted(members)[:12]}")
            elif op == "dicts":
                exp = " ".join(ref_dict(ref_vary(base, v)) for v in values)
                if got != exp:
                    fails.append(f"{tag}member components differ: {got[:120]} expected {exp[:120]}")
        return fails[:3]
    d = case.get("d")
    if not d:
        return []
    if ans.startswith("err"):
        return [f"well-formed name rejected with {ans}"]
    canon, comps = ref_render(d), ref_dict(d)
    if kind == "raw":
        return [] if ans == comps else [f"parse_single_interface gives {ans} expected {comps}"]
    f = ans.split("|")
    if kind == "obj":
        if f[1] != wire.enc_str(f"<CiscoIOSInterface {canon}>"):
            fails.append(f"repr is {wire.dec_str(f[1])!r}")
        if f[2] != wire.enc_str(canon):
            fails.append(f".name is {wire.dec_str(f[2])!r} expected {canon!r}")
        if f[3] != "F" or f[4] != "F":
            fails.append("an interface compares equal to a str / an int")
        if f[5] != wire.enc_str(canon):
            fails.append("str() changed after assigning .number")
        rebuilt = f[6:-2]
        e = dict(d)
        e["nums"] = [d["nums"][0], 7, d["nums"][-1]]
        if len(d["nums"]) >= 2 and f[-2:] != [wire.enc_str(ref_render(e)), ref_dict(e)]:
            fails.append(f"from_dict with card=7 gives {f[-2:]}")
        for i, how in enumerate(["CiscoIOSInterface(interface_dict=o.as_dict())", "CiscoIOSInterface(o)", "o.from_dict(o.as_dict())"]):
            part = rebuilt[3 * i:3 * i + 3]
            if len(rebuilt) != 9:
                fails.append(f"rebuilding from the components failed: {rebuilt[:4]}")
                break
            if part != [wire.enc_str(canon), comps, "T"]:
                fails.append(f"{how} gives {part} expected {canon!r} / {comps} / equal")
        return fails[:3]
    if kind == "dict":
        ks = case["keys"]
        if sorted(ks) == sorted(DICT_KEYS):
            if f[1] != "T":
                fails.append(f"check_interface_dict refuses the components of a parsed name: {f[1]}")
            if f[2:] != [wire.enc_str(canon), comps, "T"]:
                fails.append(f"CiscoIOSInterface(interface_dict=as_dict()) gives {f[2:]} expected {canon!r} / {comps} / equal")
        else:
            if f[1] == "T":
                fails.append(f"check_interface_dict accepts the keys {sorted(ks)}")
            if not f[2].startswith("err"):
                fails.append(f"CiscoIOSInterface(interface_dict=...) accepts the keys {sorted(ks)}")
        return fails
    if kind == "setpfx":
        e = dict(d)
        e["prefix"] = case["p"].strip()
        if f[1] != wire.enc_str(ref_render(e)) or f[2] != ref_dict(e):
            fails.append(f"after prefix = {case['p']!r}: {wire.dec_str(f[1]) if f[1].startswith('s') else f[1]!r} / {f[2]}")
        return fails
    return []


def oracle(case, ans):
    fails = []
    if case["kind"] in ("obj", "raw", "dict", "setpfx", "guard", "xrange"):
        return _oracle_x(case, ans)
    if case["kind"] == "name":
        d = case.get("d")
        if not d:
            return []
        if ans.startswith("err"):
            return [f"well-formed name rejected with {ans}"]
        f = ans.split("|")
        want_s, want_d = wire.enc_str(ref_render(d)), ref_dict(d)
        if f[1] != want_s:
            fails.append(f"rendering {wire.dec_str(f[1])!r} is not the canonical name {ref_render(d)!r}")
        if f[2] != want_d:
            fails.append(f"components {f[2]} expected {want_d}")
        if len(f) < 8:
            fails.append(f"re-parsing the rendering failed: {f[4:]}")
        else:
            if f[4] != f[1] or f[5] != f[2]:
                fails.append(f"re-parsed rendering has components {f[5]} / name {f[4]}")
            if f[7] != "T":
                fails.append("re-parsed object is not equal to the original")
            if f[6] != f[3]:
                fails.append("re-parsed object has a different hash")
        return fails[:3]
    if case["kind"] == "cmp":
        da, db = case.get("da"), case.get("db")
        if not da or not db:
            return []
        if ans.startswith("err"):
            return [f"well-formed name rejected with {ans}"]
        _, eq, lt, gt, hs = ans.split("|")
        same_obj = da["prefix"] == db["prefix"] and ref_shape(da) == ref_shape(db) and ref_key(da) == ref_key(db)
        if (eq == "T") != same_obj:
            fails.append(f"== is {eq} for descriptions that are {'equal' if same_obj else 'different'}")
        if eq == "T" and hs != "T":
            fails.append("equal objects with different hashes")
        if ref_shape(da) == ref_shape(db):
            ka, kb = ref_key(da), ref_key(db)
            if lt != ("T" if ka < kb else "F"):
                fails.append(f"a < b is {lt}, numeric components {ka} vs {kb}")
            if gt != ("T" if ka > kb else "F"):
                fails.append(f"a > b is {gt}, numeric components {ka} vs {kb}")
        return fails[:3]
    base, values = case.get("base"), case.get("values")
    if not base or not values:
        return []
    if ans.startswith("err"):
        return [f"well-formed range rejected with {ans}"]
    members = [ref_render(ref_vary(base, v)) for v in values]
    fields = ans.split("|")[1:]
    tag = "bare-part: " if case["style"] == "bare" else ""
    for op, got in zip(case["ops"], fields):
        if op == "len" and int(got) != len(members):
            fails.append(f"{tag}len {got} != {len(members)}")
        elif op in ("iter", "list"):
            exp = " ".join(wire.enc_str(m) for m in members)
            if got != exp:
                fails.append(f"{tag}{op} view is {[wire.dec_str(x) for x in got.split(' ')][:12]} expected {members[:12]}")
        elif op == "set":
            if got != wire.enc_strs(sorted(members)):
                fails.append(f"{tag}as_set is {wire.dec_strs(got)[:12]} expected {sorted(members)[:12]}")
        elif op == "dicts":
            exp = " ".join(ref_dict(ref_vary(base, v)) for v in values)
            if got != exp:
                fails.append(f"{tag}member components differ: {got[:120]} expected {exp[:120]}")
    return fails[:3]
