"""C03 — family relations form a consistent forest."""
import wire
from props import treelib as T

ID = "C03"
LEAN_MODULES = ["Ccp.Props.C03"]
# bound of the escalated quick run (source fingerprint changed -> thorough generator): keeps that run near two minutes
ESCALATE_MAX_CASES = 120000
RULE = ("C01's generator biased to banner/macro bodies (indented, blank and deeper-indented body lines, delimiter lines that are "
        "themselves indented, nested starts, unterminated banners/macros), the vendor fixtures, x syntax x ignore_blank_lines x "
        "comment delimiters; every line's stored parent, stored child list and the seven derived views are dumped. "
        "Stored-list stream (model Ccp.Model.TreeStored, channel treestored): the RAW attributes obj.parent / obj._children, "
        "translated to positions by object identity, at three observation points -- after CiscoConfParse(lines), after one "
        "ConfigList.bootstrap(lines), and after the indentation loop alone (the banner and macro walks replaced by no-ops on that "
        "ConfigList instance) -- on banner/macro blocks (also indented under preceding lines, banner starts inside macro bodies, "
        "nested banner starts), comments and blank lines that follow a deeper-indented line, ignore_blank_lines on/off, all "
        "delimiter sets, plus a hand-picked corpus (F02's witness, a line that changes parent twice, a list that needs the sort). "
        "Plus the two banner/macro link streams shared with C02 (random token sequences over ten banner-start "
        "forms, four macro-start forms, closing lines at indents 0..2, '@' variants, deeper body lines and dedenting tails; banner / "
        "macro blocks spliced INTO one another: nested and overlapping starts, macro inside banner and vice versa, unterminated "
        "stretches) and every sequence of length <= 3 (quick) / <= 4 (thorough) containing a start over the 11 link symbols; "
        "The oracle also requires, on fresh "
        "parses, that every line owned by a banner / macro start (Spec/BannerLinks) is a direct child of exactly that start. "
        "Coverage streams (harness/covreport.py, notes/coverage/C03.json): 'viewsx' -- link-token, nested-block, banner and plain "
        "configs whose dump also carries has_children and geneology_text (model Ccp.Model.TreeViews, channel treex), 40 % of them "
        "under one more parse option set (tuple config, debug 1/2/4/5 -- the 'if debug' statements of _banner_mark_regex and "
        "_add_child_to_parent --, auto_commit=False, auto_indent_width); the oracle rebuilds both views from the links and the texts; "
        "'junos' -- brace-syntax configs (C08's tree generator, all layouts, with comments): converted texts, links, stored child "
        "lists and all nine views of CiscoConfParse(lines, syntax='junos') against C08's junosParse + the shared view functions, "
        "judged by the same forest oracle; 10 % of the stored-list stream runs under debug / tuple options. "
        "non-trivial = the parse has a line with a parent; distinct by request.")
LEVEL_TEXT = ("Theorems (Lean 4, no size bounds; Ccp.Props.C03 over the model Ccp.Model.Tree of ConfigList.bootstrap for the indentation "
              "syntaxes and of the BaseCfgLine family views). parse_forest / bootstrap_forest / link_forest: for every text list and every "
              "option set (ios macros on/off, any comment delimiters, ignore_blank_lines on/off), banners and macros terminated or not, after "
              "all four passes of both bootstraps (fresh parse + the re-bootstrap of commit()) there is exactly one parent index per line and "
              "it is <= the line's own index (root iff equal, otherwise the parent comes strictly before). For every tree: children_spec, "
              "children_ascending, children_count, child_in_exactly_one_list, root_in_no_list, children_after: the (derived) child list of i "
              "holds exactly the non-root lines whose parent is i, strictly ascending, a non-root line occurs exactly once in its parent's "
              "list and in no other, a root in none, children come after their parent. For every tree satisfying Forest, with "
              "ancestors t j = the chain parent, grandparent, ... root (shown equal to the transitive closure IsAncestor, strictly "
              "descending, ending at a root): allParents_spec (= the chain reversed; ascending, duplicate free), allChildren_spec "
              "(j listed iff i is on j's chain; ascending, duplicate free; equals the line range filtered by that condition), allChildren_closure "
              "(j listed iff it is a child of i or listed for a child of i), allParents_allChildren_dual (converse relations), geneology_spec "
              "(= root-to-line path), lineage_spec (= all_parents ++ [i] ++ all_children, ascending), familyEndpoint_spec (= the maximum of "
              "i :: all_children), siblings_spec (the parent's children of equal indent, ascending; for a root its own children of equal "
              "indent), self_mem_siblings, flags_spec (is_parent iff child list non-empty iff some other line names i as parent; is_child "
              "iff not a root). The loop bounds (fuel = number of lines) of the model's all_children / all_parents are proved sufficient. "
              "STORED child lists (model Ccp.Model.TreeStored: per line the parent AND the list the code keeps in BaseCfgLine._children; "
              "newLine / addChild / reparent mirror object creation, _add_child_to_parent (None parent, comment exception, "
              "'child.parent is child', append) and _reparent_child (filter the former parent's list unless the former parent is the child "
              "or the new parent; set parent; append unless member; sort by line number); the four passes run over that state): for every "
              "option set and every line list, stored_parents_eq (forgetting the stored lists gives exactly parse: same texts, parents, keep "
              "flags), stored_children_eq_derived (the stored list of every index equals the derived child list; the table of stored lists "
              "is the table of derived lists), stored_bootstrap_eq_derived (the same for one bootstrap and for passes 1-3), "
              "stored_children_ascending, stored_child_exactly_once (a line with a parent is in exactly its parent's stored list, once, and "
              "occurs once in all stored lists together), stored_root_in_no_list, reparent_keeps_stored_eq_derived (one _reparent_child(p, c) "
              "with p < c on ANY state whose stored lists are the derived ones yields the derived lists of the re-parented tree). "
              "body_line_child_of_start (+ banner_body_line_child, macro_body_line_child): in the final tree of ANY line list under any "
              "option set, a line owned by a start line s -- the last 'macro name' line (ios) whose stretch reaches it, else the last banner "
              "start whose stretch reaches it; stretches include the closing line and run to the end when unterminated -- has s < i, parent "
              "s, occurs exactly once in s's child list and in no other: banner / macro families are flat however the body is indented. "
              "geneologyText_spec: for every forest geneology_text is the texts along the path root -> line (one per ancestor, root "
              "first, then the line's own text; never empty); hasChildren_spec: has_children = is_parent, true iff some other line names "
              "the line as its parent. Both apply to brace-syntax parses through C08's junos_forest. "
              "All theorems are at full strength; none is partial. The correspondence checks on every run that the implementation's raw "
              "parent / _children attributes equal the stored-list model's (full parse, one bootstrap, after the indentation loop) and that "
              "its seven views equal the parent-only model's.")
LEVEL_NOTE = ("Trusted: Lean kernel, standard axioms (propext, Classical.choice, Quot.sound), the harness. That the stored child lists equal the "
              "derived ones is proved for the stored-list model, which performs the code's list operations one by one; that this model (and the "
              "hand-written banner/macro scanners it shares with Ccp.Model.Tree) is the code is measured by the correspondence on every run on "
              "the raw attributes, as is the agreement of the seven views. Not proved here: the forest invariant after arbitrary committed edit sequences (commit_forest; the "
              "re-bootstrap that commit() performs is covered, the edit operations are C07's state machine) and for brace-syntax (junos) "
              "trees (C08's model; since the coverage streams the nine views of junos parses are compared here with C08's junosParse + "
              "the shared view functions and judged by the forest oracle). Anchored statements never executed by the quick run: 36 of "
              "166 before the coverage streams, 22 after (legacy keyword arguments of BaseCfgLine.__init__, the children setter / type "
              "guard, the search_safe refusal of all_parents -- a stale state, C07's subject --, 'obj.text is None' in the banner walk).")
ASSUMPTIONS = ["no lone surrogates", "that brace-syntax parses are forests is proved in C08 (junos_forest); edit histories are C07's"]
TRUSTED = ["hand-written scanners for the banner regexes"]
EXHAUSTIVE = {"quick": False, "thorough": False}


def mk(syntax, ign, delims, lines, origin="gen"):
    return T.mk_case("forest", syntax, False, ign, delims, lines, origin)


def from_corpus(c):
    return mk(c["syntax"], c.get("ignore_blank", False), c.get("delims"), c["lines"], "corpus")


def cases(rng, tier):
    T.selfcheck()
    n = {"quick": 1800, "thorough": 80000, "search": 3000}[tier]
    if tier != "search":
        for name, lines in T.fixture_configs():
            yield mk("ios", False, None, lines, "fixture:" + name)
    if tier != "search":
        from props import editlib as E
        for _ in range({"quick": 500, "thorough": 20000}[tier]):
            ign = rng.random() < 0.5
            lines = rng.choice(E.SEED_CONFIGS) if rng.random() < 0.5 else T.rand_config(rng, 8, True, None)
            ops = [o for o in E.rand_ops(rng, rng.choice([1, 2, 3, 5]), True) if o[0] not in ("lib", "lia", "commit", "probe")]
            # blanking a line in place / leaving an indented whitespace-only line at the end
            if rng.random() < 0.5:
                ops.append(rng.choice([["set", rng.randrange(64), rng.choice([" ", "  ", "   ", ""])],
                                       ["app", rng.choice([" ", "  ", "    "])],
                                       ["sub", rng.randrange(64), r"\S.*", ""]]))
            yield mk_hist(rng.choice(T.SYNTAXES), ign, lines, ops)
    if tier != "search":
        k = 0
        for lines in T.link_pattern_configs(3 if tier == "quick" else 4):
            yield mk(("ios", "nxos")[k % 2], False, None, lines, "link-pattern")
            k += 1
    for k in range({"quick": 1000, "thorough": 40000, "search": 2000}[tier]):
        delims = rng.choice(T.DELIM_SETS)
        lines = T.rand_link_config(rng, delims) if k % 2 == 0 else T.rand_nested_config(rng, delims)
        yield mk(rng.choice(["ios", "ios"] + T.SYNTAXES), rng.random() < 0.3, delims, lines,
                 "link-random" if k % 2 == 0 else "link-nested")
    for _ in range(n):
        delims = rng.choice(T.DELIM_SETS)
        lines = []
        for _ in range(rng.choice([1, 1, 2, 3])):
            r = rng.random()
            if r < 0.45:
                lines += T.rand_banner_block(rng, delims)
            elif r < 0.6:
                lines += T.rand_macro_block(rng)
            lines += T.rand_config(rng, 6, True, delims)
        yield mk(rng.choice(T.SYNTAXES), rng.random() < 0.3, delims, lines)
    # coverage streams (notes/coverage/C03.json): the two views the seven-view dump leaves out (geneology_text,
    # has_children; model Ccp.Model.TreeViews, channel treex), some of them under one more parse option set (tuple config,
    # debug levels: the `if debug` statements of the banner walk and of _add_child_to_parent), and brace-syntax parses
    for k in range({"quick": 700, "thorough": 30000, "search": 800}[tier]):
        delims = rng.choice(T.DELIM_SETS)
        r = rng.random()
        if r < 0.3:
            lines = T.rand_link_config(rng, delims)
        elif r < 0.55:
            lines = T.rand_nested_config(rng, delims)
        elif r < 0.8:
            lines = T.rand_banner_block(rng, delims) + T.rand_config(rng, 6, True, delims)
        else:
            lines = T.rand_config(rng, 10, False, delims)
        yield T.with_options(mk_x(rng.choice(["ios", "ios"] + T.SYNTAXES), rng.random() < 0.3, delims, lines), T.rand_options(rng, 0.4))
    from props import c08 as B
    for k in range({"quick": 300, "thorough": 10000, "search": 300}[tier]):
        yield mk_junos(B.tree_case(rng, "tree" if rng.random() < 0.8 else "cmtafter")["lines"])
    # the STORED links (raw `parent` / `_children` attributes) against the stored-list model Ccp.Model.TreeStored
    for c in STORED_CORPUS:
        for ign in (False, True):
            yield mk_stored("stored", "ios", ign, None, c)
            yield mk_stored("boot", "ios", ign, None, c)
        yield mk_stored("pass1", "ios", False, None, c)
    if tier != "search":
        for name, lines in T.fixture_configs():
            yield mk_stored("stored", "ios", False, None, lines, "fixture:" + name)
    for _ in range({"quick": 1600, "thorough": 60000, "search": 1500}[tier]):
        delims = rng.choice(T.DELIM_SETS)
        r = rng.random()
        op = "stored" if r < 0.6 else ("boot" if r < 0.85 else "pass1")
        yield T.with_options(mk_stored(op, rng.choice(["ios", "ios"] + T.SYNTAXES), op != "pass1" and rng.random() < 0.5, delims,
                                       rand_stored_lines(rng, delims)), T.rand_options(rng, 0.1))


# hand-picked inputs of the stored-list stream: F02's witness, a body line that is an indentation child of another
# body line, nested banner starts (a line changes its parent twice), a banner inside a macro, a comment after a
# deeper line, blank lines that the ignore_blank_lines rebuild drops
STORED_CORPUS = [
    ["banner motd ^", " hi", "", "x^"],
    ["banner motd ^", "", " hi", "^"],
    ["macro name m", "! c", "", "  y", " x", "@"],
    ["banner motd ^", " hi", "  deeper", " again", "^", "interface X", " shutdown"],
    ["banner motd ^", "a", "banner exec #", " b", "#", " c", "^", "d"],
    ["macro name m", " x", "  y", "banner login ^", " z", "^", "@", "after"],
    ["interface X", " a", "  b", " ! c", "  d", "", " e", "", "macro name q", "", " w", "@", " tail"],
    ["policy-map EDGE", " class VOICE", " ! legacy policer", "  police 8000"],
    ["interface X", "  a", " banner motd ^", "   b", "^", "   c"],
]


def comment_block(rng, delims):
    """a comment (or blank line) that follows a deeper-indented line, then a line that would be its child"""
    d = rng.choice(delims or ["!"])
    k = rng.choice([1, 1, 2, 3])
    out = [rng.choice(["interface X", "router bgp 1", " indented top"]), " " * k + "a"]
    if rng.random() < 0.7:
        out.append(" " * (k + rng.choice([1, 2])) + rng.choice(["b", d + " deep comment"]))
    out.append(" " * rng.choice([0, 1, k, k]) + rng.choice([d, d + " c", d + d, ""]))
    for _ in range(rng.choice([0, 1, 2])):
        out.append(" " * rng.choice([k, k + 1, k + 2, 1]) + rng.choice(["after", d + " x", "y"]))
    return out


def rand_stored_lines(rng, delims):
    lines = []
    for _ in range(rng.choice([1, 2, 2, 3])):
        r = rng.random()
        if r < 0.38:
            blk = T.rand_banner_block(rng, delims)
            if rng.random() < 0.3:      # the whole banner indented under what precedes it / body lines nested deeper
                blk = [blk[0]] + [rng.choice(["", " ", "  "]) + b for b in blk[1:]]
            lines += blk
        elif r < 0.56:
            blk = T.rand_macro_block(rng)
            if rng.random() < 0.3:
                blk = blk[:1] + T.rand_banner_block(rng, delims)[: rng.choice([1, 2, 3])] + blk[1:]
            lines += blk
        elif r < 0.8:
            lines += comment_block(rng, delims)
        lines += T.rand_config(rng, 6, True, delims)
    return lines


def mk_stored(op, syntax, ign, delims, lines, origin="gen"):
    """op: stored = CiscoConfParse(lines); boot = one ConfigList.bootstrap(lines); pass1 = the indentation loop only"""
    c = T.mk_case(op, syntax, False, ign, delims, lines, origin)
    c["stream"] = "stored"
    if c["req"] is not None:
        ds = T.cfg_delims(syntax, delims)
        c["req"] = wire.req("treestored", "1" if syntax == "ios" else "0", wire.enc_str("".join(ds)),
                            "1" if ign else "0", op, wire.enc_strs(lines))
    return c


def mk_x(syntax, ign, delims, lines, origin="viewsx"):
    """links + the seven views + has_children + geneology_text, against channel treex"""
    c = T.mk_case("forestx", syntax, False, ign, delims, lines, origin)
    c["stream"] = "viewsx"
    if c["req"] is not None:
        ds = T.cfg_delims(syntax, delims)
        c["req"] = wire.req("treex", "forestx", "1" if syntax == "ios" else "0", wire.enc_str("".join(ds)),
                            "1" if ign else "0", wire.enc_strs(lines))
    return c


def mk_junos(lines, origin="junos"):
    """a brace-syntax parse: converted texts, links and the extended views (model: C08's junosParse + the shared views)"""
    c = {"syntax": "junos", "factory": False, "ignore_blank": False, "delims": None, "lines": list(lines), "op": "junos",
         "_origin": origin, "stream": "junos"}
    c["req"] = wire.req("treex", "junos", wire.enc_strs(lines)) if all(wire.wire_safe(l) for l in lines) else None
    return c


def neighbours(case, rng):
    for _ in range(200):
        ls = list(case["lines"])
        if len(ls) > 1 and rng.random() < 0.6:
            del ls[rng.randrange(len(ls))]
        else:
            ls.insert(rng.randrange(len(ls) + 1), T.rand_plain_line(rng, case["delims"]))
        if case.get("stream") == "stored":
            yield T.with_options(mk_stored(case["op"], case["syntax"], case["ignore_blank"], case["delims"], ls), case.get("opts"))
        elif case.get("stream") == "viewsx":
            yield T.with_options(mk_x(case["syntax"], case["ignore_blank"], case["delims"], ls), case.get("opts"))
        elif case.get("stream") == "junos":
            yield mk_junos(ls)
        else:
            yield mk(case["syntax"], case["ignore_blank"], case["delims"], ls)


def mk_hist(syntax, ign, lines, ops):
    """a committed edit sequence: the forest is examined on the LIVE objects after the last commit; the model
    answers for a from-scratch parse of the resulting texts (C07 proves / checks that the two coincide)"""
    c = mk(syntax, ign, None, lines, "history")
    c["ops"] = ops
    c["req"] = None          # depends on the texts the history ends with
    return c


def dump_stored(objs):
    """the raw stored attributes, by object identity: `parent` and `_children` of every line as positions in the
    config's object list (an object that is not in the list is reported as line 999999)"""
    pos = {id(o): i for i, o in enumerate(objs)}
    at = lambda o: pos.get(id(o), 999999)  # noqa: E731
    return wire.enc_nats([at(o.parent) for o in objs]) + "|" + ";".join(wire.enc_nats([at(c) for c in o._children]) for o in objs)


def impl_stored(case):
    try:
        p = T.parse_impl_opts(case)
        cl = p.config_objs
        if case["op"] != "stored":
            if case["op"] == "pass1":
                # observe the state between the indentation loop and the banner / macro walks
                cl._banner_mark_regex = lambda regex: None
                cl._ciscoios_macro_mark_children = lambda idxs: None
            cl.bootstrap(list(case["lines"]))
    except BaseException as e:  # noqa: BLE001
        return "err:" + type(e).__name__
    return dump_stored(list(cl.data))


def dump_views_x(parse):
    out = []
    for o in parse.objs:
        out.append("/".join([
            T.lnums(o.all_children), T.lnums(o.all_parents), T.lnums(o.lineage), T.lnums(o.geneology),
            str(o.family_endpoint), T.lnums(o.siblings),
            ("1" if o.is_parent else "0") + ("1" if o.is_child else "0"),
            "1" if o.has_children else "0", wire.enc_strs(o.geneology_text),
        ]))
    return "|".join(out)


def impl_junos(case):
    ccp = T.quiet_ccp()
    try:
        p = ccp.CiscoConfParse(list(case["lines"]), syntax="junos")
    except Exception as e:  # noqa: BLE001 -- ParseException (pyparsing) or ValueError on unbalanced input
        return "err:" + type(e).__name__
    return wire.enc_strs([o.text for o in p.objs]) + "&" + T.dump_links(p) + "&" + dump_views_x(p)


def impl(case):
    if case.get("stream") == "stored":
        return impl_stored(case)
    if case.get("stream") == "viewsx":
        return T.run_impl_opts(case, lambda p: T.dump_links(p) + "&" + dump_views_x(p))
    if case.get("stream") == "junos":
        return impl_junos(case)

    def dump(p):
        return T.dump_links(p) + "&" + T.dump_views(p)
    if case.get("ops") is None:
        return T.run_impl(case, dump)
    from props import editlib as E
    import re as _re
    quiet = T.quiet_ccp  # noqa: F841
    p = T.parse_impl(dict(case, auto_commit=True))
    for op in case["ops"]:
        k = op[0]
        n = len(p.config_objs)
        try:
            if k == "ins":
                p.config_objs.insert(op[1], op[2])
            elif k == "app":
                p.config_objs.append(op[1])
            elif k == "pop":
                p.config_objs.pop(op[1])
            elif n == 0:
                continue
            elif k == "oia":
                p.config_objs[op[1] % n].insert_after(op[2])
            elif k == "oib":
                p.config_objs[op[1] % n].insert_before(op[2])
            elif k == "del":
                p.config_objs[op[1] % n].delete()
            elif k == "atf":
                p.config_objs[op[1] % n].append_to_family(op[2], indent=op[3], auto_indent=op[4])
            elif k == "rep":
                p.config_objs[op[1] % n].replace_text(op[2], op[3])
            elif k == "sub":
                p.config_objs[op[1] % n].re_sub(op[2], op[3])
            elif k == "set":
                p.config_objs[op[1] % n].text = op[2]
                p.commit()
        except (IndexError, NotImplementedError, ValueError, _re.error):
            pass
        except Exception as e:  # noqa: BLE001
            if type(e).__name__ not in ("InvalidParameters", "ConfigListItemDoesNotExist"):
                raise
    # no extra commit here: every operation above auto-commits, and a second commit would rebuild (and hide) stale links
    texts = list(p.get_text())
    ds = T.cfg_delims(case["syntax"], case["delims"])
    req = wire.req("tree", "1" if case["syntax"] == "ios" else "0", wire.enc_str("".join(ds)),
                   "1" if case["ignore_blank"] else "0", "forest", wire.enc_strs(texts))
    case["final_texts"] = texts
    return dump(p), req


def check_links(parents, children):
    """the stored links alone: every line's parent precedes it, a non-root line is stored exactly once and only in
    its parent's list, a root in none, every stored list is ascending and names lines of the config"""
    n = len(parents)
    if len(children) != n:
        return [f"{n} parents but {len(children)} child lists"]
    fails = []
    for i in range(n):
        bad = [j for j in children[i] if not (0 <= j < n)]
        if bad or not (0 <= parents[i] < n):
            return [f"line {i}: stored child list {children[i]} / parent {parents[i]} names an object that is not in the config (n={n})"]
    where = [[] for _ in range(n)]
    for q in range(n):
        for j in children[q]:
            where[j].append(q)
    for i in range(n):
        p = parents[i]
        if p > i:
            fails.append(f"line {i}: parent {p} comes after it")
        if p == i:
            if where[i]:
                fails.append(f"root line {i} is stored as a child of {where[i]}")
        elif where[i] != [p]:
            fails.append(f"line {i} (parent {p}) is stored {len(where[i])} times, in the child lists of {sorted(set(where[i]))}")
        if any(a >= b for a, b in zip(children[i], children[i][1:])):
            fails.append(f"stored children of {i} not strictly ascending: {children[i]}")
    return fails[:3]


def check_forest(parents, children, views, indents):
    """Independent check of the property on the implementation's own dump."""
    n = len(parents)
    fails = []
    for i in range(n):
        bad = [j for j in children[i] if not (0 <= j < n)]
        if bad or not (0 <= parents[i] < n):
            return [f"line {i}: child list {children[i]} / parent {parents[i]} names a line that is not in the config (n={n})"]
    for i in range(n):
        p = parents[i]
        if p > i:
            fails.append(f"line {i}: parent {p} comes after it")
        owners = [q for q in range(n) if i in children[q]]
        cnt = sum(children[q].count(i) for q in range(n))
        if p == i:
            if cnt != 0:
                fails.append(f"root line {i} is listed as a child of {owners}")
        elif owners != [p] or cnt != 1:
            fails.append(f"line {i} (parent {p}) is listed {cnt} times, in the child lists of {owners}")
        if children[i] != sorted(children[i]):
            fails.append(f"children of {i} not ascending: {children[i]}")
    if fails:
        return fails[:3]
    anc = []
    for i in range(n):
        chain, j = [], i
        while parents[j] != j:
            j = parents[j]
            chain.append(j)
        anc.append(sorted(chain))
    for i in range(n):
        desc = [j for j in range(n) if i in anc[j]]
        ac, ap, lin, gen, end, sib, flags = views[i]
        if ac != desc:
            fails.append(f"all_children of {i} = {ac}, descendants are {desc}")
        if ap != anc[i]:
            fails.append(f"all_parents of {i} = {ap}, ancestors are {anc[i]}")
        if lin != sorted(anc[i] + [i] + desc):
            fails.append(f"lineage of {i} = {lin}")
        if gen != anc[i] + [i]:
            fails.append(f"geneology of {i} = {gen}")
        if end != (desc[-1] if desc else i):
            fails.append(f"family_endpoint of {i} = {end}")
        par = parents[i]
        want_sib = [j for j in (children[par]) if indents[j] == indents[i]]
        if sib != want_sib:
            fails.append(f"siblings of {i} = {sib}, expected {want_sib}")
        if flags != ("1" if children[i] else "0") + ("1" if par != i else "0"):
            fails.append(f"flags of {i} = {flags}")
    return fails[:3]


def parse_dump(ans):
    links, views_w = ans.split("&")
    parents_w, children_w = links.split("|")
    nat = lambda w: [int(x) for x in w.split(",")] if w else []  # noqa: E731
    parents = nat(parents_w)
    children = [nat(w) for w in children_w.split(";")] if parents else []
    views = []
    if parents:
        for v in views_w.split("|"):
            f = v.split("/")
            views.append((nat(f[0]), nat(f[1]), nat(f[2]), nat(f[3]), int(f[4]), nat(f[5]), f[6]))
    return parents, children, views


def check_extra(parents, children, views_w, texts):
    """has_children and geneology_text of every line, from the links and the texts alone"""
    fails = []
    for i, v in enumerate(views_w.split("|") if parents else []):
        f = v.split("/")
        chain, j = [], i
        while parents[j] != j:
            j = parents[j]
            chain.append(j)
        want = [texts[j] for j in sorted(chain)] + [texts[i]]
        if f[7] != ("1" if children[i] else "0"):
            fails.append(f"has_children of {i} = {f[7]}, its child list is {children[i]}")
        if wire.dec_strs(f[8]) != want:
            fails.append(f"geneology_text of {i} = {wire.dec_strs(f[8])!r}, the texts from the root down to the line are {want!r}")
    return fails[:3]


def oracle(case, ans):
    if ans.startswith("err:"):
        return [f"parse raised {ans}"]
    if case.get("stream") in ("viewsx", "junos"):
        if case["stream"] == "junos":
            texts_w, ans = ans.split("&", 1)
            kept = wire.dec_strs(texts_w)
        else:
            kept = T.ref_kept(case["lines"], case["syntax"] == "ios", case["ignore_blank"])
        parents, children, views = parse_dump(ans)
        if len(kept) != len(parents):
            return [] if case["stream"] == "viewsx" else [f"{len(kept)} texts but {len(parents)} parents"]
        indents = [len(t) - len(t.lstrip()) for t in kept]
        fails = check_forest(parents, children, views, indents)
        if not fails and case["stream"] == "viewsx":
            fails = check_owners(kept, case["syntax"] == "ios", parents, children, indents)
        return (fails or check_extra(parents, children, ans.split("&")[1], kept))[:3]
    if case.get("stream") == "stored":
        parents_w, children_w = ans.split("|")
        nat = lambda w: [int(x) for x in w.split(",")] if w else []  # noqa: E731
        parents = nat(parents_w)
        return check_links(parents, [nat(w) for w in children_w.split(";")] if parents else [])
    parents, children, views = parse_dump(ans)
    src = case.get("final_texts") if case.get("ops") is not None else case["lines"]
    if src is None:
        return []
    kept = T.ref_kept(src, case["syntax"] == "ios", case["ignore_blank"]) if case.get("ops") is None else list(src)
    if len(kept) != len(parents):
        return []     # losslessness is C01's business
    indents = [len(t) - len(t.lstrip()) for t in kept]
    fails = check_forest(parents, children, views, indents)
    if case.get("ops") is None and not fails:
        fails = check_owners(kept, case["syntax"] == "ios", parents, children, indents)
    return fails[:3]


def check_owners(kept, ios, parents, children, indents):
    """banner / macro families are flat: a line owned by a start line is a direct child of exactly that start"""
    fails = []
    for i, (mo, bo) in enumerate(T.owners(kept, ios)):
        o = mo if mo is not None else bo
        if o is not None and (parents[i] != o or i not in children[o]):
            fails.append(f"line {i} lies in the stretch of start line {o} but its parent is {parents[i]} "
                         f"and the child list of {o} is {children[o]}")
        if o is None and parents[i] != i and indents[i] == 0:
            fails.append(f"unindented line {i} outside every banner / macro stretch has parent {parents[i]}")
    return fails


def nontrivial(case):
    return any(l[:1].isspace() or T.BANNER_RE.search(l) or l[:11] == "macro name " for l in case["lines"])


def describe(case):
    if case.get("ops") is not None:
        return {k: case[k] for k in ("syntax", "ignore_blank", "lines", "ops")}
    if len(case["lines"]) > 30:
        return {"syntax": case["syntax"], "n_lines": len(case["lines"]), "origin": case.get("_origin")}
    if case.get("stream") in ("stored", "viewsx", "junos"):
        return {k: case[k] for k in ("stream", "op", "syntax", "ignore_blank", "delims", "lines", "opts") if k in case}
    return {k: case[k] for k in ("syntax", "ignore_blank", "delims", "lines")}


def buckets(case, ans):
    out = ["syntax:" + case["syntax"], "ignore_blank:%d" % case["ignore_blank"], "len:%d" % min(30, len(case["lines"]))]
    if case.get("stream") == "stored":
        out.append("stored:" + case["op"])
        if ans and not ans.startswith("err:"):
            lists = ans.split("|")[1].split(";")
            out.append("stored-longest-list:%d" % min(6, max((len(w.split(",")) if w else 0) for w in lists)))
    if any(T.BANNER_RE.search(l) for l in case["lines"]):
        out.append("has:banner")
    if any(l[:11] == "macro name " for l in case["lines"]):
        out.append("has:macro")
    out.append("origin:" + case.get("_origin", "gen").split(":")[0])
    if case.get("opts"):
        out += T.opt_buckets(case)
    if case.get("stream") == "junos":
        return out + ["answer:" + (ans if ans.startswith("err:") else "ok")]
    if case.get("ops") is None and len(case["lines"]) <= 40 and ("has:banner" in out or "has:macro" in out):
        kept = T.ref_kept(case["lines"], case["syntax"] == "ios", case["ignore_blank"])
        out += ["feat:" + f for f in sorted(T.link_features(kept, case["syntax"] == "ios", T.cfg_delims(case["syntax"], case["delims"])))]
    return out


# ================================================================== two live instances (stream `pair`, see props/pairlib.py)
# Appended as wrappers around the functions above, so that the single-instance streams and their seeds stay as they were.
# A pair case: two configs from one template, BOTH parsed first; then the family views (links + seven views, the
# extended views, the raw stored attributes) of A, then of B, then of A again (...).  Every dump is judged by the forest
# oracle above on the instance it was taken from and compared with the model's answer for that instance alone; an instance
# must show the same views before and after the other one was looked at.
from props import pairlib as PL  # noqa: E402

PAIR_OPS = ["forest", "forest", "forestx", "forestx", "stored"]


def pair_lines(rng, delims):
    r = rng.random()
    if r < 0.45:
        from props import c04 as S
        return S.rand_tree_lines(rng, delims)
    if r < 0.7:
        return rand_stored_lines(rng, delims)
    if r < 0.85:
        return T.rand_nested_config(rng, delims)
    return T.rand_config(rng, 10, True, delims)


def mk_pair(cfgs, plan, ops, muts=(), origin="pair"):
    """cfgs[i] = dict(syntax, ignore_blank, delims, lines[, opts]); ops[k] = what is dumped at observation k"""
    subs = []
    for i, op in zip(plan, ops):
        c = cfgs[i]
        if op == "forest":
            s = mk(c["syntax"], c["ignore_blank"], c["delims"], c["lines"], origin)
        elif op == "forestx":
            s = mk_x(c["syntax"], c["ignore_blank"], c["delims"], c["lines"], origin)
        else:
            s = mk_stored("stored", c["syntax"], c["ignore_blank"], c["delims"], c["lines"], origin)
        s["_same"] = op
        subs.append(s)
    case = {"pair": True, "cfgs": cfgs, "plan": list(plan), "subs": subs, "ops_seen": list(ops), "mutations": list(muts),
            "_origin": origin, "lines": cfgs[0]["lines"], "syntax": cfgs[0]["syntax"], "ignore_blank": cfgs[0]["ignore_blank"],
            "delims": cfgs[0]["delims"]}
    case["req"] = PL.wrap_req([s["req"] for s in subs])
    return case


def rand_pair(rng):
    delims = rng.choice(T.DELIM_SETS)
    a = {"syntax": rng.choice(["ios", "ios"] + T.SYNTAXES), "ignore_blank": rng.random() < 0.25, "delims": delims,
         "lines": pair_lines(rng, delims), "opts": T.rand_options(rng, 0.15)}
    r = rng.random()
    if r < 0.08:
        lines, muts = list(a["lines"]), ["identical"]
    elif r < 0.14:
        lines, muts = pair_lines(rng, delims), ["unrelated"]
    else:
        lines, muts = PL.variant(rng, a["lines"], ["shutdown", "a", "b", "^", "@", "! c", "banner motd ^"])
    syntax, ign, ds = PL.option_variant(rng, a["syntax"], a["ignore_blank"], delims, T.SYNTAXES, T.DELIM_SETS)
    b = {"syntax": syntax, "ignore_blank": ign, "delims": ds, "lines": lines, "opts": T.rand_options(rng, 0.15)}
    plan = PL.rand_plan(rng)
    op = rng.choice(PAIR_OPS)
    ops = [op if rng.random() < 0.8 else rng.choice(PAIR_OPS) for _ in plan]
    return mk_pair([a, b], plan, ops, muts)


def pair_cases(rng, tier):
    for _ in range({"quick": 600, "thorough": 20000, "search": 300}[tier]):
        yield rand_pair(rng)


def impl_pair(case):
    parses = []
    for c in case["cfgs"]:
        base = T.with_options(T.mk_case("forest", c["syntax"], False, c["ignore_blank"], c["delims"], c["lines"]), c.get("opts"))
        try:
            parses.append(T.parse_impl_opts(base))
        except BaseException as e:  # noqa: BLE001
            if type(e).__name__ == "CaseTimeout":
                raise
            parses.append("err:" + type(e).__name__)
    tags = PL.tags_for([s["req"] for s in case["subs"]])
    parts = []
    for k, sub in enumerate(case["subs"]):
        p = parses[case["plan"][k]]
        if isinstance(p, str):
            ans = p
        elif sub.get("stream") == "stored":
            ans = dump_stored(list(p.config_objs.data))
        elif sub.get("stream") == "viewsx":
            ans = T.dump_links(p) + "&" + dump_views_x(p)
        else:
            ans = T.dump_links(p) + "&" + T.dump_views(p)
        parts.append((tags[k], ans))
    return PL.join_parts(parts)


def pair_neighbours(case, rng):
    for _ in range(120):
        a = case["cfgs"][0]
        lines, muts = PL.variant(rng, a["lines"], ["shutdown", "a", "b", "! c"])
        yield mk_pair([a, dict(case["cfgs"][1], lines=lines)], case["plan"], case["ops_seen"], muts)


def _pair_describe(case):
    keys = ("syntax", "ignore_blank", "delims", "lines", "opts")
    return {"two_live_instances": "both configs are parsed first, then the observations run in this order",
            "A": {k: case["cfgs"][0][k] for k in keys if case["cfgs"][0].get(k) not in ({}, None) or k == "delims"},
            "B": {k: case["cfgs"][1][k] for k in keys if case["cfgs"][1].get(k) not in ({}, None) or k == "delims"},
            "B_differs_from_A_by": case.get("mutations"),
            "observations": ["%s of %s" % (op, "AB"[i]) for i, op in zip(case["plan"], case["ops_seen"])]}


_single = {"cases": cases, "impl": impl, "oracle": oracle, "neighbours": neighbours, "nontrivial": nontrivial,
           "describe": describe, "buckets": buckets}


def cases(rng, tier):  # noqa: F811
    yield from _single["cases"](rng, tier)
    if PL.enabled():
        yield from pair_cases(rng, tier)


def impl(case):  # noqa: F811
    return impl_pair(case) if case.get("pair") else _single["impl"](case)


def oracle(case, ans):  # noqa: F811
    return PL.oracle(case, ans, _single["oracle"]) if case.get("pair") else _single["oracle"](case, ans)


def compare(case, impl_ans, model_ans):
    return PL.compare(impl_ans, model_ans) if case.get("pair") else impl_ans == model_ans


def neighbours(case, rng):  # noqa: F811
    return pair_neighbours(case, rng) if case.get("pair") else _single["neighbours"](case, rng)


def nontrivial(case):  # noqa: F811
    if case.get("pair"):
        return PL.shared_parents(case["cfgs"][0]["lines"], case["cfgs"][1]["lines"]) > 0
    return _single["nontrivial"](case)


def describe(case):  # noqa: F811
    return _pair_describe(case) if case.get("pair") else _single["describe"](case)


def buckets(case, ans):  # noqa: F811
    if case.get("pair"):
        return PL.buckets(case) + ["pair:dump:" + op for op in sorted(set(case["ops_seen"]))]
    return _single["buckets"](case, ans)


RULE += (" PAIR STREAM (two LIVE instances; props/pairlib.py, channel `pair`): 600 (quick) cases hold two configs built from ONE template "
         "(C04's tree generator, the stored-list generator, nested banner / macro blocks): B = A with 1-3 of {a child's text replaced, a child "
         "re-indented one level deeper / shallower, turned into a comment, blanked, two children swapped, a child inserted / deleted / moved "
         "under another parent, a run of siblings pushed one level down} (8 % identical, 6 % unrelated), so that parent lines coincide in "
         "(line number, text) -- line objects hash and compare by that pair -- while the lines below them differ; same or different syntax / "
         "ignore_blank_lines / comment delimiters / parse options. BOTH are parsed first, then the links + seven views, the extended views "
         "or the raw stored attributes are dumped in the orders ABA, ABAB, BAB, ABBA, AABA; every dump is judged by the forest oracle on the "
         "instance it was taken from, compared with the model's answer for THAT instance alone, and an instance must show the same dump "
         "before and after the other one was looked at. VERIF_NO_PAIR=1 leaves the stream out.")
LEVEL_NOTE += (" Two live instances: the model is a function of one config (channel `pair` only carries ordinary requests; "
               "Ccp.Drv.Pair.answers_get: the k-th answer depends on the k-th sub-request alone), so 'what an instance shows does not depend on "
               "other instances being alive' holds for the model by construction and is MEASURED for the code by the pair stream (hand "
               "mutations: a module-level table of descendants keyed by line number, ancestor chains kept on the class, an lru_cache on "
               "family_endpoint -- each dropped at every bootstrap -- are reported by the pair stream and by no single-instance stream).")
