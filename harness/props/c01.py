"""C01 — parsing an indentation-style config is total and lossless."""
import wire
from props import treelib as T

ID = "C01"
LEAN_MODULES = ["Ccp.Props.C01"]
RULE = ("configs: random line lists (length 0..18) mixing commands, comments with '!'/'#', empty and whitespace-only "
        "lines (blank, tab, U+00A0, U+2003), banner blocks (all six keywords, 'set' prefixes, delimiters ^ # ^C $ ~ @ ! €, "
        "one-line, unterminated, glued/doubled-blank starts, nested starts, indented/blank body lines), "
        "about a third of the configs with trailing white space on some lines (blank, tab, a stray CR of a CRLF source, NBSP, FF), "
        "'macro name' blocks terminated or not, regex metacharacters, braces, Latin-1 letters; plus the vendor fixture configs "
        "of tests/fixtures/configs; x syntax in ios/nxos/iosxr/asa x factory x ignore_blank_lines x comment delimiters "
        "(default, ['#'], ['!','#'], []). factory+ignore_blank_lines is refused by the constructor by design and is not generated. "
        "Word characters (\\w) are generated only below U+0100. non-trivial = has an indented, blank or banner/macro line; distinct by request.")
LEVEL_TEXT = ("Theorems (Lean 4, all line lists, every model configuration = ios / non-ios syntax x delimiter set x ignore_blank_lines): "
              "parse_texts: without ignore_blank_lines the model of ConfigList.bootstrap + commit returns exactly the input texts in order; "
              "parse_sizes: the result has one parent and one keep flag per text line (lines are numbered by position, so line i is number i); "
              "parse_commit_idempotent: the second bootstrap done by commit() reproduces the first; "
              "parse_texts_ignore_blank: the result texts are a sub-list of the input, their non-blank lines are exactly the non-blank lines "
              "of the input, and with ignore_blank_lines the result is a fixed point of passes 1-3 + blank filter; parse_drops_only_blank; "
              "parse_texts_eq_keepSpec: with ignore_blank_lines the result texts are exactly the input lines at the positions j with keepSpec j = "
              "'non-blank, or within the stretch protected by a banner start (up to the first following line containing the delimiter) or an "
              "ios macro start (up to and including the first @ line) at some position <= j' -- a specification written without the passes "
              "(Spec/BlankKeep.lean; inBody_spec states its reading); parse_single_round: the restart loop never needs a second filtering round. "
              "The model cannot raise (parse is a total function, no error result). "
              "Model tied to CiscoConfParse by differential runs on generated configs and the vendor fixtures.")
LEVEL_NOTE = ("Trusted: Lean kernel, standard axioms, the harness. Modelled not verified: the two banner "
              "regexes (hand-written scanners; the specification keepSpec uses the same per-line recognisers), \\w restricted to code points < 256, "
              "typed-model factory as 'may reject a line' (its acceptance is not modelled, so the design's parse_factory_lossless is covered by the "
              "correspondence only; a factory parse that returns is compared like any other).")
ASSUMPTIONS = ["no lone surrogates in line texts", "ignore_blank_lines together with factory is outside the constructor's domain"]
TRUSTED = ["hand-written scanners for the banner start / delimiter regexes"]
EXHAUSTIVE = {"quick": False, "thorough": False}


def mk(syntax, factory, ign, delims, lines, origin="gen"):
    return T.mk_case("lossless", syntax, factory, ign, delims, lines, origin)


def from_corpus(c):
    return mk(c["syntax"], c["factory"], c["ignore_blank"], c["delims"], c["lines"], "corpus")


def cases(rng, tier):
    T.selfcheck()
    n = {"quick": 2500, "thorough": 120000, "search": 3000}[tier]
    if tier != "search":
        for name, lines in T.fixture_configs():
            for syntax in (["ios", "nxos"] if tier == "quick" else T.SYNTAXES):
                yield mk(syntax, False, False, None, lines, "fixture:" + name)
                yield mk(syntax, False, True, None, lines, "fixture:" + name)
    for _ in range(n):
        syntax = rng.choice(T.SYNTAXES)
        delims = rng.choice(T.DELIM_SETS)
        factory = rng.random() < 0.3
        ign = (not factory) and rng.random() < 0.4
        # a third of the configs carry trailing white space / a stray CR on some lines (list input is not split at line ends)
        trail = 0.25 if rng.random() < 0.35 else 0.0
        yield mk(syntax, factory, ign, delims, T.rand_config(rng, 12, True, delims, trail))


def neighbours(case, rng):
    for _ in range(200):
        ls = list(case["lines"])
        if ls and rng.random() < 0.6:
            del ls[rng.randrange(len(ls))]
        else:
            ls.insert(rng.randrange(len(ls) + 1), T.rand_plain_line(rng, case["delims"]))
        yield mk(case["syntax"], case["factory"], case["ignore_blank"], case["delims"], ls)


def impl(case):
    def dump(p):
        objs = list(p.objs)
        return wire.enc_strs([o.text for o in objs]) + "|" + T.lnums(objs)
    return T.run_impl(case, dump)


def compare(case, impl_ans, model_ans):
    if case["factory"] and impl_ans.startswith("err:"):
        return True          # the typed models may reject a line; their acceptance is not modelled
    return impl_ans == model_ans


def oracle(case, ans):
    if ans.startswith("err:"):
        if case["factory"]:
            return []
        return [f"parse raised {ans}"]
    texts_w, nums = ans.split("|")
    texts = wire.dec_strs(texts_w)
    want = T.ref_kept(case["lines"], case["syntax"] == "ios", case["ignore_blank"])
    fails = []
    if texts != want:
        fails.append(f"texts differ from the expected {len(want)} lines: got {texts[:6]!r}… expected {want[:6]!r}…")
    if nums != wire.enc_nats(range(len(texts))):
        fails.append(f"line numbers are {nums[:60]}")
    return fails


def nontrivial(case):
    return any(l[:1].isspace() or l.strip() == "" or "banner" in l or "macro" in l for l in case["lines"])


def describe(case):
    return {k: case[k] for k in ("syntax", "factory", "ignore_blank", "delims", "lines")} if len(case["lines"]) <= 30 else \
        {"syntax": case["syntax"], "factory": case["factory"], "ignore_blank": case["ignore_blank"], "delims": case["delims"],
         "n_lines": len(case["lines"]), "origin": case.get("_origin")}


def buckets(case, ans):
    out = ["syntax:" + case["syntax"], "factory:%d" % case["factory"], "ignore_blank:%d" % case["ignore_blank"],
           "delims:" + str(case["delims"]), "len:%d" % min(20, len(case["lines"]))]
    out.append("answer:" + (ans if ans.startswith("err:") else "ok"))
    if any(T.BANNER_RE.search(l) for l in case["lines"]):
        out.append("has:banner")
    if any(l[:11] == "macro name " for l in case["lines"]):
        out.append("has:macro")
    return out
