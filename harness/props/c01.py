"""C01 — parsing an indentation-style config is total and lossless."""
import wire
from props import treelib as T

ID = "C01"
LEAN_MODULES = ["Ccp.Props.C01"]
RULE = ("configs: random line lists (length 0..18) mixing commands, comments with '!'/'#', empty and whitespace-only "
        "lines (blank, tab, U+00A0, U+2003), banner blocks (all six keywords, 'set' prefixes, delimiters ^ # ^C $ ~ @ ! €, "
        "one-line, unterminated, glued/doubled-blank starts, nested starts, indented/blank body lines), "
        "about a third of the configs with trailing white space on some lines (blank, tab, a stray CR of a CRLF source, NBSP, FF), "
        "'macro name' blocks terminated or not, regex metacharacters, braces, Latin-1 letters; plus the vendor fixture configs "
        "of tests/fixtures/configs; x syntax in ios/nxos/iosxr/asa x factory x ignore_blank_lines x comment delimiters "
        "(default, ['#'], ['!','#'], []). factory+ignore_blank_lines is refused by the constructor by design and is not generated. "
        "Word characters (\\w) are generated only below U+0100. "
        "Coverage streams (harness/covreport.py, notes/coverage/C01.json): 'options' -- the same random configs, some with a list element "
        "holding a line end ('x\\n', 'x\\r\\n', '\\n' alone, 'a\\nb'), each parsed under one more parse option set: config given as a "
        "TUPLE, debug 1/2/4/5 (runs every 'if debug' statement of the anchored functions), auto_commit=False, auto_indent_width 0/3/8, and 30 % with a comment delimiter set beyond the four standard ones "
        "(a letter, a brace, the euro sign, a tab or blank, duplicates, banner delimiter characters); "
        "'factory-lines' -- configs over the lines the typed-model classes of config_line_factory claim for the syntax (ios routes / "
        "interfaces / line vty, asa access-list / name / object / object-group, nxos vpc, iosxr interfaces), well-formed ones, ones a model "
        "constructor rejects with ValueError ('ip route junk', 'access-list x', 'name x y': the parse raises, which C01 allows with factory "
        "on) and ones whose constructor error the factory swallows (the line falls back to the default class), 85 % with factory on, "
        "some indented / with trailing white space. get_text() is compared with the object texts on every parse. A factory parse of a "
        "tuple that raises is re-run as a list: if the list form parses, no line was rejected by a typed model and the refusal of the "
        "tuple is a violation (metamorphic control; this was finding FC01a -- every non-empty tuple was refused with factory=True --, "
        "repaired in /repo by 'fix: ConfigList.bootstrap() accepts a tuple of lines with factory=True'). "
        "non-trivial = has an indented, blank or banner/macro line; distinct by request.")
LEVEL_TEXT = ("Theorems (Lean 4, all line lists, every model configuration = ios / non-ios syntax x delimiter set x ignore_blank_lines): "
              "parse_texts: without ignore_blank_lines the model of ConfigList.bootstrap + commit returns exactly the input texts in order; "
              "parse_sizes: the result has one parent and one keep flag per text line (lines are numbered by position, so line i is number i); "
              "parse_commit_idempotent: the second bootstrap done by commit() reproduces the first; "
              "parse_texts_ignore_blank: the result texts are a sub-list of the input, their non-blank lines are exactly the non-blank lines "
              "of the input, and with ignore_blank_lines the result is a fixed point of passes 1-3 + blank filter; parse_drops_only_blank; "
              "parse_texts_eq_keepSpec: with ignore_blank_lines the result texts are exactly the input lines at the positions j with keepSpec j = "
              "'non-blank, or within the stretch protected by a banner start (up to the first following line containing the delimiter) or an "
              "ios macro start (up to and including the first @ line) at some position <= j' -- a specification written without the passes "
              "(Spec/BlankKeep.lean; inBody_spec states its reading); parse_single_round: the restart loop never needs a second filtering round. "
              "The model cannot raise (parse is a total function, no error result). "
              "Model tied to CiscoConfParse by differential runs on generated configs and the vendor fixtures.")
LEVEL_NOTE = ("Trusted: Lean kernel, standard axioms, the harness. Modelled not verified: the two banner "
              "regexes (hand-written scanners; the specification keepSpec uses the same per-line recognisers), \\w restricted to code points < 256, "
              "typed-model factory as 'may reject a line' (its acceptance is not modelled, so the design's parse_factory_lossless is covered by the "
              "correspondence only; a factory parse that returns is compared like any other). The parse options debug / auto_commit / "
              "auto_indent_width and the sequence type of the config are not inputs of the model: the correspondence shows that they do not "
              "change the answer (tuple + factory included since FC01a is repaired; the oracle's list-form control turns a refusal of the "
              "container type into a violation). Anchored statements never executed by the quick run: 89 of 286 before the coverage streams, 70 after; the "
              "rest is argument validation that CiscoConfParse.__init__ makes unreachable, direct-construction API and dead code "
              "(notes/design_notes.json, C01).")
ASSUMPTIONS = ["no lone surrogates in line texts", "ignore_blank_lines together with factory is outside the constructor's domain"]
TRUSTED = ["hand-written scanners for the banner start / delimiter regexes"]
EXHAUSTIVE = {"quick": False, "thorough": False}


def mk(syntax, factory, ign, delims, lines, origin="gen"):
    return T.mk_case("lossless", syntax, factory, ign, delims, lines, origin)


def from_corpus(c):
    return mk(c["syntax"], c["factory"], c["ignore_blank"], c["delims"], c["lines"], "corpus")


def cases(rng, tier):
    T.selfcheck()
    n = {"quick": 2500, "thorough": 120000, "search": 3000}[tier]
    if tier != "search":
        for name, lines in T.fixture_configs():
            for syntax in (["ios", "nxos"] if tier == "quick" else T.SYNTAXES):
                yield mk(syntax, False, False, None, lines, "fixture:" + name)
                yield mk(syntax, False, True, None, lines, "fixture:" + name)
    for _ in range(n):
        syntax = rng.choice(T.SYNTAXES)
        delims = rng.choice(T.DELIM_SETS)
        factory = rng.random() < 0.3
        ign = (not factory) and rng.random() < 0.4
        # a third of the configs carry trailing white space / a stray CR on some lines (list input is not split at line ends)
        trail = 0.25 if rng.random() < 0.35 else 0.0
        yield mk(syntax, factory, ign, delims, T.rand_config(rng, 12, True, delims, trail))
    # coverage streams (notes/coverage/C01.json): the remaining parse options, the other accepted sequence type, list
    # elements holding a line end, and lines the typed-model factory classes claim (accepted, rejected, swallowed)
    for _ in range({"quick": 700, "thorough": 20000, "search": 800}[tier]):
        syntax = rng.choice(T.SYNTAXES)
        delims = rng.choice(T.DELIM_SETS) if rng.random() < 0.7 else rng.choice(T.EXOTIC_DELIM_SETS)
        factory = rng.random() < 0.3
        ign = (not factory) and rng.random() < 0.4
        lines = T.rand_config(rng, 10, True, delims, 0.25 if rng.random() < 0.3 else 0.0)
        if lines and rng.random() < 0.3:
            k = rng.randrange(len(lines))
            lines[k] = rng.choice([lines[k] + "\n", lines[k] + "\r\n", "\n", " \n", lines[k] + "\nsecond", "\n" + lines[k]])
        yield T.with_options(mk(syntax, factory, ign, delims, lines, "options"), T.rand_options(rng, 1.0))
    for _ in range({"quick": 500, "thorough": 15000, "search": 600}[tier]):
        syntax = rng.choice(T.SYNTAXES)
        delims = rng.choice(T.DELIM_SETS)
        factory = rng.random() < 0.85
        yield T.with_options(mk(syntax, factory, False, delims, T.rand_factory_config(rng, syntax, delims), "factory-lines"),
                             T.rand_options(rng, 0.2))


def neighbours(case, rng):
    for _ in range(200):
        ls = list(case["lines"])
        if ls and rng.random() < 0.6:
            del ls[rng.randrange(len(ls))]
        else:
            ls.insert(rng.randrange(len(ls) + 1), T.rand_plain_line(rng, case["delims"]))
        yield T.with_options(mk(case["syntax"], case["factory"], case["ignore_blank"], case["delims"], ls), case.get("opts"))


def impl(case):
    def dump(p):
        objs = list(p.objs)
        out = wire.enc_strs([o.text for o in objs]) + "|" + T.lnums(objs)
        got = p.get_text()
        if got != [o.text for o in objs]:
            out += "|get_text:" + wire.enc_strs(got)      # a third field only when get_text() is not the object texts
        return out
    ans = T.run_impl_opts(case, dump)
    if ans.startswith("err:") and case["factory"] and (case.get("opts") or {}).get("form") == "tuple":
        # a factory parse may reject a LINE the typed models cannot interpret; the container type is not a line.
        # Metamorphic control: the same lines as a list
        if not T.run_impl_opts(dict(case, opts=dict(case["opts"], form="list")), dump).startswith("err:"):
            ans += ";list-form-parses"
    return ans


def compare(case, impl_ans, model_ans):
    if case["factory"] and impl_ans.startswith("err:"):
        return True          # the typed models may reject a line; their acceptance is not modelled
    return impl_ans == model_ans


def oracle(case, ans):
    if ans.startswith("err:"):
        if ans.endswith(";list-form-parses"):
            return [f"tuple-form-rejected: the factory parse of these lines given as a tuple raised {ans.split(';')[0]}, "
                    "the same lines given as a list parse (no line is rejected by a typed model)"]
        if case["factory"]:
            return []
        return [f"parse raised {ans}"]
    fails = []
    if ans.count("|") == 2:
        ans, extra = ans.rsplit("|", 1)
        fails.append(f"get_text() differs from the texts of the line objects: {extra[:80]}")
    texts_w, nums = ans.split("|")
    texts = wire.dec_strs(texts_w)
    want = T.ref_kept(case["lines"], case["syntax"] == "ios", case["ignore_blank"])
    if texts != want:
        fails.append(f"texts differ from the expected {len(want)} lines: got {texts[:6]!r}… expected {want[:6]!r}…")
    if nums != wire.enc_nats(range(len(texts))):
        fails.append(f"line numbers are {nums[:60]}")
    return fails


def nontrivial(case):
    return any(l[:1].isspace() or l.strip() == "" or "banner" in l or "macro" in l for l in case["lines"])


def describe(case):
    d = {k: case[k] for k in ("syntax", "factory", "ignore_blank", "delims", "lines")} if len(case["lines"]) <= 30 else \
        {"syntax": case["syntax"], "factory": case["factory"], "ignore_blank": case["ignore_blank"], "delims": case["delims"],
         "n_lines": len(case["lines"]), "origin": case.get("_origin")}
    if case.get("opts"):
        d["opts"] = case["opts"]
    return d


def buckets(case, ans):
    out = ["syntax:" + case["syntax"], "factory:%d" % case["factory"], "ignore_blank:%d" % case["ignore_blank"],
           "delims:" + str(case["delims"]), "len:%d" % min(20, len(case["lines"]))]
    out.append("answer:" + (ans if ans.startswith("err:") else "ok"))
    out += T.opt_buckets(case)
    out.append("origin:" + case.get("_origin", "gen").split(":")[0])
    if any(T.BANNER_RE.search(l) for l in case["lines"]):
        out.append("has:banner")
    if any(l[:11] == "macro name " for l in case["lines"]):
        out.append("has:macro")
    return out
