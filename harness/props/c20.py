"""C20 — ASA object-groups and port specs expand to exactly the denoted networks/ports."""
import ast
import ipaddress
import os

import wire
from props.common import quiet_ccp, REPO

ID = "C20"
LEAN_MODULES = ["Ccp.Props.C20", "Ccp.Props.RxC20"]
# bound of the escalated quick run (source fingerprint changed -> thorough generator): keeps that run near two minutes
ESCALATE_MAX_CASES = 15000
RULE = ("two streams. (1) configs: random ASA configs built from a structured description: an alias table of 'name A.B.C.D N' "
        "lines (redefinitions, optional trailing description), 1..9 'object-group network' blocks forming an acyclic "
        "reference graph of depth 0..4 (each group has a level; group-object members point to strictly lower levels, also "
        "forward in the text), members = host literal / host alias / undefined alias / network+mask / alias+mask / "
        "mask 255.255.255.255 / group-object / description, duplicate group names (a shadowed and a winning definition), "
        "'access-list' lines of several shapes interleaved, '!' and 'hostname' lines between blocks, per-group indent 1..3, "
        "1..3 blanks or a tab between tokens, trailing blanks; plus an invalid stream: undefined group reference, "
        "self reference, 2- and 3-cycles, unparseable member lines. (2) port specs: all six operators x "
        "{0,1,2,80,65534,65535,65536} x numeric and EVERY service name of ASA_TCP_PORTS/ASA_UDP_PORTS (read from the source "
        "with ast) x tcp/udp, all value pairs for 'range', random values, whitespace variants, plus a malformed stream "
        "(missing operands, unknown operators, signs, extra tokens, keyword overlaps such as 'xneq 80' or 'lt range 1 5', "
        "no-break space, other protocols/syntaxes). non-trivial = a config with at least one group-object member or alias "
        "member, or a port spec with an operator other than eq/bare. Not generated: blank/comment lines inside a group body, "
        "indented or upper-case group headers, 'object-group  network' with two blanks after 'object-group', non-ASCII "
        "digits and '_' in numbers (int() accepts them, the model's int() does not), names lines the ASAName factory rejects. "
        "FURTHER ENTRY POINTS (channel asax; 500 pairs + 300 configs in quick): l4pair = two L4Objects compared with == and != "
        "(spellings of the same port set such as 'lt 3' / 'range 1 2', 'neq 1' / 'gt 1', a named service and its number, the same "
        "spec under tcp and udp, a malformed second spec) and repr() of the first; l4guard = port_spec None / int / list and == against "
        "an int; tables = the three asa_* tables of a config parsed with syntax ios / nxos / iosxr (and asa); groups = a config (about "
        "a third with a block PERM that has the members of another block in another order, a seventh with an invalid reference or "
        "line) and a second config (the same, shifted by one line, the same headers with other members, unrelated): network_count "
        "of every group object, and the matrices of ==, !=, hash equality and hash_children equality of the first config's objects "
        "against the objects of both; pseq = 2..6 L4Object constructions carried out back to back inside ONE implementation call, each "
        "answer compared with the model and judged on its own: every service name whose meaning depends on the protocol (rtsp: 554 vs "
        "5004, all eight operator shapes; the 38 tcp-only and 22 udp-only names, read from the tables, three shapes each in quick and all "
        "eight in thorough), the same spec string under tcp then udp and the reverse (376 fixed sequences in quick), plus 250 random sequences mixing them with numeric specs, other names and an "
        "invalid spec in between (state carried from one construction to the next is observed whatever the worker scheduling). "
        "Anchored statements executed by the quick run: 148 of 152 (was 130); the 4 left are the "
        "second `elif \"neq \" in` branch of L4Object.__init__, which the first test shadows (notes/coverage/C20.json).")
LEVEL_TEXT = ("Theorems (Lean 4, all inputs): for every acyclic reference graph (any rank function) the model of network_strings "
              "returns exactly the flattening of the members in config order with aliases resolved and the flattening is unique; "
              "name/group tables answer with the last definition of a key and the access-list table with all defining lines in "
              "order, nothing else; each port operator over numeric operands yields exactly its subset of 1..65535 in strictly "
              "ascending order and every bound outside its range is rejected; every named service of the generated "
              "ASA_TCP_PORTS/ASA_UDP_PORTS tables lies in 1..65535 and resolves in every operator. Further entry points "
              "(Model/AsaX.lean): l4_eq_iff and l4_eq_denotes (two specifications within their bounds on one protocol give == objects "
              "exactly when they denote the same port set), l4_repr_unavailable (repr() raises AttributeError for every object: the code "
              "reads a CiscoRange attribute that does not exist - recorded as it is, proposed repair notes/proposed-fixes/C20-2.patch), "
              "table_access_iff (the asa_* tables are served under syntax asa only), group_objects_eq (== by line number and header text, "
              "reflexive, symmetric, != its negation, the group objects of one config pairwise different), count_and_hash_children "
              "(network_count = length of network_strings; equal hash_children iff equal network_strings, no hash collision assumed), "
              "pseq_history_free (in a sequence of constructions every answer is that of the construction alone). "
              "The model is tied to "
              "L4Object, ConfigList.asa_* and ASAObjGroupNetwork.network_strings by differential runs on every check.")
LEVEL_NOTE = ("Trusted: Lean kernel; axioms propext/Classical.choice/Quot.sound only; the correspondence harness; hand-written "
              "token matchers standing in for the five regular expressions of the source; model of int() restricted to ASCII. "
              "Proved about the model, measured against the code. 'lt 1' and 'gt 65535' (empty denotation) are rejected by the "
              "code; the theorems state that and the oracle accepts either an empty list or a rejection there.")
LEVEL_NOTE += (" " + "regexes_as_modelled (Ccp.RxC20): the five ASA regexes (_RE_NAMES, _RE_OBJNET, _RE_OBJACL of ConfigList as used by the three asa_* tables, the name regex of ASAObjGroupNetwork.__init__, _RE_NETOBJECT), _RE_NAMEOBJECT, and the keyword / separator tests of L4Object.__init__, network_strings and the two is_object_for are re-read from /repo's AST on every run and proved equal to the literals the token matchers of Model/Asa.lean were written for.")
LEVEL_NOTE += (" Scan sets as revised: regexes_as_modelled ties the regex-engine calls with the pattern in canonical form (canonical verbose form without the flag, group names and redundant escapes removed, per-value specialisation of a pattern passed to a same-file helper or built from a name that ranges over a constant collection, always-true searches left out), flags, re.sub replacements and the separator arguments of str.split/join/replace/strip; the literal tests (\"lit\" in x, == against string literals and their subscripts, startswith) are informational definitions Gen.rx...Info, no theorem is about them.")
EXHAUSTIVE = {"quick": False, "thorough": False}
ASSUMPTIONS = [
    "regexes _RE_NAMES, _RE_OBJNET, _RE_OBJACL, _RE_NETOBJECT and the group-name regex behave like the token matchers of Model/Asa.lean (\\s = str.isspace, \\d = ASCII digit)",
    "children of a group header = following lines indented deeper than the header, direct children = those not preceded in the block by a line indented less (no blank/comment lines inside)",
    "model int() = optional surrounding whitespace, optional sign, ASCII digits",
    "Python's recursion limit is never reached by an acyclic configuration (depth <= 4 generated); running out of fuel in the model stands for RecursionError",
]
TRUSTED = ["IPv4Obj conversion of .networks is compared with the stdlib ipaddress module by the oracle only (IPv4Obj itself is C11)",
           "ASAObjGroupService (port-object / service-object lines) is not part of this property; only L4Object is"]

OPS = ["eq", "bare", "range", "lt", "gt", "neq"]
BOUNDS = [1, 2, 80, 65534, 65535, 0, 65536]


# ------------------------------------------------------------------ service tables, read from the source (not imported)
_tables = None


def service_tables():
    global _tables
    if _tables is None:
        path = os.path.join(REPO, "ciscoconfparse2", "protocol_values.py")
        tree = ast.parse(open(path, encoding="utf-8").read())
        out = {}
        for node in ast.walk(tree):
            if isinstance(node, ast.Assign) and len(node.targets) == 1 and isinstance(node.targets[0], ast.Name):
                if node.targets[0].id in ("ASA_TCP_PORTS", "ASA_UDP_PORTS"):
                    try:
                        value = ast.literal_eval(node.value)
                    except ValueError:
                        # not a plain literal any more (dict(zip(...)), {**a, ...}): the translator's constant-expression
                        # evaluator reads it (still nothing imported)
                        import constexpr
                        import rxscan
                        value = constexpr.ceval(node.value, rxscan.Scope(tree))
                    out[node.targets[0].id] = {str(k): int(v) for k, v in value.items()}
        _tables = {"tcp": out["ASA_TCP_PORTS"], "udp": out["ASA_UDP_PORTS"]}
    return _tables


# ------------------------------------------------------------------ run encoding (lossless)
def enc_runs(seq):
    runs = []
    for x in seq:
        if runs and x == runs[-1][1] + 1:
            runs[-1][1] = x
        else:
            runs.append([x, x])
    return ",".join(str(a) if a == b else f"{a}-{b}" for a, b in runs)


# ------------------------------------------------------------------ port cases
def mk_port(proto, spec, syntax="asa", want=None, origin="gen", **extra):
    """want: None (no verdict), ("set", [sorted ports]) , "reject", ("empty",)"""
    c = {"kind": "port", "proto": proto, "syntax": syntax, "spec": spec, "want": want,
         "req": wire.req("asa", "port", wire.enc_str(proto), wire.enc_str(syntax), wire.enc_str(spec)), "_origin": origin}
    c.update(extra)
    return c


def denote(op, vals):
    """the property's reading of an operator over numeric operands: a verdict"""
    full = set(range(1, 65536))
    ok = all(1 <= v <= 65535 for v in vals)
    if not ok:
        return "reject"
    if op in ("eq", "bare"):
        s = {vals[0]}
    elif op == "neq":
        s = full - {vals[0]}
    elif op == "lt":
        s = {p for p in full if p < vals[0]}
    elif op == "gt":
        s = {p for p in full if p > vals[0]}
    elif op == "range":
        if vals[0] > vals[1]:
            return "reject"
        s = {p for p in full if vals[0] <= p <= vals[1]}
    if not s:
        return ("empty",)
    return ("set", enc_runs(sorted(s)))


def render_spec(rng, op, words, fancy):
    sp = (lambda: rng.choice([" ", " ", "  ", "   ", " \t", "\t "])) if fancy else (lambda: " ")
    if op == "bare":
        core = words[0]
    else:
        # the code tests `"<op> " in spec`: the keyword is followed by one ordinary blank, then any blanks
        core = op + " " + (rng.choice(["", "", " ", "\t"]) if fancy else "") + sp().join(words)
    if fancy:
        core = rng.choice(["", " ", "  ", "\t"]) + core + rng.choice(["", " ", "\n", " \t"])
    return core


def port_case(rng, proto, op, operands, fancy=False):
    """operands: ints or service names"""
    tbl = service_tables()[proto]
    vals = [tbl[o] if isinstance(o, str) else o for o in operands]
    spec = render_spec(rng, op, [str(o) for o in operands], fancy)
    return mk_port(proto, spec, want=denote(op, vals), op=op, operands=[str(o) for o in operands], vals=vals)


MALFORMED_SPECS = [
    "", " ", "eq", "eq ", "neq", "range", "range 5", "range  5", "lt", "gt", "foo 5", "eq foo", "eq 80 90", "range 1 2 3",
    "eq -1", "eq +80", "neq -5", "lt -1", "gt +7", "range -1 5", "range 5 -1", "range www", "range 90 www", "range www 90",
    "xneq 80", "eq80", "80 eq", "gt eq 5", "lt range 1 5", "range lt 5", "range gt 5 9", "neq eq 80", "eq neq 80", "lt gt 5",
    "eq\t80", "eq 80", "eq  80", " eq 80 ", "range\t1 5", "EQ 80", "eq WWW", "eq 0x50", "eq 80.0", "eq 1e3",
    "www 80", "80 www", "80 90", "eq 00080", "00080", "eq 99999999999999999999", "neq 0", "lt 1", "gt 65535", "gt 0", "lt 0",
    "lt 65536", "gt 65536", "range 0 0", "range 65536 65536", "range 7 7", "description eq 5", "eq  ", "eq\n80",
]


def port_cases(rng, tier):
    tbls = service_tables()
    for proto in ("tcp", "udp"):
        names = sorted(tbls[proto])
        for op in OPS:
            if op == "range":
                for a in BOUNDS:
                    for b in BOUNDS:
                        yield port_case(rng, proto, op, [a, b])
                for n in names:
                    other = rng.choice(BOUNDS + names)
                    yield port_case(rng, proto, op, [n, other])
                    yield port_case(rng, proto, op, [rng.choice(BOUNDS), n])
                    yield port_case(rng, proto, op, [n, n])
            else:
                for v in BOUNDS:
                    yield port_case(rng, proto, op, [v])
                for n in names:
                    yield port_case(rng, proto, op, [n])
    for spec in MALFORMED_SPECS:
        for proto in ("tcp", "udp"):
            yield mk_port(proto, spec, want="reject" if spec.strip() in ("", "foo 5", "eq foo", "eq", "lt", "gt", "neq", "range") else None,
                          malformed=True)
    for proto, syntax in [("ip", "asa"), ("icmp", "asa"), ("", "asa"), ("TCP", "asa"), ("tcp-udp", "asa"),
                          ("tcp", "ios"), ("tcp", ""), ("udp", "ASA")]:
        yield mk_port(proto, "eq 80", syntax=syntax, want="reject", malformed=True)
    n = {"quick": 400, "thorough": 6000, "search": 1500}[tier]
    for _ in range(n):
        proto = rng.choice(["tcp", "udp"])
        names = sorted(tbls[proto])
        op = rng.choice(OPS)

        def operand():
            r = rng.random()
            if r < 0.3:
                return rng.choice(names)
            if r < 0.6:
                return rng.choice(BOUNDS + [3, 1023, 1024, 65533])
            return rng.randint(0, 65600)
        operands = [operand(), operand()] if op == "range" else [operand()]
        if op == "range" and rng.random() < 0.6:
            vals = sorted(operands, key=lambda o: tbls[proto][o] if isinstance(o, str) else o)
            operands = vals
        yield port_case(rng, proto, op, operands, fancy=rng.random() < 0.5)
    for _ in range(n // 8):
        # mutate a good spec into a (probably) malformed one
        base = rng.choice(["eq 80", "neq www", "range 10 20", "lt 100", "gt 65000", "443"])
        s = list(base)
        for _ in range(rng.choice([1, 1, 2])):
            if s and rng.random() < 0.5:
                del s[rng.randrange(len(s))]
            else:
                s.insert(rng.randrange(len(s) + 1), rng.choice("eqnltgra 0159-+\t"))
        yield mk_port(rng.choice(["tcp", "udp"]), "".join(s), want=None, malformed=True)


# ------------------------------------------------------------------ config cases
ALIASES = ["web1", "db", "HOST_a", "dmz-gw", "host", "n1", "srv.example", "x"]
GROUPS = ["G0", "G1", "G2", "G3", "G4", "DMZ_nets", "grp-a", "G.1", "inside", "network", "host"]
MASKS = ["255.255.255.0", "255.255.0.0", "255.0.0.0", "255.255.255.252", "255.255.255.255", "0.0.0.0", "255.255.255.128"]
ACL_TAILS = [
    "extended permit ip any any", "extended deny ip any any log", "remark some text here", "extended permit tcp any any eq 80",
    "extended permit tcp host 1.2.3.4 any eq www", "extended permit ip object-group {g} any", "standard permit 10.0.0.0 255.0.0.0",
    "extended permit udp any any range 10 20", "extended deny tcp any object-group {g} neq 22",
]


def rand_ip(rng):
    return rng.choice(["10.0.0.1", "10.1.2.3", "192.168.1.0", "172.16.0.0", "1.1.1.1", "8.8.8.8"]) if rng.random() < 0.5 else \
        ".".join(str(rng.randint(0, 255)) for _ in range(4))


def gen_desc(rng, invalid=None):
    """structured description of a config; `invalid` in {None,'missing','self','cycle2','cycle3','badline'}"""
    n_alias = rng.choice([0, 1, 2, 3, 5])
    alias_pool = rng.sample(ALIASES, min(len(ALIASES), n_alias + 1))
    names = []
    for _ in range(n_alias + rng.choice([0, 0, 1, 2])):
        names.append({"addr": rand_ip(rng), "name": rng.choice(alias_pool[:max(1, n_alias)]),
                      "tail": rng.choice(["", "", " description core switch", "  "])})
    n_groups = rng.choice([1, 2, 3, 4, 5, 7, 9])
    gnames = rng.sample(GROUPS, min(len(GROUPS), n_groups))
    depth = rng.choice([0, 1, 2, 3, 4])
    level = {g: (rng.randint(0, depth) if i else depth) for i, g in enumerate(gnames)}
    # make sure every level below `depth` is inhabited when there are enough groups
    for lv, g in zip(range(depth - 1, -1, -1), gnames[1:]):
        level[g] = lv
    defs = list(gnames)
    for g in list(gnames):
        if rng.random() < 0.25:
            defs.append(g)            # a second definition of the same name
    rng.shuffle(defs)

    def members_for(g):
        ms = []
        lower = [h for h in gnames if level[h] < level[g]]
        just_below = [h for h in lower if level[h] == level[g] - 1]
        for _ in range(rng.choice([0, 1, 2, 3, 4, 6])):
            r = rng.random()
            if r < 0.2:
                ms.append(["host", rand_ip(rng)])
            elif r < 0.35:
                ms.append(["host", rng.choice(ALIASES)])       # defined or undefined alias
            elif r < 0.5:
                ms.append(["net", rand_ip(rng), rng.choice(MASKS)])
            elif r < 0.6:
                # ('network-object host M' would read as a host member, so the alias called "host" is not used here)
                ms.append(["net", rng.choice([a for a in ALIASES if a != "host"]), rng.choice(MASKS)])
            elif r < 0.9 and lower:
                ms.append(["grp", rng.choice(lower)])
            elif r < 0.95:
                ms.append(["descr", rng.choice(["description servers", "description x network-object host 1.1.1.1", "description  "])])
            else:
                ms.append(["host", rand_ip(rng)])
        if just_below and not any(m[0] == "grp" and m[1] in just_below for m in ms):
            ms.insert(rng.randrange(len(ms) + 1), ["grp", rng.choice(just_below)])
        return ms
    blocks = [{"name": g, "indent": rng.choice([1, 1, 1, 2, 3]), "members": members_for(g)} for g in defs]
    if invalid == "missing":
        b = rng.choice(blocks)
        b["members"].insert(rng.randrange(len(b["members"]) + 1), ["grp", "NOSUCH"])
    elif invalid == "self":
        b = rng.choice(blocks)
        b["members"].insert(rng.randrange(len(b["members"]) + 1), ["grp", b["name"]])
    elif invalid in ("cycle2", "cycle3"):
        k = 2 if invalid == "cycle2" else 3
        cyc = [f"CY{i}" for i in range(k)]
        for i, c in enumerate(cyc):
            blocks.insert(rng.randrange(len(blocks) + 1),
                          {"name": c, "indent": 1, "members": [["host", rand_ip(rng)], ["grp", cyc[(i + 1) % k]]]})
        b = rng.choice(blocks)
        if rng.random() < 0.5:
            b["members"].append(["grp", cyc[0]])
    elif invalid == "badline":
        b = rng.choice(blocks)
        b["members"].insert(rng.randrange(len(b["members"]) + 1),
                            ["raw", rng.choice(["network-object object foo", "network-object host", "foo bar", "network-object 1.1.1.0 24",
                                                "group-object", "network-object 1.1.1.0 255.255.255", "port-object eq 80",
                                                "xdescription y", "network-object 1.1.1.0 255.255.255.255.0",
                                                "network-object host 1.1.1.1 trailing", "network-object hostname 255.0.0.0"])])
    acls = []
    for _ in range(rng.choice([0, 0, 1, 2, 4])):
        acls.append({"name": rng.choice(["OUTSIDE_IN", "A", "B", "101", "inside"]),
                     "tail": rng.choice(ACL_TAILS).format(g=rng.choice(gnames))})
    return {"names": names, "blocks": blocks, "acls": acls, "fancy": rng.random() < 0.4}


def render(desc, rng):
    """description -> config lines; records the line number of every block / acl line in the description"""
    fancy = desc["fancy"]
    sp = (lambda: rng.choice([" ", " ", "  ", "   ", "\t"])) if fancy else (lambda: " ")
    tr = (lambda: rng.choice(["", "", " ", "  "])) if fancy else (lambda: "")
    items = [("name", n) for n in desc["names"]] + [("block", b) for b in desc["blocks"]] + [("acl", a) for a in desc["acls"]]
    if rng.random() < 0.6:
        # the usual order: names, groups, access-lists
        pass
    else:
        rng.shuffle(items)
    lines = []
    for kind, it in items:
        if rng.random() < 0.25:
            lines.append(rng.choice(["!", "hostname fw1", "! a comment"]))
        if kind == "name":
            it["linenum"] = len(lines)
            # the ASAName factory regex wants exactly one blank between address and name
            lines.append(f"name{sp()}{it['addr']}{rng.choice([' ', ' ', chr(9)]) if fancy else ' '}{it['name']}{it['tail']}")
        elif kind == "acl":
            it["linenum"] = len(lines)
            lines.append(f"access-list{sp()}{it['name']} {it['tail']}{tr()}")
        else:
            it["linenum"] = len(lines)
            # the factory wants the literal "object-group network " (one ordinary blank after each keyword)
            lines.append(f"object-group network {rng.choice(['', '', ' ', chr(9)]) if fancy else ''}{it['name']}{tr()}")
            ind = " " * it["indent"]
            for m in it["members"]:
                if m[0] == "host":
                    lines.append(f"{ind}network-object{sp()}host{sp()}{m[1]}{tr()}")
                elif m[0] == "net":
                    lines.append(f"{ind}network-object{sp()}{m[1]}{sp()}{m[2]}{tr()}")
                elif m[0] == "grp":
                    lines.append(f"{ind}group-object{sp()}{m[1]}{tr()}")
                elif m[0] == "descr":
                    lines.append(f"{ind}{m[1]}")
                else:
                    lines.append(f"{ind}{m[1]}")
    return lines


def mk_cfg(desc, lines, invalid=None, origin="gen"):
    return {"kind": "cfg", "desc": desc, "lines": lines, "invalid": invalid,
            "req": wire.req("asa", "cfg", wire.enc_strs(lines)), "_origin": origin}


def cfg_cases(rng, tier):
    n = {"quick": 1700, "thorough": 20000, "search": 1500}[tier]
    for i in range(n):
        invalid = None
        if i % 6 == 5:
            invalid = rng.choice(["missing", "self", "badline"])
        if i % 120 == 7:
            # a cycle costs the real code ~1000 nested calls, each rebuilding both tables (about 1 s): keep them few
            invalid = rng.choice(["cycle2", "cycle3"])
        desc = gen_desc(rng, invalid)
        yield mk_cfg(desc, render(desc, rng), invalid)


# ------------------------------------------------------------------ further entry points (channel `asax`)
L4_GUARDS = ["spec-none", "spec-int", "spec-list", "eq-int"]
OTHER_SYNTAX = ["ios", "nxos", "iosxr"]


def mk_l4pair(c1, c2, origin="gen"):
    e = wire.enc_str
    return {"kind": "l4pair", "a": {k: c1.get(k) for k in ("proto", "syntax", "spec", "want")},
            "b": {k: c2.get(k) for k in ("proto", "syntax", "spec", "want")}, "_origin": origin,
            "req": wire.req("asax", "l4", e(c1["proto"]), e(c1["syntax"]), e(c1["spec"]), e(c2["proto"]), e(c2["syntax"]), e(c2["spec"]))}


def mk_l4guard(g, origin="gen"):
    return {"kind": "l4guard", "g": g, "req": wire.req("asax", "guard", g), "_origin": origin}


def mk_tables(syntax, lines, origin="gen"):
    return {"kind": "tables", "syntax": syntax, "lines": lines, "_origin": origin,
            "req": wire.req("asax", "tables", wire.enc_str(syntax))}


def mk_groups(desc, lines, lines2, how, origin="gen"):
    return {"kind": "groups", "desc": desc, "lines": lines, "lines2": lines2, "how": how, "_origin": origin,
            "req": wire.req("asax", "groups", wire.enc_strs(lines), wire.enc_strs(lines2))}


def mk_pseq(elems, origin="gen"):
    """elems: port cases (dicts with proto / spec / want); all are built back to back inside ONE impl() call"""
    e = wire.enc_str
    fields = []
    for c in elems:
        fields += [e(c["proto"]), e(c["spec"])]
    return {"kind": "pseq", "elems": [{k: c.get(k) for k in ("proto", "spec", "want")} for c in elems], "_origin": origin,
            "req": wire.req("asax", "pseq", *fields)}


def special_names():
    """service names whose meaning depends on the protocol: a different number in the two tables, or in one table only"""
    t = service_tables()
    differ = sorted(n for n in t["tcp"] if n in t["udp"] and t["tcp"][n] != t["udp"][n])
    tcp_only = sorted(n for n in t["tcp"] if n not in t["udp"])
    udp_only = sorted(n for n in t["udp"] if n not in t["tcp"])
    return differ, tcp_only, udp_only


def pelem(proto, op, operands, spec=None):
    """one construction with the property's verdict; a name the protocol's table does not have is invalid there"""
    tbl = service_tables()[proto]
    words = [str(o) for o in operands]
    if spec is None:
        spec = words[0] if op == "bare" else op + " " + " ".join(words)
    if any(isinstance(o, str) and o not in tbl for o in operands):
        want = "reject"
    else:
        want = denote(op, [tbl[o] if isinstance(o, str) else o for o in operands])
    return mk_port(proto, spec, want=want, op=op, operands=words)


def _spec_shapes(name):
    return [("eq", [name]), ("bare", [name]), ("neq", [name]), ("lt", [name]), ("gt", [name]), ("range", [1, name]),
            ("range", [name, 65535]), ("range", [name, name])]


def pseq_cases(rng, tier):
    differ, tcp_only, udp_only = special_names()
    names = differ + tcp_only + udp_only
    if tier != "search":
        # every protocol-dependent name: the same spec string under tcp then udp, and the reverse; all eight operator
        # shapes for a name with two meanings, three (rotating over the eight) for a name only one table has
        for i, n in enumerate(names):
            shapes = _spec_shapes(n)
            if n not in differ and tier == "quick":
                shapes = [shapes[(i + k) % len(shapes)] for k in (0, 3, 5)]
            for op, operands in shapes:
                for order in (("tcp", "udp"), ("udp", "tcp")):
                    yield mk_pseq([pelem(order[0], op, operands), pelem(order[1], op, operands)])
    count = {"quick": 250, "thorough": 4000, "search": 400}[tier]
    both = sorted(set(service_tables()["tcp"]) & set(service_tables()["udp"]))
    for _ in range(count):
        n = rng.choice(differ * 4 + tcp_only + udp_only) if rng.random() < 0.8 else rng.choice(both)
        op, operands = rng.choice(_spec_shapes(n))
        first = rng.choice(["tcp", "udp"])
        other = "udp" if first == "tcp" else "tcp"
        seq = [pelem(first, op, operands)]
        for _ in range(rng.choice([0, 1, 1, 2, 3])):
            r = rng.random()
            if r < 0.4:
                k = rng.choice(BOUNDS + [22, 554, 5004, 514])
                o2 = rng.choice(["eq", "bare", "neq", "lt", "gt"])
                seq.append(pelem(rng.choice(["tcp", "udp"]), o2, [k]))
            elif r < 0.6:
                seq.append(mk_port(rng.choice(["tcp", "udp"]), rng.choice(MALFORMED_SPECS), want=None, malformed=True))
            elif r < 0.8:
                n2 = rng.choice(names)
                o2, ops2 = rng.choice(_spec_shapes(n2))
                seq.append(pelem(rng.choice(["tcp", "udp"]), o2, ops2))
            else:
                seq.append(pelem(first, op, operands))
        seq.insert(rng.randrange(1, len(seq) + 1), pelem(other, op, operands))
        if rng.random() < 0.4:
            seq.append(pelem(first, op, operands))
        yield mk_pseq(seq[:6])


def _same_set_spellings(rng, proto):
    """two spellings that (mostly) denote the same port set"""
    tbl = service_tables()[proto]
    n = rng.choice(sorted(tbl))
    v = tbl[n]
    k = rng.choice([1, 2, 80, 443, 65534, 65535, rng.randint(1, 65535)])
    return rng.choice([
        (("eq", [n]), ("eq", [v])), (("bare", [n]), ("eq", [v])), (("eq", [k]), ("bare", [k])), (("range", [k, k]), ("eq", [k])),
        (("lt", [3]), ("range", [1, 2])), (("gt", [65533]), ("range", [65534, 65535])), (("neq", [n]), ("neq", [v])),
        (("lt", [2]), ("eq", [1])), (("gt", [65534]), ("bare", [65535])), (("range", [1, 65535]), ("gt", [0])),
        (("neq", [1]), ("gt", [1])), (("neq", [65535]), ("lt", [65535])), (("range", [k, min(65535, k + 1)]), ("range", [k, min(65535, k + 2)])),
        (("eq", [k]), ("eq", [k % 65535 + 1])), (("lt", [k]), ("lt", [k])), (("gt", [k]), ("lt", [k])),
    ])


def x_cases(rng, tier):
    if tier != "search":
        for g in L4_GUARDS:
            yield mk_l4guard(g)
        for syn in OTHER_SYNTAX + ["asa"]:
            yield mk_tables(syn, ["name 1.1.1.1 foo", "object-group network A", " network-object host foo",
                                  "access-list X extended permit ip any any"])
    n = {"quick": 500, "thorough": 6000, "search": 600}[tier]
    for i in range(n):
        pa = rng.choice(["tcp", "udp"])
        pb = pa if rng.random() < 0.8 else rng.choice(["tcp", "udp"])
        (op1, o1), (op2, o2) = _same_set_spellings(rng, pa)
        tb = service_tables()[pb]
        if any(isinstance(o, str) and o not in tb for o in o2):
            pb = pa
        c1 = port_case(rng, pa, op1, o1, fancy=rng.random() < 0.3)
        c2 = port_case(rng, pb, op2, o2, fancy=rng.random() < 0.3)
        if rng.random() < 0.06:
            c2 = mk_port(pb, rng.choice(MALFORMED_SPECS), want=None)
        yield mk_l4pair(c1, c2)
    m = {"quick": 300, "thorough": 4000, "search": 300}[tier]
    for i in range(m):
        invalid = rng.choice(["missing", "self", "badline"]) if i % 7 == 6 else None
        desc = gen_desc(rng, invalid)
        if rng.random() < 0.3 and desc["blocks"]:
            # a group with the members of another one in another order (same entries, different flattening)
            src = rng.choice(desc["blocks"])
            ms = [list(m) for m in src["members"]]
            rng.shuffle(ms)
            desc["blocks"].insert(rng.randrange(len(desc["blocks"]) + 1), {"name": "PERM", "indent": 1, "members": ms})
        lines = render(desc, rng)
        how = rng.choice(["same", "shift", "edit", "edit", "other", "syntax"])
        if how == "syntax":
            yield mk_tables(rng.choice(OTHER_SYNTAX), lines)
            continue
        if how == "same":
            lines2 = list(lines)
        elif how == "shift":
            lines2 = [rng.choice(["!", "hostname fw2"])] + list(lines)
        elif how == "edit":
            # same header lines at the same line numbers, other members
            lines2 = [("  network-object host 9.9.9.9" if (ln[:1] == " " and rng.random() < 0.5) else ln) for ln in lines]
        else:
            d2 = gen_desc(rng, None)
            lines2 = render(d2, rng)
        yield mk_groups(desc, lines, lines2, how)


def from_corpus(c):
    if c["kind"] == "port":
        return mk_port(c["proto"], c["spec"], c.get("syntax", "asa"), c.get("want"), "corpus")
    return mk_cfg(c["desc"], c["lines"], c.get("invalid"), "corpus")


def cases(rng, tier):
    yield from port_cases(rng, tier)
    yield from cfg_cases(rng, tier)
    import random
    yield from x_cases(random.Random(rng.getrandbits(64) ^ 0xC20), tier)
    yield from pseq_cases(random.Random(rng.getrandbits(64) ^ 0x5E9), tier)


def neighbours(case, rng):
    if case["kind"] == "pseq":
        yield from pseq_cases(rng, "search")
        return
    if case["kind"] in ("l4pair", "l4guard", "tables", "groups"):
        yield from x_cases(rng, "search")
        return
    if case["kind"] == "port":
        for _ in range(300):
            s = list(case["spec"])
            if s and rng.random() < 0.5:
                del s[rng.randrange(len(s))]
            else:
                s.insert(rng.randrange(len(s) + 1), rng.choice("eqnltgra 0159-+"))
            yield mk_port(case["proto"], "".join(s), case["syntax"], None)
    else:
        for _ in range(100):
            desc = gen_desc(rng, case.get("invalid"))
            yield mk_cfg(desc, render(desc, rng), case.get("invalid"))


def nontrivial(case):
    if case["kind"] == "pseq":
        return len({e["proto"] for e in case["elems"]}) == 2
    if case["kind"] == "l4pair":
        return case["a"]["spec"].strip() != case["b"]["spec"].strip()
    if case["kind"] in ("l4guard", "tables"):
        return True
    if case["kind"] == "groups":
        return len(case["desc"]["blocks"]) >= 2
    if case["kind"] == "port":
        return case.get("op") in ("range", "lt", "gt", "neq")
    return any(m[0] == "grp" or (m[0] in ("host", "net") and not m[1][0].isdigit())
               for b in case["desc"]["blocks"] for m in b["members"])


def describe(case):
    if case["kind"] == "pseq":
        return {"constructions in one process": [[e["proto"], e["spec"]] for e in case["elems"]]}
    if case["kind"] == "l4pair":
        return {"a": {k: case["a"][k] for k in ("proto", "syntax", "spec")}, "b": {k: case["b"][k] for k in ("proto", "syntax", "spec")}}
    if case["kind"] == "l4guard":
        return {"call": case["g"]}
    if case["kind"] == "tables":
        return {"syntax": case["syntax"], "config": case["lines"]}
    if case["kind"] == "groups":
        return {"config": case["lines"], "second config": case["lines2"], "relation": case["how"]}
    if case["kind"] == "port":
        return {"protocol": case["proto"], "syntax": case["syntax"], "port_spec": case["spec"]}
    return {"config": case["lines"], "invalid": case.get("invalid")}


def _depth(desc):
    table = {b["name"]: b for b in desc["blocks"]}

    def d(b, seen):
        best = 0
        for m in b["members"]:
            if m[0] == "grp" and m[1] in table and m[1] not in seen:
                best = max(best, 1 + d(table[m[1]], seen | {m[1]}))
        return best
    return max((d(b, {b["name"]}) for b in desc["blocks"]), default=0)


def buckets(case, ans):
    if case["kind"] == "pseq":
        es = case["elems"]
        same = any(a["spec"] == b["spec"] and a["proto"] != b["proto"] for i, a in enumerate(es) for b in es[i + 1:])
        return ["pseq:len:%d" % len(es), "pseq:same-spec-under-both-protocols:%s" % same, "pseq:first:" + es[0]["proto"]]
    if case["kind"] == "l4pair":
        return ["l4pair:answer:" + ans.split("|")[0][:30] + ("/" + "".join(ans.split("|")[1:3]) if ans.startswith("ok") else "")]
    if case["kind"] == "l4guard":
        return ["l4guard:" + case["g"]]
    if case["kind"] == "tables":
        return ["tables:syntax:" + case["syntax"]]
    if case["kind"] == "groups":
        return ["groups:second-config:" + case["how"], "groups:objects:%d" % min(9, len(case["desc"]["blocks"]))]
    if case["kind"] == "port":
        out = ["port:op:" + str(case.get("op", "malformed")), "port:proto:" + case["proto"]]
        out.append("port:answer:" + ("ok" if ans.startswith("ok") else ans))
        if case.get("operands"):
            out.append("port:operand:" + ("named" if any(not o.lstrip("-").isdigit() for o in case["operands"]) else "numeric"))
        return out
    desc = case["desc"]
    out = ["cfg:invalid:" + str(case.get("invalid")), "cfg:depth:%d" % _depth(desc),
           "cfg:groups:%d" % min(9, len(desc["blocks"])), "cfg:aliases:%d" % min(5, len(desc["names"]))]
    names = [b["name"] for b in desc["blocks"]]
    if len(set(names)) < len(names):
        out.append("cfg:duplicate-group-name")
    if len({n["name"] for n in desc["names"]}) < len(desc["names"]):
        out.append("cfg:alias-redefined")
    kinds = {m[0] for b in desc["blocks"] for m in b["members"]}
    out += ["cfg:member:" + k for k in sorted(kinds)]
    if any(m[0] == "net" and m[2] == "255.255.255.255" for b in desc["blocks"] for m in b["members"]):
        out.append("cfg:member:mask32")
    return out


# ------------------------------------------------------------------ implementation
def _err(e):
    return "err:" + type(e).__name__


def _tf(b):
    assert b is True or b is False, b
    return "T" if b else "F"


def _impl_x(case):
    from ciscoconfparse2.ccp_util import L4Object
    from ciscoconfparse2 import CiscoConfParse
    from ciscoconfparse2.models_asa import ASAObjGroupNetwork
    kind = case["kind"]
    if kind == "pseq":
        out = []
        for e in case["elems"]:
            try:
                out.append("ok " + enc_runs(L4Object(protocol=e["proto"], port_spec=e["spec"], syntax="asa").port_list))
            except RecursionError:
                raise
            except Exception as exc:
                out.append(_err(exc))
        return "|".join(out)
    if kind == "l4guard":
        try:
            if case["g"] == "eq-int":
                L4Object(protocol="tcp", port_spec="eq 80", syntax="asa") == 5
            else:
                L4Object(protocol="tcp", syntax="asa", port_spec={"spec-none": None, "spec-int": 80, "spec-list": ["eq", "80"]}[case["g"]])
            return "ok"
        except Exception as e:
            return _err(e)
    if kind == "l4pair":
        a, b = case["a"], case["b"]
        try:
            x = L4Object(protocol=a["proto"], port_spec=a["spec"], syntax=a["syntax"])
        except Exception as e:
            return _err(e)
        try:
            y = L4Object(protocol=b["proto"], port_spec=b["spec"], syntax=b["syntax"])
        except Exception as e:
            return "second:" + _err(e)
        try:
            r = wire.enc_str(repr(x))
        except Exception as e:
            r = _err(e)
        return "|".join(["ok", _tf(x == y), _tf(x != y), r])
    if kind == "tables":
        parse = CiscoConfParse(list(case["lines"]), syntax=case["syntax"])
        res = []
        for attr in ("asa_object_group_names", "asa_object_group_network", "asa_access_list"):
            try:
                getattr(parse.config_objs, attr)
                res.append("ok")
            except Exception as e:
                res.append(_err(e))
        return res[0] if len(set(res)) == 1 else "/".join(res)
    if kind == "groups":
        def objs(lines):
            parse = CiscoConfParse(list(lines), syntax="asa", factory=True)
            return parse, [o for o in parse.objs if isinstance(o, ASAObjGroupNetwork)]
        p1, A = objs(case["lines"])
        p2, B = objs(case["lines2"])
        every = A + B
        counts = []
        for a in A:
            try:
                counts.append(str(a.network_count))
            except Exception as e:
                counts.append(_err_rec(e))
            if hash(a) != a.get_unique_identifier():
                counts[-1] += "~hash-is-not-the-unique-identifier"

        def hc(o):
            try:
                return o.hash_children
            except Exception:
                return None
        hcs = {id(o): hc(o) for o in every}

        def hceq(a, b):
            # `a.hash_children == b.hash_children`: either side raises what network_strings raises
            if hcs[id(a)] is None or hcs[id(b)] is None:
                return "E"
            return _tf(hcs[id(a)] == hcs[id(b)])
        return "|".join([",".join(counts),
                         ",".join("".join(_tf(a == b) for b in every) for a in A),
                         ",".join("".join(_tf(a != b) for b in every) for a in A),
                         ",".join("".join(_tf(hash(a) == hash(b)) for b in every) for a in A),
                         ",".join("".join(hceq(a, b) for b in every) for a in A)])
    raise AssertionError(kind)


def _err_rec(e):
    """exception class of a group expansion.  In a reference CYCLE the recursion limit is hit at a depth that depends on how
    deep the caller's own stack is; when that happens inside ConfigList.__getattribute__ (which catches BaseException and
    retries through ccp_ref) the RecursionError resurfaces as an AttributeError.  Both are 'the recursion limit was
    reached' -- the class is canonicalised so that the answer does not depend on the stack depth of the harness."""
    seen = 0
    x = e
    while x is not None and seen < 50:
        if isinstance(x, RecursionError):
            return "err:RecursionError"
        x = x.__context__ or x.__cause__
        seen += 1
    return _err(e)


def impl(case):
    quiet_ccp()
    if case["kind"] in ("l4pair", "l4guard", "tables", "groups", "pseq"):
        return _impl_x(case)
    if case["kind"] == "port":
        from ciscoconfparse2.ccp_util import L4Object
        try:
            obj = L4Object(protocol=case["proto"], port_spec=case["spec"], syntax=case["syntax"])
        except RecursionError:
            raise
        except Exception as e:
            return _err(e)
        return "ok " + enc_runs(obj.port_list)
    from ciscoconfparse2 import CiscoConfParse
    from ciscoconfparse2.models_asa import ASAObjGroupNetwork
    parse = CiscoConfParse(list(case["lines"]), syntax="asa", factory=True)
    cl = parse.config_objs
    names = cl.asa_object_group_names
    groups = cl.asa_object_group_network
    acls = cl.asa_access_list
    parts = [
        " ".join(wire.enc_str(k) + "=" + wire.enc_str(v) for k, v in names.items()),
        " ".join(wire.enc_str(k) + "@" + str(v.linenum) for k, v in groups.items()),
        " ".join(wire.enc_str(k) + ":" + wire.enc_nats([o.linenum for o in v]) for k, v in acls.items()),
    ]
    objs, nets = [], []
    for obj in parse.objs:
        if isinstance(obj, ASAObjGroupNetwork):
            try:
                res = "ok " + wire.enc_strs(obj.network_strings)
            except Exception as e:
                res = _err_rec(e)
            objs.append(f"{obj.linenum}/{wire.enc_str(obj.name)}/{res}")
            # .networks twice: the second call is answered from ConfigList._network_cache
            try:
                first = [f"{n.ip}/{n.prefixlen}" for n in obj.networks]
                second = [f"{n.ip}/{n.prefixlen}" for n in obj.networks]
                nets.append(",".join(first) + ("" if first == second else "~DIFFERS-ON-SECOND-CALL"))
            except Exception as e:
                nets.append(_err_rec(e))
    parts.append(";".join(objs))
    return "|".join(parts) + "#" + ";".join(nets)


def compare(case, impl_ans, model_ans):
    if case["kind"] in ("l4pair", "l4guard", "tables", "groups", "pseq"):
        return impl_ans == model_ans
    # the `.networks` rendering after '#' is checked by the oracle only (IPv4Obj is C11's subject)
    return impl_ans.split("#")[0] == model_ans


# ------------------------------------------------------------------ oracle (independent of the Lean model)
def ref_flatten(desc):
    """direct flattening of the structured description; per block: ('ok', [strings]) | ('raise', why) | None (no verdict)"""
    alias = {}
    for n in desc["names"]:
        alias[n["name"]] = n["addr"]
    table = {}
    for b in desc["blocks"]:
        table[b["name"]] = b

    def go(b, path):
        out = []
        for m in b["members"]:
            if m[0] == "host":
                out.append(alias.get(m[1], m[1]))
            elif m[0] == "net":
                a = alias.get(m[1], m[1])
                out.append(a if m[2] == "255.255.255.255" else a + "/" + m[2])
            elif m[0] == "descr":
                pass
            elif m[0] == "grp":
                if m[1] not in table:
                    raise LookupError("undefined group " + m[1])
                if m[1] in path:
                    raise RecursionError("cycle through " + m[1])
                out.extend(go(table[m[1]], path + [m[1]]))
            else:
                raise NotImplementedError("raw line")
        return out
    res = []
    for b in desc["blocks"]:
        try:
            res.append(("ok", go(b, [b["name"]])))
        except (LookupError, RecursionError) as e:
            res.append(("raise", str(e)))
        except NotImplementedError:
            res.append(None)
    return res


def ref_networks(strings):
    out = []
    for s in strings:
        try:
            if "/" in s:
                i = ipaddress.IPv4Interface(s)
            else:
                i = ipaddress.IPv4Interface(s + "/32")
        except ValueError:
            return None
        out.append(f"{i.ip}/{i.network.prefixlen}")
    return ",".join(out)


def _oracle_x(case, ans):
    kind = case["kind"]
    if kind == "pseq":
        # every construction is judged on its own: what was built before in the same process must not matter
        fails = []
        for i, (e, got) in enumerate(zip(case["elems"], ans.split("|"))):
            for f in oracle({"kind": "port", "want": e["want"]}, got):
                before = ", ".join(f"{x['proto']} {x['spec']!r}" for x in case["elems"][:i]) or "nothing"
                fails.append(f"construction {i} ({e['proto']} {e['spec']!r}, after {before}): {f}")
        return fails[:3]
    if kind == "l4guard":
        return [] if ans.startswith("err:") else [f"{case['g']}: a value of the wrong type was accepted"]
    if kind == "tables":
        if case["syntax"] == "asa":
            return [] if ans == "ok" else [f"the asa tables are refused under syntax asa: {ans}"]
        return [] if "ok" not in ans.split("/") else [f"the asa tables are served under syntax {case['syntax']}: {ans}"]
    if kind == "l4pair":
        wa, wb = case["a"]["want"], case["b"]["want"]

        def known(w):
            return isinstance(w, (list, tuple)) and w[0] == "set"
        if wa == "reject" and not ans.startswith("err:"):
            return [f"invalid port spec accepted: {ans[:40]}"]
        if known(wa) and wb == "reject" and not ans.startswith("second:err:"):
            return [f"invalid second port spec accepted: {ans[:40]}"]
        if not (known(wa) and known(wb)):
            return []
        if not ans.startswith("ok|"):
            return [f"two well-formed port specs, answer {ans[:40]}"]
        f = ans.split("|")
        same = case["a"]["proto"] == case["b"]["proto"] and wa[1] == wb[1]
        fails = []
        if f[1] != ("T" if same else "F"):
            fails.append(f"== is {f[1]} for objects that denote {'the same' if same else 'different'} protocol/ports")
        if f[2] == f[1]:
            fails.append(f"== is {f[1]} and != is {f[2]}")
        return fails
    # groups: network_count is the length of the flattening; == is reflexive and the negation of !=; equal objects
    # have equal hashes; objects of one config with equal flattenings have equal hash_children
    desc = case["desc"]
    by_line = sorted(desc["blocks"], key=lambda b: b["linenum"])
    ordered = dict(desc)
    ordered["blocks"] = by_line
    ordered["names"] = sorted(desc["names"], key=lambda n: n["linenum"])
    ref = ref_flatten(ordered)
    f = ans.split("|")
    counts = f[0].split(",") if f[0] else []
    rows = [x.split(",") if x else [] for x in f[1:5]]
    fails = []
    if len(counts) != len(by_line):
        return [f"{len(counts)} group objects, {len(by_line)} defined"]
    for i, (b, r, c) in enumerate(zip(by_line, ref, counts)):
        if r is None:
            continue
        if r[0] == "raise":
            if not c.startswith("err:"):
                fails.append(f"group {b['name']}: {r[1]} but network_count is {c}")
        elif "~" in c:
            fails.append(f"group {b['name']}: {c}")
        elif c != str(len(r[1])):
            fails.append(f"group {b['name']}: network_count {c}, the flattening has {len(r[1])} entries")
    eq, ne, hs, hc = rows
    for i in range(len(by_line)):
        if eq[i][i] != "T" or ne[i][i] != "F":
            fails.append(f"group object {i} is not equal to itself")
        for j in range(len(eq[i])):
            if eq[i][j] == ne[i][j]:
                fails.append(f"== and != agree on objects {i},{j}")
            if eq[i][j] == "T" and hs[i][j] != "T":
                fails.append(f"equal objects {i},{j} with different hashes")
        for j in range(len(by_line)):
            ri, rj = ref[i], ref[j]
            if ri and rj and ri[0] == "ok" and rj[0] == "ok":
                want = "T" if ri[1] == rj[1] else "F"
                if hc[i][j] != want:
                    fails.append(f"hash_children of groups {i},{j} equal: {hc[i][j]}, flattenings equal: {want}")
    return fails[:3]


def oracle(case, ans):
    if case["kind"] in ("l4pair", "l4guard", "tables", "groups", "pseq"):
        return _oracle_x(case, ans)
    if case["kind"] == "port":
        want = case.get("want")
        if want is None:
            return []
        if want == "reject":
            return [] if ans.startswith("err:") else [f"invalid port spec accepted: {ans[:60]}"]
        if isinstance(want, (list, tuple)) and want[0] == "empty":
            # the denotation is empty (lt 1, gt 65535): a rejection or an empty list are both faithful
            return [] if ans.startswith("err:") or ans == "ok " else [f"empty denotation but got {ans[:60]}"]
        exp = "ok " + want[1]
        return [] if ans == exp else [f"port_list is {ans[:70]} expected {exp[:70]}"]
    desc = case["desc"]
    main, _, nets = ans.partition("#")
    f_names, f_groups, f_acls, f_objs = main.split("|")
    fails = []
    # tables contain exactly the defined entries
    alias = {}
    for n in sorted(desc["names"], key=lambda n: n["linenum"]):
        alias[n["name"]] = n["addr"]
    exp_names = " ".join(wire.enc_str(k) + "=" + wire.enc_str(v) for k, v in alias.items())
    if f_names != exp_names:
        fails.append(f"name table {f_names[:80]} expected {exp_names[:80]}")
    by_line = sorted(desc["blocks"], key=lambda b: b["linenum"])
    last = {}
    for b in by_line:
        last[b["name"]] = b["linenum"]
    exp_groups = " ".join(wire.enc_str(k) + "@" + str(v) for k, v in last.items())
    if f_groups != exp_groups:
        fails.append(f"group table {f_groups[:80]} expected {exp_groups[:80]}")
    acl = {}
    for a in sorted(desc["acls"], key=lambda a: a["linenum"]):
        acl.setdefault(a["name"], []).append(a["linenum"])
    exp_acls = " ".join(wire.enc_str(k) + ":" + wire.enc_nats(v) for k, v in acl.items())
    if f_acls != exp_acls:
        fails.append(f"access-list table {f_acls[:80]} expected {exp_acls[:80]}")
    # expansion; the reference works on the description, where the *last* definition of a name is the table entry
    ordered = dict(desc)
    ordered["blocks"] = by_line
    ordered["names"] = sorted(desc["names"], key=lambda n: n["linenum"])
    ref = ref_flatten(ordered)
    got = f_objs.split(";") if f_objs else []
    got_nets = nets.split(";") if nets else []
    if len(got) != len(by_line):
        fails.append(f"{len(got)} group objects reported, {len(by_line)} defined")
        return fails[:3]
    for b, r, g, gn in zip(by_line, ref, got, got_nets + [""] * len(got)):
        ln, name, res = g.split("/", 2)
        if int(ln) != b["linenum"] or wire.dec_str(name) != b["name"]:
            fails.append(f"group object {ln}/{wire.dec_str(name)} expected {b['linenum']}/{b['name']}")
            continue
        if r is None:
            continue
        if r[0] == "raise":
            if not res.startswith("err:"):
                fails.append(f"group {b['name']}@{ln}: {r[1]} but expansion returned {res[:60]}")
            continue
        exp = "ok " + wire.enc_strs(r[1])
        if res != exp:
            shown = wire.dec_strs(res[3:]) if res.startswith("ok ") else res
            fails.append(f"group {b['name']}@{ln}: expansion {shown} expected {r[1]}")
            continue
        exp_nets = ref_networks(r[1])
        if exp_nets is None:
            if not gn.startswith("err:"):
                fails.append(f"group {b['name']}@{ln}: an unresolved alias became a network object: {gn[:60]}")
        elif gn != exp_nets:
            fails.append(f"group {b['name']}@{ln}: networks {gn[:80]} expected {exp_nets[:80]}")
    return fails[:3]
