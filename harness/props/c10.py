"""C10 — the diff transforms the old config into the new one; the rollback is its mirror.

Two generator streams:
  * inside the *plain fragment* of hier_config (derived below from the installed library's
    `options_for(os)`): implementation, Lean model and the Python oracle all run;
  * outside it (negated lines, idempotent lineages, comments, banners, ACL sections, ...):
    only the implementation and the oracle run; failures are third-party semantics and are
    mapped to known findings by predicates on the offending hierarchical line.
"""
import atexit
import json
import os
import re

import wire
from props.common import quiet_ccp

ID = "C10"
LEAN_MODULES = ["Ccp.Props.C10"]
# bound of the escalated quick run (source fingerprint changed -> thorough generator): keeps that run near two minutes
ESCALATE_MAX_CASES = 25000
SCRATCH = "/tmp/C10-scratch"
SYNTAXES = ["ios", "nxos", "iosxr", "asa", "junos"]
# what Diff.__init__ hands to hier_config.Host for each accepted syntax
HOST_OS = {"ios": "ios", "nxos": "nxos", "iosxr": "iosxr", "asa": "ios", "junos": "ios"}

# --------------------------------------------------------------------------- plain fragment
LINEAGE_LISTS = ["idempotent_commands", "idempotent_commands_blacklist", "ordering", "sectional_exiting",
                 "sectional_overwrite", "sectional_overwrite_no_negate", "negation_default_when",
                 "negation_negate_with", "parent_allows_duplicate_child"]
KNOWN_OPTION_KEYS = set(LINEAGE_LISTS) | {"style", "full_text_sub", "per_line_sub", "indent_adjust", "negation"}
TEXT_TESTS = {"equals", "startswith", "endswith", "contains", "re_search", "anything", "nothing"}
# constants hard-wired in hier_config/root.py and base.py (not in the option tables)
HARD_PREFIXES = ("no ", "default ", "ip access-list", "ipv4 access-list", "ipv6 access-list")

_frag_cache = {}


def fragment(host_os):
    """The exclusion data of one hier_config OS, read from the installed library at run time."""
    if host_os in _frag_cache:
        return _frag_cache[host_os]
    import hier_config
    from hier_config.options import options_for
    opts = options_for(host_os)
    problems = []
    for k, v in opts.items():
        if k not in KNOWN_OPTION_KEYS and v:
            problems.append(f"unknown hier_config option {k!r}")
    if opts.get("full_text_sub"):
        problems.append("full_text_sub rules present")
    if opts.get("negation", "no") != "no":
        problems.append("negation prefix is not 'no'")
    rules = []
    for name in LINEAGE_LISTS:
        for rule in opts.get(name, []) or []:
            rules.append((name, rule["lineage"], bool(rule.get("match_leaf", False))))
            for elem in rule["lineage"]:
                for test in elem:
                    if test not in TEXT_TESTS and test not in ("new_in_config", "negative_intersection_tags"):
                        problems.append(f"unknown lineage test {test!r}")
    frag = {
        "os": host_os,
        "problems": problems,
        "per_line_sub": [(re.compile(s["search"]), s["replace"]) for s in opts.get("per_line_sub", [])],
        "indent_adjust": [re.compile(x) for e in opts.get("indent_adjust", []) for x in (e["start_expression"], e["end_expression"])],
        "rules": rules,
        "version": getattr(hier_config, "__version__", None) or _dist_version(),
    }
    _frag_cache[host_os] = frag
    return frag


def _dist_version():
    try:
        from importlib.metadata import version
        return version("hier_config")
    except Exception:
        return "?"


def _elem_matches(elem, text):
    """one lineage element against one text: any text test may match (object tests taken as satisfied)"""
    tests = [(k, v) for k, v in elem.items() if k in TEXT_TESTS]
    if not tests:
        return True
    for k, v in tests:
        for e in (v if isinstance(v, list) else [v]):
            if k == "equals" and text == e:
                return True
            if k == "startswith" and text.startswith(e):
                return True
            if k == "endswith" and text.endswith(e):
                return True
            if k == "contains" and e in text:
                return True
            if k == "re_search" and re.search(e, text):
                return True
            if k == "anything":
                return True
    return False


def rule_hits(frag, path):
    """names of the option lists with a rule matching this hierarchical line or its negation"""
    hits = []
    for name, lineage, leaf_only in frag["rules"]:
        for last in (path[-1], "no " + path[-1]):
            if leaf_only:
                ok = len(lineage) == 1 and _elem_matches(lineage[0], last)
            else:
                ok = len(lineage) == len(path) and all(
                    _elem_matches(e, t) for e, t in zip(lineage, path[:-1] + (last,)))
            if ok:
                hits.append(name)
                break
    return hits


def norm(line):
    return " ".join(line.split())


def indent_of(line):
    return len(line) - len(line.lstrip())


def cfg_lines(items):
    """the lines a sequence input denotes: items joined by a newline, split at Python's line boundaries"""
    return "\n".join(items).splitlines()


def parse_paths(lines):
    """hierarchical lines by the indentation rule: the parent is the nearest earlier line with a
    smaller indentation; a line is identified by its words (runs of whitespace are one blank)"""
    stack, out = [], []
    for ln in lines:
        t = norm(ln)
        if not t:
            continue
        i = indent_of(ln)
        while stack and stack[-1][0] >= i:
            stack.pop()
        stack.append((i, t))
        out.append(tuple(x[1] for x in stack))
    return out


def line_classes(frag, raw, path):
    """why one line is outside the plain fragment ([] = plain)"""
    out = []
    text = path[-1]
    if raw.startswith("banner "):
        out.append("banner")
    n = " " * indent_of(raw) + norm(raw)
    m = n
    for rx, rep in frag["per_line_sub"]:
        m = rx.sub(rep, m)
    if m != n:
        out.append("per_line_sub")
    if text.startswith("no "):
        out.append("negated")
    if text.startswith("default "):
        out.append("default")
    if text.startswith(HARD_PREFIXES[2:]):
        out.append("acl")
    if any(rx.search(text) for rx in frag["indent_adjust"]):
        out.append("indent_adjust")
    out += rule_hits(frag, path)
    return out


def config_classes(frag, lines):
    """{hierarchical line: classes} for the lines outside the plain fragment"""
    per = {}
    raws = [ln for ln in lines if norm(ln)]
    for raw, path in zip(raws, parse_paths(lines)):
        cl = line_classes(frag, raw, path)
        if cl:
            per.setdefault(path, set()).update(cl)
    return per


def shadows(frag, lines):
    """[(classes, texts)] : for every excluded line the texts it can disturb — its own and those of the
    lines below it (hier_config drops or merges the excluded line, which re-parents them); a banner
    swallows lines up to its delimiter and an indent_adjust start shifts every later line, so there
    everything after the line counts."""
    raws = [ln for ln in lines if norm(ln)]
    paths = parse_paths(lines)
    out = []
    for k, (raw, path) in enumerate(zip(raws, paths)):
        cl = line_classes(frag, raw, path)
        if not cl:
            continue
        texts = set(path)
        if "negated" in cl:
            texts.add(path[-1][3:])            # `no X` and `X` are the same command to hier_config
        for q in paths[k + 1:]:
            if "banner" in cl or "indent_adjust" in cl or q[:len(path)] == path:
                texts.update(q)
            else:
                break
        out.append((set(cl), texts))
    return out


def pair_classes(case):
    frag = fragment(HOST_OS.get(case["syntax"], "ios"))
    per = {}
    for side in ("old", "new"):
        for p, c in config_classes(frag, cfg_lines(case[side])).items():
            per.setdefault(p, set()).update(c)
    if frag["problems"]:
        per[("<fragment>",)] = set(frag["problems"])
    return per


def _fragment_summary():
    parts = []
    for o in ("ios", "nxos", "iosxr"):
        try:
            f = fragment(o)
        except Exception as e:  # library missing or restructured: say so, nothing is plain then
            parts.append(f"{o}: fragment not derivable ({type(e).__name__})")
            continue
        counts = {}
        for name, _, _ in f["rules"]:
            counts[name] = counts.get(name, 0) + 1
        parts.append(f"{o}: {len(f['per_line_sub'])} per_line_sub, {len(f['indent_adjust']) // 2} indent_adjust, "
                     + ", ".join(f"{v} {k}" for k, v in sorted(counts.items()))
                     + (f"; PROBLEMS {f['problems']}" if f["problems"] else ""))
    try:
        ver = fragment("ios")["version"]
    except Exception:
        ver = "?"
    return f"hier_config {ver} [" + " | ".join(parts) + "]"


RULE = ("pairs (old,new): old is a random indentation tree (depth 0..3, realistic IOS commands plus a tiny synthetic "
        "vocabulary so that texts collide across levels; random indentation width per section, tabs, blank and "
        "whitespace-only lines, doubled inner blanks, duplicate sections); new is old mutated (lines/sections dropped, "
        "added, moved to another parent, siblings reordered), an independent tree, an identical copy, or empty; each side "
        "goes in as list, tuple, multi-line string (\\n, trailing \\n, \\r\\n), file path (scratch dir) or None/[]/()/'' "
        "when empty; syntax drawn from ios/nxos/iosxr/asa/junos; plus ill-typed inputs and unknown syntaxes. "
        "cli stream (one tenth as many cases): the same pairs written to two files and run through the real entry point as "
        "`ccp diff [-m diff|rollback] [-s SYNTAX] OLD NEW` (options present or absent), plus -m / -s values outside the argparse "
        "choices (SystemExit) and a missing first or second file; CliApplication.stdout is compared with the model (channel "
        "diffcli, inside the fragment) and judged by the same transformation oracle on the printed lines. "
        "A pair is INSIDE the plain fragment when no hierarchical line of either side (nor its 'no ' negation) is touched "
        "by a rule of the installed hier_config option tables for that OS, starts with 'banner ', 'no ', 'default ', "
        "'ip(v4|v6) access-list', or is changed by a per_line_sub rule; only those go to the Lean model. "
        "Everything else is the OUTSIDE stream (oracle only). Fragment derived at import from " + _fragment_summary() +
        ". non-trivial = both sides non-empty and the diff non-empty. Lone surrogates are never generated.")
LEVEL_TEXT = ("PARTIAL. Theorems (Lean 4, all inputs of the plain fragment: no line starts with 'no ', siblings distinct — which "
              "the loader guarantees): applying the diff's commands to the old config's hierarchical lines yields exactly the "
              "new config's; added lines are absent from old (or are section headers of deeper changes), removals name lines "
              "present in old and absent from new; diff(c,c) is empty; rollback(old,new)=diff(new,old); list/tuple/str/file/None "
              "forms normalise to the same text; `ccp diff [-m] [-s] OLD NEW` prints exactly get_diff() / get_rollback() of the two files' "
              "texts (cli_diff_is_api, defaults diff / ios), `-m rollback OLD NEW` = `-m diff NEW OLD` (cli_rollback_mirror), other "
              "-m / -s values and missing files are rejected (cli_rejects). The model of hier_config's loader/diff/rendering is tied to the real "
              "Diff(...).get_diff()/get_rollback() by differential runs inside the fragment.")
LEVEL_NOTE = ("hier_config is third-party: modelled, not verified, and only on the plain fragment derived at run time from its "
              "option tables. Outside the fragment (negated lines, idempotent lineages, comments, banners, ACL sections, "
              "ordering/sectional-exit rules) the literal property does not hold; those input classes are recorded as known "
              "findings F15a-F15f and only the Python oracle runs there. Trusted: Lean kernel, the three standard axioms, the "
              "correspondence harness, the fragment classifier.")
EXHAUSTIVE = {"quick": False, "thorough": False}
ASSUMPTIONS = [
    "a line is identified by its words: runs of whitespace inside a line are one blank (hier_config normalises them)",
    "os.linesep is '\\n' (POSIX); files are read with universal newlines and hold '\\n' line ends",
    "hier_config 2.2.3 option tables as installed; Diff() passes {} so options_for(os) applies",
    "the string form is not the name of an existing file unless the file form is meant",
]
TRUSTED = ["hier_config (third party) is modelled on the plain fragment only; agreement is measured, not proved",
           "the plain-fragment classifier in harness/props/c10.py"]

# --------------------------------------------------------------------------- generator
TOP = ["hostname R{n}", "router ospf {n}", "router bgp 6500{n}", "line vty 0 {n}", "line con 0",
       "interface GigabitEthernet0/{n}", "interface Vlan{n}", "vlan {n}", "logging host 10.0.0.{n}",
       "snmp-server community c{n} RO", "ip route 10.{n}.0.0 255.255.0.0 10.0.0.1", "ntp server 10.9.9.{n}",
       "policy-map PM{n}", "class-map match-any CM{n}", "vrf definition V{n}", "aaa new-model",
       "service timestamps debug datetime msec", "ip domain-name example.net", "spanning-tree mode rapid-pvst",
       "key chain K{n}", "route-map RM{n} permit 10", "control-plane", "archive", "w{n}", "w{n}", "x{n}"]
SUB = ["network 10.{n}.0.0 0.0.255.255 area 0", "passive-interface default", "router-id 1.1.1.{n}",
       "switchport mode access", "switchport access vlan {n}", "mtu 9000", "speed 1000", "duplex full",
       "spanning-tree portfast", "neighbor 10.0.0.{n} remote-as 65001", "transport input ssh", "exec-timeout 5 0",
       "login local", "class CM{n}", "police 8000", "match ip address prefix-list PL{n}", "set local-preference 200",
       "key {n}", "key-string abc{n}", "log config", "logging enable", "hidekeys", "bandwidth 1000",
       "service-policy output PM{n}", "channel-group {n} mode active", "rd 65000:{n}", "maximum-paths 4",
       "w{n}", "w{n}", "x{n}", "nor{n}", "node {n}", "defaults {n}"]
SPECIAL = ["no shutdown", "shutdown", "description uplink {n}", "ip address 10.{n}.0.1 255.255.255.0", "no ip address",
           "! comment {n}", "!", "# remark", "ip access-list extended ACL{n}", "permit ip any any",
           "deny ip any host 10.0.0.{n}", "remark r{n}", "ipv6 access-list V6", "sequence 10 permit ipv6 any any",
           "name VLAN{n}", "no ip proxy-arp", "no logging console", "no w{n}", "default interface Gi0/{n}", "default w{n}",
           "version 15.{n}", "end", "vlan filter F{n} vlan-list 10", "ntp clock-period 17179{n}",
           "Building configuration...", "template peer-policy P{n}", "address-family ipv4", "exit-address-family",
           "template T{n}", "end-template", "route-policy RP{n}", "end-policy", "vrf V{n}", "hostname S{n}"]
BANNER = [["banner motd ^C", "hello {n}", "^C"], ["banner login %", " keep out", "%"], ["banner exec #text#"]]


def _text(rng, pool, special):
    if special and rng.random() < special:
        pool = SPECIAL
    return rng.choice(pool).replace("{n}", str(rng.randint(0, 3)))


def gen_tree(rng, depth, special, width=None):
    """nested [text, children] lists"""
    n = rng.choice([1, 1, 2, 3, 4, 6] if depth == 0 else [0, 1, 1, 2, 3, 4]) if width is None else width
    out = []
    for _ in range(n):
        t = _text(rng, TOP if depth == 0 else SUB, special)
        kids = []
        if depth < 3 and rng.random() < (0.55 if depth == 0 else 0.3):
            kids = gen_tree(rng, depth + 1, special)
        out.append([t, kids])
    return out


def mutate(rng, tree, depth, special):
    out = []
    for t, kids in tree:
        r = rng.random()
        if r < 0.18:
            continue                                   # line / whole section removed
        if r < 0.24:
            out.append([_text(rng, TOP if depth == 0 else SUB, special), kids])   # header renamed
            continue
        out.append([t, mutate(rng, kids, depth + 1, special) if kids else
                    (gen_tree(rng, depth + 1, special, 1) if depth < 3 and rng.random() < 0.08 else [])])
    if rng.random() < 0.45:
        for x in gen_tree(rng, depth, special, rng.choice([1, 1, 2])):
            out.insert(rng.randint(0, len(out)), x)    # added
    if rng.random() < 0.15:
        rng.shuffle(out)
    return out


def move_some(rng, tree):
    """move one subtree under another parent (same text, other ancestors)"""
    flat = []

    def walk(nodes, depth):
        for nd in nodes:
            flat.append((nodes, nd, depth))
            walk(nd[1], depth + 1)
    walk(tree, 0)
    if len(flat) < 2:
        return tree
    src_list, src, _ = rng.choice(flat)
    _, dst, ddepth = rng.choice(flat)
    if dst is src or ddepth >= 3:
        return tree
    # do not move a node under itself
    sub = []

    def inside(nd):
        sub.append(id(nd))
        for k in nd[1]:
            inside(k)
    inside(src)
    if id(dst) in sub:
        return tree
    src_list.remove(src)
    dst[1].append(src)
    return tree


def to_lines(rng, tree, noise=True):
    style = rng.choice(["1", "2", "4", "rand", "tab", "rand"])
    out = []

    def emit(nodes, ind):
        for t, kids in nodes:
            pad = ("\t" * ind if style == "tab" else " " * ind)
            txt = t
            if noise and rng.random() < 0.05:
                txt = txt.replace(" ", rng.choice(["  ", " \t", "   "]), 1)
            if noise and rng.random() < 0.05:
                txt += rng.choice([" ", "  ", "\t"])
            out.append(pad + txt)
            if noise and rng.random() < 0.04:
                out.append(rng.choice(["", " ", "   ", "\t"]))
            if kids:
                step = {"1": 1, "2": 2, "4": 4, "tab": 1}.get(style) or rng.randint(1, 3)
                emit(kids, ind + step)
    emit(tree, rng.choice([0, 0, 0, 0, 1]) if noise else 0)
    return out


def copy_tree(tree):
    return [[t, copy_tree(k)] for t, k in tree]


def gen_permuted_pair(rng, special):
    """old and new hold exactly the same raw lines, but one child line sits under a different parent
    (same indentation): a diff that looks only at the set of lines sees no change"""
    for _ in range(20):
        old = gen_tree(rng, 0, special)
        parents = [nd for nd in old if nd[1]]
        if len(old) >= 2 and parents:
            break
    else:
        return None
    new = copy_tree(old)
    src = rng.choice([nd for nd in new if nd[1]])
    dst = rng.choice([nd for nd in new if nd is not src])
    kid = src[1].pop(rng.randrange(len(src[1])))
    dst[1].insert(rng.randint(0, len(dst[1])), kid)
    st = rng.getstate()
    ol = to_lines(rng, old, noise=False)
    rng.setstate(st)
    nl = to_lines(rng, new, noise=False)
    return ol, nl


def gen_pair(rng, special):
    if rng.random() < 0.08:
        pair = gen_permuted_pair(rng, special)
        if pair is not None:
            return pair
    r = rng.random()
    old = gen_tree(rng, 0, special)
    if r < 0.07:
        old = []
    if r < 0.60:
        new = mutate(rng, copy_tree(old), 0, special)
        if rng.random() < 0.3:
            new = move_some(rng, new)
    elif r < 0.72:
        new = gen_tree(rng, 0, special)
    elif r < 0.80:
        new = copy_tree(old)
        if rng.random() < 0.5:
            rng.shuffle(new)
    elif r < 0.88:
        new = []
    else:
        new = mutate(rng, mutate(rng, copy_tree(old), 0, special), 0, special)
    ol, nl = to_lines(rng, old), to_lines(rng, new)
    if special and rng.random() < 0.15:
        b = [x.replace("{n}", str(rng.randint(0, 3))) for x in rng.choice(BANNER)]
        (ol if rng.random() < 0.5 else nl)[0:0] = b
        if rng.random() < 0.5:
            (nl if rng.random() < 0.5 else ol).extend(b)
    if rng.random() < 0.03 and ol:
        ol[rng.randrange(len(ol))] += rng.choice(["\x0b", "\x0c", "\x1c", "\x85", " "]) + "  w9"
    return ol, nl


STR_FORMS = ["str", "str-nl", "str-crlf"]


def pick_form(rng, lines):
    if not lines and rng.random() < 0.5:
        return rng.choice(["none", "list", "tuple", "str", "path"])
    return rng.choice(["list", "list", "tuple", "str", "str-nl", "str-crlf", "path"])


def side_arg(form, lines, path):
    """(python argument description, wire fields) of one side"""
    if form == "none":
        return ("N", "", "-")
    if form == "other":
        return ("X", "", "-")
    if form == "list":
        return ("L", wire.enc_strs(lines), "-")
    if form == "tuple":
        return ("T", wire.enc_strs(lines), "-")
    if form == "path":
        return ("S", wire.enc_str(path), wire.enc_str(file_content(lines)))
    return ("S", wire.enc_str(str_form(form, lines)), "-")


def file_content(lines):
    return "".join(ln + "\n" for ln in lines)


def str_form(form, lines):
    if form == "str":
        return "\n".join(lines)
    if form == "str-nl":
        return "".join(ln + "\n" for ln in lines)
    return "\r\n".join(lines)


def mk(old, new, oform, nform, syntax, tag, origin="gen"):
    case = {"old": list(old), "new": list(new), "oform": oform, "nform": nform, "syntax": syntax,
            "opath": f"{SCRATCH}/{tag}-old.cfg", "npath": f"{SCRATCH}/{tag}-new.cfg", "_origin": origin}
    texts = case["old"] + case["new"] + [syntax]
    ok_wire = all(wire.wire_safe(t) and "\t" not in wire.enc_str(t) for t in texts)
    plain = not pair_classes(case) if syntax in SYNTAXES else True
    for form, lines in ((oform, case["old"]), (nform, case["new"])):
        if form in STR_FORMS:
            s = str_form(form, lines)
            if len(s.splitlines()) == 1 and os.path.exists(s):
                plain = False   # would be read as a file: keep it away from the model
    case["plain"] = bool(plain and ok_wire)
    if case["plain"]:
        case["req"] = wire.req("diff", wire.enc_str(syntax),
                               *side_arg(oform, case["old"], case["opath"]),
                               *side_arg(nform, case["new"], case["npath"]))
    else:
        case["req"] = None
    return case


def mk_cli(old, new, method, cli_syntax, missing, tag, origin="gen"):
    """`ccp diff [-m method] [-s cli_syntax] OLDFILE NEWFILE`; missing = None / 0 / 1: that file does not exist"""
    syntax = cli_syntax if cli_syntax is not None else "ios"
    case = {"cli": True, "old": list(old), "new": list(new), "oform": "path", "nform": "path", "syntax": syntax,
            "method": method, "cli_syntax": cli_syntax, "missing": missing,
            "opath": f"{SCRATCH}/{tag}-old.cfg", "npath": f"{SCRATCH}/{tag}-new.cfg", "_origin": origin}
    texts = case["old"] + case["new"] + [syntax, method or ""]
    ok_wire = all(wire.wire_safe(t) and "\t" not in wire.enc_str(t) for t in texts)
    plain = not pair_classes(case) if syntax in SYNTAXES else True
    for lines in (case["old"], case["new"]):
        c = file_content(lines)
        if len(c.splitlines()) == 1 and os.path.exists(c):
            plain = False       # Diff() would take the file's content for the name of another file
    case["plain"] = bool(plain and ok_wire)
    if case["plain"]:
        opt = lambda v: "-" if v is None else wire.enc_str(v)  # noqa: E731
        case["req"] = wire.req("diffcli", opt(method), opt(cli_syntax),
                               wire.enc_str(case["opath"]), "-" if missing == 0 else wire.enc_str(file_content(case["old"])),
                               wire.enc_str(case["npath"]), "-" if missing == 1 else wire.enc_str(file_content(case["new"])))
    else:
        case["req"] = None
    return case


def from_corpus(c):
    if c.get("cli"):
        return mk_cli(c["old"], c["new"], c.get("method"), c.get("cli_syntax"), c.get("missing"),
                      "corpus-%08x" % (hash(json.dumps(c, sort_keys=True)) & 0xFFFFFFFF), "corpus")
    return mk(c["old"], c["new"], c.get("oform", "list"), c.get("nform", "list"), c.get("syntax", "ios"),
              "corpus-%08x" % (hash(json.dumps(c, sort_keys=True)) & 0xFFFFFFFF), "corpus")


def gen_cli(rng, tag, outside):
    old, new = gen_pair(rng, 0.25 if outside else 0.0)
    method = rng.choice([None, "diff", "rollback", "rollback"])
    cli_syntax = rng.choice([None, None, "ios"] + SYNTAXES)
    missing = None
    r = rng.random()
    if r < 0.04:
        method = rng.choice(["undo", "", "Diff", "rollback ", "diff,rollback"])
    elif r < 0.08:
        cli_syntax = rng.choice(["", "IOS", "foo", "ios ", "nxos2"])
    elif r < 0.12:
        missing = rng.choice([0, 1])
    return mk_cli(old, new, method, cli_syntax, missing, tag)


def cases(rng, tier):
    n = {"quick": 2500, "thorough": 40000, "search": 3000}[tier]
    tagbase = "%012x" % rng.getrandbits(48)
    if tier != "search":
        for k, (m, sy, miss) in enumerate([(None, None, None), ("diff", "ios", None), ("rollback", "nxos", None),
                                           ("rollback", None, None), ("undo", None, None), (None, "foo", None),
                                           (None, None, 0), ("rollback", "asa", 1)]):
            yield mk_cli(["hostname A", "interface Gi0/1", " mtu 1500"], ["hostname B", "interface Gi0/1", " mtu 9000"],
                         m, sy, miss, f"{tagbase}-cli{k}")
    for i in range(n // 10):
        yield gen_cli(rng, f"{tagbase}-c{i}", outside=(i % 4 == 3))
    for i in range(n):
        tag = f"{tagbase}-{i}"
        outside = (i % 4 == 3)
        old, new = gen_pair(rng, 0.25 if outside else 0.0)
        syntax = rng.choice(["ios"] * 6 + ["asa", "junos", "nxos", "iosxr"]) if not outside else rng.choice(["ios"] * 8 + SYNTAXES)
        oform, nform = pick_form(rng, old), pick_form(rng, new)
        r = rng.random()
        if r < 0.01:
            oform = "other"
        elif r < 0.02:
            nform = "other"
        if rng.random() < 0.015:
            syntax = rng.choice(["", "IOS", "foo", "ios ", "nxos2"])
        yield mk(old, new, oform, nform, syntax, tag)


def neighbours(case, rng):
    for k in range(300):
        old, new = list(case["old"]), list(case["new"])
        if case.get("cli"):
            side = old if rng.random() < 0.5 else new
            if side:
                del side[rng.randrange(len(side))]
            yield mk_cli(old, new, case["method"], case["cli_syntax"], case["missing"], f"nbc-{os.getpid()}-{k}")
            continue
        side = old if rng.random() < 0.5 else new
        if side and rng.random() < 0.6:
            del side[rng.randrange(len(side))]
        elif side:
            i = rng.randrange(len(side))
            side[i] = rng.choice(["", " ", "  "]) + side[i].lstrip()
        else:
            side.append("w1")
        yield mk(old, new, case["oform"] if old or case["oform"] != "none" else "list",
                 case["nform"] if new or case["nform"] != "none" else "list", case["syntax"], f"nb-{os.getpid()}-{k}")


def nontrivial(case):
    return bool(parse_paths(cfg_lines(case["old"]))) and bool(parse_paths(cfg_lines(case["new"]))) \
        and set(parse_paths(cfg_lines(case["old"]))) != set(parse_paths(cfg_lines(case["new"])))


def describe(case):
    if case.get("cli"):
        return {k: case[k] for k in ("cli", "old", "new", "method", "cli_syntax", "missing", "plain")}
    return {k: case[k] for k in ("old", "new", "oform", "nform", "syntax", "plain")}


def buckets(case, ans):
    out = ["stream:" + ("plain(model+oracle)" if case["plain"] else "outside(oracle only)"),
           ("plain-syntax:" if case["plain"] else "outside-syntax:") + (case["syntax"] if case["syntax"] in SYNTAXES else "<invalid>"),
           "answer:" + (ans.split("|")[0] if ans.startswith("ok") else ans),
           "syntax:" + (case["syntax"] if case["syntax"] in SYNTAXES else "<invalid>"),
           "form-old:" + case["oform"], "form-new:" + case["nform"]]
    if case.get("cli"):
        out.append("cli:-m " + str(case["method"]) if case["method"] in (None, "diff", "rollback") else "cli:-m <invalid>")
        out.append("cli:-s " + str(case["cli_syntax"]) if case["cli_syntax"] in [None] + SYNTAXES else "cli:-s <invalid>")
        if case["missing"] is not None:
            out.append("cli:file-missing")
    po, pn = set(parse_paths(cfg_lines(case["old"]))), set(parse_paths(cfg_lines(case["new"])))
    depth = max([len(p) for p in po | pn] or [1]) - 1
    out.append("max-depth:%d" % min(depth, 4))
    out.append("old-empty" if not po else "old-nonempty")
    out.append("new-empty" if not pn else "new-nonempty")
    if po == pn:
        out.append("same-config")
    if ans.startswith("ok") and case.get("cli") and case["method"] == "rollback":
        po, pn = pn, po
    if ans.startswith("ok"):
        d = wire.dec_strs(ans.split("|")[1])
        out.append("diff-lines:%s" % ("0" if not d else "1-5" if len(d) <= 5 else "6-20" if len(d) <= 20 else ">20"))
        if any(x.lstrip().startswith("no ") for x in d):
            out.append("diff-has-removal")
        if any(not x.lstrip().startswith("no ") for x in d):
            out.append("diff-has-addition")
        removed_sections = [p for p in po - pn if any(q[:len(p)] == p and len(q) > len(p) for q in po)]
        if removed_sections:
            out.append("section-removed-wholesale")
        if {p[-1] for p in po - pn} & {p[-1] for p in pn - po}:
            out.append("line-moved")
    if not case["plain"]:
        for cl in sorted({c for cs in pair_classes(case).values() for c in cs} if case["syntax"] in SYNTAXES else []):
            out.append("outside:" + cl)
    return out


# --------------------------------------------------------------------------- implementation
def _arg(form, lines, path):
    if form == "none":
        return None
    if form == "other":
        return 5
    if form == "list":
        return list(lines)
    if form == "tuple":
        return tuple(lines)
    if form == "path":
        for attempt in range(5):        # another check may be removing the empty scratch dir right now
            try:
                os.makedirs(SCRATCH, exist_ok=True)
                with open(path, "w", newline="") as fh:
                    fh.write(file_content(lines))
                break
            except FileNotFoundError:
                if attempt == 4:
                    raise
        return path
    s = str_form(form, lines)
    assert not (len(s.splitlines()) == 1 and os.path.isfile(s)), "string form names an existing file"
    return s


def _run(Diff, o, n, syntax):
    try:
        d = Diff(o, n, syntax)
        return [d.get_diff(), d.get_rollback()]
    except ValueError:
        return "err:ValueError"
    except NotImplementedError:
        return "err:NotImplementedError"
    except Exception as e:      # e.g. hier_config's AssertionError "we are still in a banner" (outside the fragment)
        return "err:" + type(e).__name__


def _real_path(path):
    """The file actually written: one of two fixed names per worker process, so that the SAME path is read again
    and again with different contents within one process (a reader that caches by path name would serve stale
    text). The unique name in the case is what the model is told; the path string itself never influences a diff."""
    import zlib
    side = "old" if path.endswith("-old.cfg") else "new"
    return f"{SCRATCH}/w{os.getpid()}-{zlib.crc32(path.encode()) % 2}-{side}.cfg"


def run_cli(argv):
    """`ccp <argv>` in this process through the real entry point; answer = the lines of CliApplication.stdout"""
    import contextlib
    import io
    import shlex
    import sys
    quiet_ccp()
    from ciscoconfparse2.cli_script import ccp_script_entry
    cmd = "ccp_faked " + " ".join(shlex.quote(a) for a in argv)
    saved_argv = sys.argv
    try:
        with contextlib.redirect_stdout(io.StringIO()), contextlib.redirect_stderr(io.StringIO()):
            app = ccp_script_entry(cmd)
        return "ok|" + wire.enc_strs(app.stdout)
    except SystemExit:
        return "err:SystemExit"
    except Exception as e:  # noqa: BLE001 - the class is the observation
        return "err:" + type(e).__name__
    finally:
        sys.argv = saved_argv


def impl_cli(case):
    opath, npath = _real_path(case["opath"]), _real_path(case["npath"])
    made = []
    try:
        for k, (lines, path) in enumerate(((case["old"], opath), (case["new"], npath))):
            if case["missing"] == k:
                try:
                    os.remove(path)
                except OSError:
                    pass
                continue
            _arg("path", lines, path)
            made.append(path)
        argv = ["diff"]
        if case["method"] is not None:
            argv += ["-m", case["method"]]
        if case["cli_syntax"] is not None:
            argv += ["-s", case["cli_syntax"]]
        return run_cli(argv + [opath, npath])
    finally:
        for p in made:
            try:
                os.remove(p)
            except OSError:
                pass


def impl(case):
    if case.get("cli"):
        return impl_cli(case)
    ccp = quiet_ccp()
    Diff = ccp.Diff
    made = []
    try:
        opath, npath = _real_path(case["opath"]), _real_path(case["npath"])
        o = _arg(case["oform"], case["old"], opath)
        n = _arg(case["nform"], case["new"], npath)
        made = [p for f, p in ((case["oform"], opath), (case["nform"], npath)) if f == "path"]
        first = _run(Diff, o, n, case["syntax"])
        if isinstance(first, str):
            return first
        swapped = _run(Diff, n, o, case["syntax"])
        canon = _run(Diff, list(case["old"]), list(case["new"]), case["syntax"])
        fields = ["ok", wire.enc_strs(first[0]), wire.enc_strs(first[1])]
        for extra in (swapped, canon):
            if isinstance(extra, str):
                fields += [extra, extra]
            else:
                fields += [wire.enc_strs(extra[0]), wire.enc_strs(extra[1])]
        return "|".join(fields)
    finally:
        for p in made:
            try:
                os.remove(p)
            except OSError:
                pass


def _cleanup():
    """the scratch directory is removed when the check ends (files are removed case by case)"""
    try:
        os.rmdir(SCRATCH)
    except OSError:
        pass


atexit.register(_cleanup)


def compare(case, impl_ans, model_ans):
    return impl_ans.split("|")[:3] == model_ans.split("|")[:3]


# --------------------------------------------------------------------------- oracle (never calls the model)
def apply_cmds(cmd_lines, paths):
    """Apply a diff to a set of hierarchical lines: a command is the diff line with its ancestor path;
    `no X` removes the line X under those ancestors with everything below it, anything else adds the line."""
    cur = set(paths)
    for cmd in parse_paths(cmd_lines):
        last = cmd[-1]
        if last.startswith("no "):
            tgt = cmd[:-1] + (last[3:],)
            cur = {q for q in cur if q[:len(tgt)] != tgt}
        else:
            cur.add(cmd)
    return cur


def _fail(kind, **data):
    return kind + " :: " + json.dumps(data, sort_keys=True)


def check_transform(name, cmds, src, dst):
    fails = []
    got = apply_cmds(cmds, src)
    if got != dst:
        fails.append(_fail(name + ": applying the commands does not give the target config",
                           missing=sorted(dst - got)[:6], extra=sorted(got - dst)[:6]))
    paths = parse_paths(cmds)
    for i, cmd in enumerate(paths):
        last = cmd[-1]
        if last.startswith("no "):
            tgt = cmd[:-1] + (last[3:],)
            if tgt not in src:
                fails.append(_fail(name + ": removal names a line absent from the source", line=[tgt]))
            elif tgt in dst:
                fails.append(_fail(name + ": removal names a line present in the target", line=[tgt]))
        else:
            header = i + 1 < len(paths) and paths[i + 1][:len(cmd)] == cmd and len(paths[i + 1]) > len(cmd)
            if cmd in src and not header:
                fails.append(_fail(name + ": added command already present in the source", line=[cmd]))
            if cmd not in dst:
                fails.append(_fail(name + ": added command absent from the target", line=[cmd]))
    return fails


def oracle_cli(case, ans):
    """what `ccp diff` prints must itself transform the one file's config into the other's (judged on the printed
    lines, not by asking the API); options outside the documented choices and missing files must not print anything"""
    if case["method"] not in (None, "diff", "rollback") or case["cli_syntax"] not in [None] + SYNTAXES:
        return [] if ans == "err:SystemExit" else [_fail("invalid -m / -s not rejected by the argument parser", got=ans[:40])]
    if case["missing"] is not None:
        return [] if ans.startswith("err:") else [_fail("a missing file did not raise", got=ans[:40])]
    if not ans.startswith("ok|"):
        return [_fail("valid input rejected", got=ans[:60])]
    lines = wire.dec_strs(ans.split("|")[1])
    po = set(parse_paths(cfg_lines(case["old"])))
    pn = set(parse_paths(cfg_lines(case["new"])))
    if case["method"] == "rollback":
        fails = check_transform("rollback", lines, pn, po)
    else:
        fails = check_transform("diff", lines, po, pn)
    if po == pn and lines:
        cmds = parse_paths(lines)
        # name the commands themselves, not the section headers printed above them
        leaves = [c for i, c in enumerate(cmds) if not (i + 1 < len(cmds) and cmds[i + 1][:len(c)] == c and len(cmds[i + 1]) > len(c))]
        fails.append(_fail("same configuration but the diff is not empty", line=leaves[:4]))
    return fails[:4]


def oracle(case, ans):
    if case.get("cli"):
        return oracle_cli(case, ans)
    bad_type = case["oform"] == "other" or case["nform"] == "other"
    if bad_type:
        return [] if ans == "err:ValueError" else [_fail("ill-typed config not rejected with ValueError", got=ans[:40])]
    if case["syntax"] not in SYNTAXES:
        return [] if ans == "err:NotImplementedError" else [_fail("unknown syntax not rejected with NotImplementedError", got=ans[:40])]
    if not ans.startswith("ok|"):
        return [_fail("valid input rejected", got=ans[:60])]
    f = ans.split("|")
    if f[3].startswith("err") or f[5].startswith("err"):
        return [_fail("same configs rejected in another input form / order", got=[f[3][:30], f[5][:30]])]
    d, r, sd, _sr, ld, lr = (wire.dec_strs(x) for x in f[1:7])
    po = set(parse_paths(cfg_lines(case["old"])))
    pn = set(parse_paths(cfg_lines(case["new"])))
    fails = check_transform("diff", d, po, pn) + check_transform("rollback", r, pn, po)
    if po == pn and (d or r):
        fails.append(_fail("same configuration but the diff is not empty", line=parse_paths(d + r)[:4]))
    if r != sd:
        fails.append(_fail("rollback(old,new) differs from diff(new,old)", rollback=r[:6], reverse=sd[:6]))
    if d != ld or r != lr:
        fails.append(_fail("input forms disagree", forms=[case["oform"], case["nform"]], got=d[:6], list_form=ld[:6]))
    return fails[:4]


# --------------------------------------------------------------------------- known findings
CLASS_TO_ID = [
    ("negated", "F15a"),
    ("idempotent_commands", "F15b"), ("idempotent_commands_blacklist", "F15b"),
    ("per_line_sub", "F15c"),
    ("banner", "F15d"),
    ("acl", "F15e"),
    ("ordering", "F15f"), ("sectional_exiting", "F15f"), ("sectional_overwrite", "F15f"),
    ("sectional_overwrite_no_negate", "F15f"), ("negation_default_when", "F15f"), ("negation_negate_with", "F15f"),
    ("parent_allows_duplicate_child", "F15f"), ("indent_adjust", "F15f"), ("default", "F15f"),
]


def _acl_key(text):
    """ACL entries are renumbered by hier_config: compare them without `N ` / `sequence N `"""
    return re.sub(r"^(sequence )?\d+ ", "", text)


def known_id(case, failure):
    """A failure is a known finding only when every hierarchical line it names is explained by a line of
    the input that lies outside the plain fragment: the named line (some text of it, its negation or
    un-negated form) is that excluded line or lies below it, where hier_config's dropping / merging /
    renumbering of the excluded line disturbs it.  Anything else is reported as a violation."""
    if case.get("plain") or " :: " not in failure or case["syntax"] not in SYNTAXES:
        return None
    try:
        data = json.loads(failure.split(" :: ", 1)[1])
    except ValueError:
        return None
    frag = fragment(HOST_OS[case["syntax"]])
    sh = shadows(frag, cfg_lines(case["old"])) + shadows(frag, cfg_lines(case["new"]))
    if failure.startswith("valid input rejected") and "AssertionError" in str(data.get("got")):
        # hier_config asserts when a banner block is not closed by its delimiter
        return "F15d" if any("banner" in c for c, _ in sh) else None
    named = []
    for key in ("missing", "extra", "line"):
        named += [tuple(p) for p in data.get(key, [])]
    if not named:
        return None
    order = [fid for _, fid in CLASS_TO_ID]
    ids = set()
    for p in named:
        variants = set(p) | {"no " + p[-1]} | ({p[-1][3:]} if p[-1].startswith("no ") else set())
        found = None
        for cls, fid in CLASS_TO_ID:
            for classes, texts in sh:
                if cls not in classes:
                    continue
                if variants & texts or (cls == "acl" and {_acl_key(v) for v in variants} & {_acl_key(t) for t in texts}) \
                        or (cls == "banner" and any(v.startswith(t) for v in variants for t in texts if t.startswith("banner "))):
                    # (a banner block is merged by hier_config into one multi-line text that starts with its first line)
                    found = fid
                    break
            if found:
                break
        if found is None:
            return None          # a named line that no excluded line explains: report it
        ids.add(found)
    return sorted(ids, key=order.index)[0]
