"""C04 — searches return exactly the matching lines, ordered and de-duplicated."""
import re

import wire
from props import treelib as T
from props.common import quiet_ccp

ID = "C04"
LEAN_MODULES = ["Ccp.Props.C04", "Ccp.Props.RxC04"]
# bound of the escalated quick run (source fingerprint changed -> thorough generator): keeps that run near two minutes
ESCALATE_MAX_CASES = 120000
RULE = ("configs: random trees (depth <= 4, fan-out <= 4, at most ~40 lines, indentation step 1/2/4) over a small per-config text pool so that "
        "duplicate texts occur under one and under several parents, texts that are prefixes of others (Eth1/Eth10, a/ab/abc, vlan 10/100), "
        "whitespace variants (two blanks, tab), texts containing ^ $ | ( . * + [ \\, comment lines, blank lines, banner blocks with '' body "
        "lines, plus C01's line-soup generator; x syntax x ignore_blank_lines x comment delimiters. Per config ~12 queries: "
        "find_objects (str and list form), find_object_branches, find_parent_objects / find_child_objects (list form of 0..4 regexes and "
        "two-argument form), find_parent_objects_wo_child (two-argument and list form), CiscoConfParse.re_search_children, "
        "BaseCfgLine.has_child_with on every line; regex chains of length 1-4 drawn from an actual chain of the tree (75%) or at random: "
        "substrings, ^prefix, suffix$, whole line, a|b, (a)b, (?:a|b)c, \\s+ for blanks, never-matching, empty leftmost match (a*, '', ^, $, ^$, x?); "
        "flags cross product exactmatch x ignore_ws x escape_chars x reverse x recurse x empty_branches (each where the API accepts it). "
        "Oracle rows are computed with Python's re on the kept line texts using the property's reading of the flags (fullmatch / whitespace runs -> \\s+ / "
        "literal text / literal text with tolerant whitespace runs for escape_chars+ignore_ws), for every calling form. Not sent to the model (implementation and "
        "oracle still run): the wo-child list form when the second character of p is not a valid expression (re.error, F07). "
        "regex_flags is not generated (not one of the property's flags). "
        "ARGUMENT-FORM STREAMS (2 more queries per config, channel searchf, model Ccp.SearchForms): every expression may be written as a compiled "
        "re.Pattern (a third of those queries compile with re.IGNORECASE and write the expression in upper case, so the flags of the Pattern must "
        "survive wherever the code re-compiles it, e.g. exactmatch: the repair of finding FC04e), as a BaseCfgLine of this parse or a foreign one (linenum, text), be omitted (None) or ill-typed (int); list arguments also as a "
        "tuple, lists of the wrong length / mixed element kinds; find_object_branches(regex_groups=True) with capture-group expressions "
        "((p), (p)|(zz) with a non-participating group, (\\S+)\\s*(\\S*)) x empty_branches x reverse; BaseCfgLine.re_search and "
        "BaseCfgLine.re_search_children called on every line; and ~25% of these queries are asked while an uncommitted ConfigList.insert() is "
        "pending (auto_commit=False): every API must refuse (NotImplementedError, or the error of an argument check that precedes the guard). "
        "The exception class of every rejection is compared with the model (ValueError, TypeError, IndexError, InvalidParameters, "
        "NotImplementedError, typeguard's TypeCheckError where the first element decides). The oracle judges compiled patterns like the str (under the Pattern's flags; with exactmatch the "
        "whole-line reading -- before the repair of FC04e the code formatted the repr of the Pattern and matched nothing), "
        "tuples like lists, regex_groups rows against the brute-force chains (complete chains only unless empty_branches: the repair of FC04f), and the refusal while pending; for BaseCfgLine / missing / ill-typed "
        "arguments the property does not say which lines are right (only: sorted, unique, lines of the config) and the answer is compared with the model only. "
        "Half of all cases leave the keyword arguments that sit at their documented default (recurse / all_children / empty_branches / reverse) "
        "out of the call, so the defaults of the signatures are observed as well. "
        "non-trivial = the config has a child line and the answer is a non-empty list; distinct by request.")
LEVEL_TEXT = ("Theorems (Lean 4, all trees, all oracle rows): find_objects = ascending list of matching lines (reversed on request, duplicate free, in range); "
              "find_object_branches without empty branches = the lexicographically ordered list of all chains of direct parent->child lines matching "
              "regex i at depth i, and with empty branches = the maximal partial chains padded with None; list forms of find_parent/find_child = ascending "
              "duplicate-free first/last components of the chains; two-argument forms and 'parents without child' = exactly the matching parents having "
              "some/no matching direct (recurse=False) or any-depth (recurse=True, under the forest invariant parent <= line) child; list form of length 2 = "
              "two-argument form at recurse=False for either value of reverse and any flag reading of the rows; has_child_with = some matching direct/any-depth child. "
              "Argument handling (Ccp.SearchForms, all arguments and flags): with str arguments and nothing pending it adds nothing (forms_str_agree); a compiled re.Pattern answers like the str "
              "with the same row wherever accepted and is otherwise refused, never mis-read (pattern_form_agrees / pattern_form_refused); a tuple answers like the list (tuple_form_agrees); a BaseCfgLine "
              "parentspec is read as its text, find_objects(obj) returns exactly the line equal to obj (line_as_parentspec, findObjects_line_spec); while an insert is pending no API answers "
              "(pending_refused); obj.re_search / obj.re_search_children = the row / the matching direct or any-depth children (objSearch_spec); regex_groups=True = one row of tuple cells per complete chain "
              "(empty_branches=False) or per maximal partial chain (empty_branches=True), capture groups or the line itself per cell (branches_groups, full statement; it was "
              "branches_groups_partial -- padded rows for either flag value -- before finding FC04f was repaired in /repo). "
              "The model is tied to the code by differential runs (tree dump and answer of every query compared).")
LEVEL_NOTE = ("Trusted: Lean kernel, standard axioms, the harness. Python's re is an oracle parameter (rows), universally quantified in the theorems and computed with re "
              "directly in the runs. The tree model is shared with C01-C03; the forest invariant is a hypothesis here (proved for parse by C03).")
LEVEL_NOTE += (" " + "regexes_as_modelled (Ccp.RxC04): the templates behind the flag readings of the oracle rows (re.sub(r'\\s+', <backslash backslash s+>) of build_space_tolerant_regex, re.sub(r'\\\\(\\s)', r'\\1', re.escape(..)) of escape_linespec, '^(?:%s)$' of _find_line_OBJ) are re-read from /repo's AST on every run and proved equal to the ones the TRUSTED flag reading was written for.")
LEVEL_NOTE += (" Scan sets as revised: regexes_as_modelled ties the regex-engine calls with the pattern in canonical form (canonical verbose form without the flag, group names and redundant escapes removed, per-value specialisation of a pattern passed to a same-file helper or built from a name that ranges over a constant collection, always-true searches left out), flags, re.sub replacements and the separator arguments of str.split/join/replace/strip; the literal tests (\"lit\" in x, == against string literals and their subscripts, startswith) are informational definitions Gen.rx...Info, no theorem is about them.")
ASSUMPTIONS = ["regular expressions compile; lines contain no line break (so '^(?:p)$' with search is fullmatch)",
               "no 64-bit hash collision between distinct (linenum, text) pairs (set de-duplication after F03)",
               "regex_flags=0",
               "typeguard's collection check looks at the first element only (its default strategy), as observed on the pinned version"]
TRUSTED = ["flag readings used for the oracle rows: exactmatch=fullmatch, ignore_ws=whitespace runs of the pattern become \\s+, escape_chars=literal text"]
EXHAUSTIVE = {"quick": False, "thorough": False}

APIS = ["fo", "fol", "br", "pl", "cl", "p2", "c2", "w2", "wl", "rc", "hc", "os", "oc"]
API_NAME = {
    "fo": "find_objects", "fol": "find_objects[list]", "br": "find_object_branches", "pl": "find_parent_objects[list]",
    "cl": "find_child_objects[list]", "p2": "find_parent_objects", "c2": "find_child_objects", "w2": "find_parent_objects_wo_child",
    "wl": "find_parent_objects_wo_child[list]", "rc": "CiscoConfParse.re_search_children", "hc": "has_child_with",
    "os": "BaseCfgLine.re_search", "oc": "BaseCfgLine.re_search_children",
}
# which flags an API accepts
ACCEPTS = {
    "fo": "awxr", "fol": "awxr", "br": "egr", "pl": "wxr", "cl": "wxr", "p2": "wxrc", "c2": "wxrc", "w2": "wxrc", "wl": "wxrc",
    "rc": "c", "hc": "c", "os": "", "oc": "c",
}   # a exactmatch, w ignore_ws, x escape_chars, r reverse, c recurse/all_children, e empty_branches, g regex_groups

POOL = [
    "interface Eth1", "interface Eth10", "interface Eth1/1", "ip address 1.1.1.1 255.0.0.0", "ip  address 1.1.1.1 255.0.0.0",
    "ip\taddress 1.1.1.1 255.0.0.0", "shutdown", "no shutdown", "a", "ab", "abc", "b", "ba", "a b", "a  b", "x(y", "a.b", "axb",
    "a|b", "^a", "a$", "$", "^", "(", "x { y }", "vlan 10", "vlan 100", "vlan 10,100", "description ^C x", "router bgp 1",
    "neighbor 1.1.1.1 remote-as 1", "été", "end", "[z]", "a*", "a+b", "a\\b", "aa", "switchport", "switchport mode trunk",
]


# ------------------------------------------------------------------ flag readings (the property's, computed with `re` only)
def ws_pattern(p):
    return re.sub(r"\s+", lambda m: r"\s+", p)


def reading(p, flags, icase=False):
    """-> predicate text -> bool for expression p under the flags of the request (icase: p stands for
    re.compile(p, re.IGNORECASE); a compiled expression is never escaped)"""
    exact, ws, esc = "a" in flags, "w" in flags, "x" in flags
    if esc and not ws:
        return (lambda t: t == p) if exact else (lambda t: p in t)
    if esc and ws:
        rx = r"\s+".join(re.escape(part) for part in re.split(r"\s+", p))
    elif ws:
        rx = ws_pattern(p)
    else:
        rx = p
    cre = re.compile(rx, re.IGNORECASE if icase else 0)
    if exact:
        return lambda t: cre.fullmatch(t) is not None
    return lambda t: cre.search(t) is not None


def row_of(p, flags, texts, icase=False):
    f = reading(p, flags, icase)
    return [bool(f(t)) for t in texts]


def enc_row(r):
    return "b" + "".join("1" if x else "0" for x in r)


def compiles(p):
    try:
        re.compile(p)
        return True
    except (re.error, RecursionError, OverflowError):
        return False


def has_ws(p):
    return re.search(r"\s", p) is not None


# ------------------------------------------------------------------ cases
def mk(cfg, q, origin="gen"):
    """cfg = dict(syntax, ignore_blank, delims, lines); q = dict(api, pats, flags)"""
    if is_form(q):
        return mkf(cfg, q, origin)
    api, pats, flags = q["api"], list(q["pats"]), "".join(sorted(set(q["flags"]) & set(ACCEPTS[q["api"]])))
    case = {
        "syntax": cfg["syntax"], "factory": False, "ignore_blank": bool(cfg["ignore_blank"]), "delims": cfg["delims"],
        "lines": list(cfg["lines"]), "api": api, "pats": pats, "flags": flags, "_origin": origin, "req": None,
    }
    lines = case["lines"]
    if not all(wire.wire_safe(l) for l in lines):
        return case
    kept = T.ref_kept(lines, cfg["syntax"] == "ios", case["ignore_blank"])
    # rows: the flag reading of the request applied to every expression
    rflags = flags
    if api in ("rc", "hc", "br"):
        rflags = ""
    p1 = "-"
    if api == "wl" and len(pats) == 2 and len(pats[0]) >= 2:
        c_eff = pats[0][1]                       # F07: the expression the code really uses for the child
        if "x" not in flags and not compiles(ws_pattern(c_eff) if "w" in flags else c_eff):
            return case                          # re.error: not sent to the model
    rows = [row_of(p, rflags, kept) for p in pats]
    if api == "wl" and len(pats) == 2 and len(pats[0]) >= 2:
        p1 = enc_row(row_of(pats[0][1], rflags, kept))
    mflags = "".join(c for c in flags if c in "rce")
    ds = T.cfg_delims(cfg["syntax"], cfg["delims"])
    case["req"] = wire.req(
        "search", "1" if cfg["syntax"] == "ios" else "0", wire.enc_str("".join(ds)), "1" if case["ignore_blank"] else "0",
        wire.enc_strs(lines), api, mflags, " ".join(enc_row(r) for r in rows), p1)
    return case


# ------------------------------------------------------------------ other spellings of the arguments (channel `searchf`)
# kinds: s str, p re.compile(..), o a BaseCfgLine, n None (argument omitted), i an int
LIST_APIS = ("fol", "br", "pl", "cl", "wl")
MODEL_OP = {"fol": "fo", "cl": "c2", "wl": "w2"}
FORM_KEYS = ("kinds", "tuple", "pend", "onum", "icase")


def kinds_of(case):
    return case.get("kinds") or "s" * len(case["pats"])


def is_form(case):
    return bool(case.get("tuple") or case.get("pend") or set(kinds_of(case)) - {"s"} or case["api"] in ("os", "oc")
                or (case["api"] == "br" and "g" in case.get("flags", "")))


def split_args(case):
    """-> (shape, [(kind, pat)] of the first argument, (kind, pat) of childspec or None)"""
    api, pats, kinds = case["api"], case["pats"], kinds_of(case)
    items = list(zip(kinds, pats))
    if api in LIST_APIS:
        return ("t" if case.get("tuple") else "l"), items, None
    if api in ("fo", "rc", "hc", "os", "oc"):
        return "1", items[:1], None
    if case.get("tuple"):                        # w2 / c2 with a tuple as parentspec and a childspec
        return "t", items[:-1], items[-1]
    return "1", items[:1], items[1]


def code_expr(kind, pat, flags, api):
    """the expression the CODE ends up evaluating for one argument (None: it never evaluates one)"""
    if kind == "s":
        return None                              # the flag reading (after FC04a-d the code's composition is the property's)
    if kind == "p":
        if "a" in flags and api in ("fo", "fol"):
            # _find_line_OBJ formats the expression text of the Pattern and keeps its flags (before the repair of FC04e it
            # formatted the Pattern object itself: "^(?:%s)$" % re.compile(pat))
            return "^(?:%s)$" % pat
        return pat
    if kind == "o" and api in ("c2", "w2"):       # elsewhere a BaseCfgLine is compared, not evaluated
        return ws_pattern(pat) if "w" in flags else pat
    return None


def mkf(cfg, q, origin="gen"):
    """q = dict(api, pats, kinds, flags[, tuple, pend, onum]) -> a case for the `searchf` channel"""
    api, pats = q["api"], list(q["pats"])
    kinds = q.get("kinds") or "s" * len(pats)
    kinds = "".join("s" if k == "p" and not compiles(p) else k for k, p in zip(kinds, pats))
    flags = "".join(sorted(set(q["flags"]) & set(ACCEPTS[api])))
    case = {
        "syntax": cfg["syntax"], "factory": False, "ignore_blank": bool(cfg["ignore_blank"]), "delims": cfg["delims"],
        "lines": list(cfg["lines"]), "api": api, "pats": pats, "flags": flags, "_origin": origin, "req": None,
        "kinds": kinds, "tuple": bool(q.get("tuple")), "pend": bool(q.get("pend")), "onum": int(q.get("onum") or 0),
    }
    if q.get("icase") and "p" in kinds:
        case["icase"] = True                     # every compiled expression of the query is re.compile(p, re.IGNORECASE)
    if case["pend"]:
        case["auto_commit"] = False
        case["pend_at"] = int(q.get("pend_at") or 0)
        case["pend_text"] = q.get("pend_text", " zz")
    lines = case["lines"]
    if not all(wire.wire_safe(l) for l in lines) or not all(wire.wire_safe(p) for p in pats):
        return case
    kept = T.ref_kept(lines, cfg["syntax"] == "ios", case["ignore_blank"])
    rflags = "" if api in ("rc", "hc", "br", "os", "oc") else flags
    shape, first, child = split_args(case)
    rows = []
    try:
        for kind, pat in first + ([child] if child else []):
            ce = code_expr(kind, pat, rflags, api)
            if kind == "s":
                rows.append(row_of(pat, rflags, kept))
            elif ce is None:
                rows.append([False] * len(kept))
            else:
                cre = re.compile(ce, re.IGNORECASE if (kind == "p" and case.get("icase")) else 0)
                rows.append([cre.search(t) is not None for t in kept])
    except (re.error, RecursionError, OverflowError):
        return case                              # the code raises re.error: not sent to the model
    p1 = "-"
    if api == "wl" and len(pats) == 2 and kinds[0] == "s" and len(pats[0]) >= 2:
        c_eff = pats[0][1]
        if "x" not in flags and not compiles(ws_pattern(c_eff) if "w" in flags else c_eff):
            return case
        p1 = enc_row(row_of(c_eff, rflags, kept))
    mflags = "".join(c for c in flags if c in "awxrce") + ("u" if case["pend"] else "")
    ds = T.cfg_delims(cfg["syntax"], cfg["delims"])
    if api == "br" and "g" in flags:
        if set(kinds) - {"s"}:
            return case
        table = []
        for pat in pats:
            cre = re.compile(pat)
            ent = []
            for t in kept:
                m = cre.search(t)
                ent.append("x" if m is None else "g" + ",".join("-" if x is None else wire.enc_str(x) for x in m.groups()))
            table.append("G" + ";".join(ent))
        case["req"] = wire.req(
            "searchf", "1" if cfg["syntax"] == "ios" else "0", wire.enc_str("".join(ds)), "1" if case["ignore_blank"] else "0",
            wire.enc_strs(lines), "brg", mflags, " ".join(enc_row(r) for r in rows), " ".join(table) if table else "-")
        return case
    otext = next((p for k, p in first if k == "o"), "")
    case["req"] = wire.req(
        "searchf", "1" if cfg["syntax"] == "ios" else "0", wire.enc_str("".join(ds)), "1" if case["ignore_blank"] else "0",
        wire.enc_strs(lines), MODEL_OP.get(api, api), mflags, shape + "".join(k for k, _ in first),
        child[0] if child else "-", " ".join(enc_row(r) for r in rows), p1, str(case["onum"]), wire.enc_str(otext))
    return case


def from_corpus(c):
    cfg = {"syntax": c.get("syntax", "ios"), "ignore_blank": c.get("ignore_blank", False), "delims": c.get("delims"), "lines": c["lines"]}
    q = {"api": c["api"], "pats": c["pats"], "flags": c.get("flags", "")}
    for k in FORM_KEYS + ("pend_at", "pend_text"):
        if k in c:
            q[k] = c[k]
    return mk(cfg, q, "corpus")


def rand_tree_lines(rng, delims):
    pool = rng.sample(POOL, rng.choice([3, 4, 5, 6, 8]))
    if rng.random() < 0.5:
        pool.append(rng.choice(pool))
    lines = []
    cdel = (delims if delims else ["!"])[0] if delims != [] else "!"
    step = rng.choice([1, 1, 2, 4])

    def emit(depth, indent):
        if len(lines) > 40:
            return
        lines.append(" " * indent + rng.choice(pool))
        if depth >= 4:
            return
        k = rng.choice([[0, 1, 2, 2, 3, 4], [0, 0, 1, 1, 2, 3], [0, 0, 0, 1, 2, 4], [0, 0, 0, 1, 1, 2]][depth - 1])
        for _ in range(k):
            r = rng.random()
            if r < 0.08:
                lines.append(" " * (indent + step) + cdel + rng.choice(["", " a", " " + rng.choice(pool)]))
            elif r < 0.11:
                lines.append(rng.choice(["", " " * (indent + step)]))
            emit(depth + 1, indent + step)

    for _ in range(rng.choice([1, 2, 2, 3, 4])):
        r = rng.random()
        if r < 0.1:
            lines.append(cdel + rng.choice(["", " a"]))
        elif r < 0.25:
            lines += T.rand_banner_block(rng, delims)
        elif r < 0.29:
            lines.append("")
        emit(1, 0)
    return lines


def esc_lit(s):
    """escape the regex metacharacters of s but leave whitespace alone"""
    return "".join("\\" + c if c in r".^$*+?{}[]\|()" else c for c in s)


NEVER = ["zzz", "$^x", "(?!)", "a^", "interface Eth2"]
EMPTY_MATCH = ["a*", "", "^", "$", "^$", "x?", r"\s*", "(a|)", "b*?"]


def rand_sub(rng, text):
    if not text:
        return ""
    i = rng.randrange(len(text))
    j = rng.randrange(i, len(text)) + 1
    return text[i:j]


def rand_pattern(rng, texts, anchor=None, literal=False):
    """a regular expression (or, for escape_chars, a literal); `anchor` = a line it should preferably match"""
    src = anchor if anchor is not None and rng.random() < 0.8 else (rng.choice(texts) if texts else "a")
    if literal:
        k = rng.random()
        if k < 0.35:
            return rand_sub(rng, src)
        if k < 0.55:
            return src
        if k < 0.7:
            return src.strip()
        if k < 0.8:
            return re.sub(r"\s+", " ", src.strip())
        if k < 0.9:
            return rng.choice(["", "(", "a|b", "^a", "$", "zzz", "a b"])
        return rand_sub(rng, src) + rng.choice(["x", " "])
    for _ in range(20):
        k = rng.random()
        s = src.strip()
        if k < 0.18:
            p = esc_lit(rand_sub(rng, src))
        elif k < 0.26:
            p = rand_sub(rng, src)               # raw, metacharacters live
        elif k < 0.36:
            p = "^" + esc_lit(src[: rng.randrange(len(src) + 1)])
        elif k < 0.42:
            p = "^" + rng.choice(["", r"\s*", r"\s+"]) + esc_lit(s[: max(1, rng.randrange(len(s) + 1))])
        elif k < 0.50:
            p = esc_lit(src[rng.randrange(len(src) + 1):]) + "$"
        elif k < 0.56:
            p = rng.choice(["^", ""]) + esc_lit(src) + rng.choice(["$", ""])
        elif k < 0.66:
            other = rng.choice(texts) if texts else "b"
            p = esc_lit(rand_sub(rng, src)) + "|" + esc_lit(rand_sub(rng, other))
        elif k < 0.72:
            a, b = rand_sub(rng, s), rand_sub(rng, s)
            p = rng.choice(["(%s)%s", "(?:%s|%s)", "(%s|%s)$", "^(%s)|%s", "(%s).*(%s)"]) .replace("%s", "{}").format(esc_lit(a), esc_lit(b))
        elif k < 0.80:
            p = re.sub(r"\s+", lambda m: r"\s+", esc_lit(rng.choice([s, src, rand_sub(rng, src)])))
        elif k < 0.86:
            p = rng.choice(NEVER)
        elif k < 0.94:
            p = rng.choice(EMPTY_MATCH)
        else:
            p = rng.choice([".", ".*", r"\S", r"\d+", "[a-z]+", r"\w+\s\w+", "^ ", "^  ", "^[^ ]"])
        if compiles(p):
            return p
    return "a"


def ref_children(kept, delims):
    par = T.ref_parents(kept, delims)
    ch = [[] for _ in kept]
    for i, p in enumerate(par):
        if p != i:
            ch[p].append(i)
    return par, ch


def rand_chain(rng, ch, n):
    """indices of a random downward path of length <= n"""
    if not ch:
        return []
    starts = [i for i in range(len(ch)) if ch[i]] or list(range(len(ch)))
    cur = rng.choice(starts)
    out = [cur]
    while len(out) < n and ch[cur]:
        cur = rng.choice(ch[cur])
        out.append(cur)
    return out


def rand_flags(rng, api):
    fl = ""
    for c in ACCEPTS[api]:
        p = {"a": 0.25, "w": 0.25, "x": 0.2, "r": 0.3, "c": 0.5, "e": 0.5, "g": 0.3}[c]
        if rng.random() < p:
            fl += c
    return fl


def rand_query(rng, cfg, kept, ch, api=None):
    api = api or rng.choice(["fo", "fo", "fol", "br", "br", "br", "pl", "pl", "cl", "cl", "p2", "p2", "c2", "c2", "w2", "w2", "wl", "rc", "hc"])
    flags = rand_flags(rng, api)
    literal = "x" in flags
    if api in ("fo", "rc", "hc", "os", "oc"):
        n = 1
    elif api == "fol":
        n = rng.choice([1, 1, 1, 1, 0, 2])
    elif api in ("p2", "c2", "w2"):
        n = 2
    elif api == "wl":
        n = rng.choice([2, 2, 2, 2, 2, 1, 3])
    elif api == "br":
        n = rng.choice([2, 2, 3, 3, 4, 4, 1, 0])
    else:
        n = rng.choice([1, 2, 2, 2, 3, 3, 4, 4, 0])
    chain = rand_chain(rng, ch, n)
    if api in ("p2", "c2", "w2") and "c" in flags and len(chain) == 2 and ch[chain[1]] and rng.random() < 0.5:
        chain[1] = rng.choice(ch[chain[1]])      # a grandchild, so that recursion matters
    pats = []
    for j in range(n):
        anchor = kept[chain[j]] if j < len(chain) and rng.random() < 0.75 else None
        if api == "hc" and rng.random() < 0.3:
            pats.append(rng.choice(EMPTY_MATCH))
        else:
            pats.append(rand_pattern(rng, kept, anchor, literal))
    if "g" in flags:                             # regex_groups: give most expressions capture groups
        for j, p in enumerate(pats):
            r = rng.random()
            q = "(" + p + ")" if r < 0.35 else "(" + p + ")|(zz)" if r < 0.45 else r"(\S+)\s*(\S*)" if r < 0.55 else p
            if compiles(q):
                pats[j] = q
    return {"api": api, "pats": pats, "flags": flags}


def wchoice(rng, table):
    """table = 'sssppo' -> one letter, frequency = multiplicity"""
    return rng.choice(table)


def rand_form_query(rng, cfg, kept, ch):
    """a query written with the other accepted spellings (compiled patterns, BaseCfgLine, tuple, missing / ill-typed
    arguments) and / or asked while an uncommitted insert is pending"""
    api = rng.choice(["fo", "fo", "fo", "fol", "fol", "br", "br", "pl", "cl", "cl", "cl", "p2", "p2", "c2", "c2", "c2",
                      "w2", "w2", "w2", "wl", "wl", "rc", "hc", "hc", "os", "oc", "oc"])
    q = rand_query(rng, cfg, kept, ch, api)
    pats, n = q["pats"], len(q["pats"])
    kinds, tup = ["s"] * n, False
    if api == "fo":
        kinds[0] = wchoice(rng, "pppppppppoooooooossin")
    elif api == "fol":
        r = rng.random()
        if r < 0.5:
            kinds = ["p"] * n
        elif r < 0.7:
            kinds = [wchoice(rng, "sp") for _ in range(n)]
        elif r < 0.8 and n >= 1:
            kinds[0] = "o"
        elif r < 0.85:
            tup = True
    elif api == "br":
        tup = rng.random() < 0.75
    elif api == "p2":
        kinds = [wchoice(rng, "ssppp"), wchoice(rng, "sssnn")]
    elif api == "cl":
        r = rng.random()
        if r < 0.5:
            tup = True
        elif r < 0.85:
            pats, kinds, tup = pats[:1] or ["a"], [wchoice(rng, "ppoo")], rng.random() < 0.4
    elif api == "c2":
        kinds = [wchoice(rng, "sssppooooin"), wchoice(rng, "ssssspppoin")]
    elif api == "wl":
        kinds = [wchoice(rng, "sssspp") for _ in range(n)]
    elif api == "w2":
        kinds = [wchoice(rng, "ssppppooooin"), wchoice(rng, "sssssppppoin")]
        if rng.random() < 0.1:
            pats, kinds, tup = [pats[0], rand_pattern(rng, kept), pats[1]], ["s", "s", kinds[1]], True
    elif api == "rc":
        kinds[0] = wchoice(rng, "ppppppoooosi")
    elif api in ("hc", "os", "oc"):
        kinds[0] = wchoice(rng, "ssspppppppin" if api != "hc" else "pppppppsin")
    onum = 0
    if "o" in kinds:
        if kept and rng.random() < 0.85:
            onum = rng.randrange(len(kept))
            if api in ("c2", "w2") and rng.random() < 0.7:
                withkids = [i for i in range(len(kept)) if ch[i]]
                onum = rng.choice(withkids) if withkids else onum
            text = kept[onum]
        else:                                    # a foreign object: this linenum may or may not carry this text
            onum = rng.randrange(len(kept) + 2)
            text = rng.choice(kept) if kept and rng.random() < 0.6 else rng.choice(POOL)
        pats = [text if k == "o" else p for k, p in zip(kinds, pats)]
    pats = ["" if k in "ni" else p for k, p in zip(kinds, pats)]
    q = dict(q, pats=pats, kinds="".join(kinds), tuple=tup, onum=onum)
    if "p" in kinds and (sum(len(p) for p in pats) + len(kept)) % (2 if (api in ("fo", "fol") and "a" in q["flags"]) else 3) == 0:
        # a third of the queries with a compiled expression (half of the exactmatch ones) compile it with re.IGNORECASE and write it in upper case where
        # that is the same expression (no backslash escape, no group name / inline flag): the flags of a Pattern must
        # survive wherever the code re-compiles it (exactmatch)
        up = [p.upper() if (k == "p" and "\\" not in p and "(?" not in p) else p for k, p in zip(kinds, pats)]
        q.update(icase=True, pats=up)
    if rng.random() < 0.2 or not is_form(q):
        q.update(pend=True, pend_at=rng.randrange(len(kept) + 1), pend_text=rng.choice(["zz", " zz", "  " + rng.choice(POOL), ""]))
    return q


def rand_cfg(rng):
    delims = rng.choice(T.DELIM_SETS)
    r = rng.random()
    if r < 0.8:
        lines = rand_tree_lines(rng, delims)
    else:
        lines = T.rand_config(rng, 14, True, delims)
    return {"syntax": rng.choice(T.SYNTAXES), "ignore_blank": rng.random() < 0.2, "delims": delims, "lines": lines}


def cases(rng, tier):
    """half of the cases leave the keyword arguments that sit at their documented default out of the call
    (recurse / all_children / empty_branches / reverse), so the defaults of the signatures are observed too"""
    orng = __import__("random").Random(rng.random())
    for c in _cases(rng, tier):
        c["omit"] = orng.random() < 0.5
        yield c


def _cases(rng, tier):
    T.selfcheck()
    n = {"quick": 2000, "thorough": 20000, "search": 400}[tier]
    for _ in range(n):
        cfg = rand_cfg(rng)
        kept = T.ref_kept(cfg["lines"], cfg["syntax"] == "ios", cfg["ignore_blank"])
        _, ch = ref_children(kept, T.cfg_delims(cfg["syntax"], cfg["delims"]))
        for _ in range(10):
            yield mk(cfg, rand_query(rng, cfg, kept, ch))
        for _ in range(2):
            yield mk(cfg, rand_form_query(rng, cfg, kept, ch))
        # the same (p, c, flags) through the list form and the two-argument form
        q = rand_query(rng, cfg, kept, ch, rng.choice(["p2", "c2", "w2"]))
        fl = q["flags"].replace("c", "")
        yield mk(cfg, {"api": q["api"], "pats": q["pats"], "flags": fl})
        yield mk(cfg, {"api": {"p2": "pl", "c2": "cl", "w2": "wl"}[q["api"]], "pats": q["pats"], "flags": fl})


def neighbours(case, rng):
    cfg0 = {k: case[k] for k in ("syntax", "ignore_blank", "delims", "lines")}
    q = {"api": case["api"], "pats": case["pats"], "flags": case["flags"]}
    for k in FORM_KEYS + ("pend_at", "pend_text"):
        if k in case:
            q[k] = case[k]
    for _ in range(300):
        ls = list(case["lines"])
        r = rng.random()
        if len(ls) > 1 and r < 0.5:
            del ls[rng.randrange(len(ls))]
        elif r < 0.8:
            ls.insert(rng.randrange(len(ls) + 1), " " * rng.choice([0, 1, 2]) + rng.choice(POOL))
        else:
            q2 = dict(q, flags="".join(c for c in "awxrce" if (c in q["flags"]) != (rng.random() < 0.3)))
            yield mk(cfg0, q2)
            continue
        yield mk(dict(cfg0, lines=ls), q)


# ------------------------------------------------------------------ implementation
def enc_branches(bs):
    return ";".join(",".join("-" if o is None else str(o.linenum) for o in b) for b in bs)


def enc_item(x):
    if x is None:
        return "-"
    if isinstance(x, str):
        return wire.enc_str(x)
    return "#%d" % x.linenum


def enc_cell(c):
    """a cell of a regex_groups=True row: a tuple or a list of None / line objects / group texts"""
    if isinstance(c, tuple):
        return "T" + ",".join(enc_item(x) for x in c)
    if isinstance(c, list):
        return "L" + ",".join(enc_item(x) for x in c)
    return "?" + type(c).__name__


def enc_matrix(bs):
    return ";".join(":".join(enc_cell(c) for c in b) for b in bs)


def the_line(parse, case, text):
    """the BaseCfgLine argument: line `onum` of this parse when it has that text, else a foreign object (linenum, text)"""
    objs, k = parse.objs, case.get("onum") or 0
    if k < len(objs) and objs[k].text == text:
        return objs[k]
    from ciscoconfparse2.ciscoconfparse2 import CFGLINE
    o = CFGLINE[case["syntax"]](line=text)
    o.linenum = k
    return o


def mk_arg(parse, case, kind, pat):
    if kind == "s":
        return pat
    if kind == "p":
        return re.compile(pat, re.IGNORECASE) if case.get("icase") else re.compile(pat)
    if kind == "o":
        return the_line(parse, case, pat)
    if kind == "n":
        return None
    return 3


# documented defaults of the keyword arguments that the runners used to pass explicitly every time
REC_DEFAULT = {"p2": True, "c2": True, "w2": False, "wl": False, "rc": False, "hc": False, "oc": False}


def rec_kw(case, name="recurse"):
    """recurse= / all_children= of the request; LEFT OUT when the case says so and the value is the documented default"""
    rec = "c" in case["flags"]
    if case.get("omit") and rec == REC_DEFAULT[case["api"]]:
        return {}
    return {name: rec}


def br_kw(case):
    fl = case["flags"]
    kw = {"empty_branches": "e" in fl, "reverse": "r" in fl}
    if case.get("omit"):
        kw = {k: v for k, v in kw.items() if v}
    return kw


def run_form_query(parse, case, objs):
    api, fl = case["api"], case["flags"]
    kw = {}
    for c, name in (("a", "exactmatch"), ("w", "ignore_ws"), ("x", "escape_chars"), ("r", "reverse")):
        if c in fl:
            kw[name] = True
    shape, first, child = split_args(case)
    args = [mk_arg(parse, case, k, p) for k, p in first]
    a0 = args[0] if shape == "1" else (tuple(args) if shape == "t" else list(args))
    c0 = mk_arg(parse, case, *child) if child else None
    if api in ("fo", "fol"):
        return T.lnums(parse.find_objects(a0, **kw))
    if api == "br" and "g" in fl:
        return enc_matrix(parse.find_object_branches(a0, regex_groups=True, **br_kw(case)))
    if api == "br":
        return enc_branches(parse.find_object_branches(a0, **br_kw(case)))
    if api == "pl":
        return T.lnums(parse.find_parent_objects(a0, **kw))
    if api == "cl":
        return T.lnums(parse.find_child_objects(a0, **kw))
    if api == "p2":
        return T.lnums(parse.find_parent_objects(a0, c0, **rec_kw(case), **kw))
    if api == "c2":
        return T.lnums(parse.find_child_objects(a0, c0, **rec_kw(case), **kw))
    if api == "w2":
        return T.lnums(parse.find_parent_objects_wo_child(a0, c0, **rec_kw(case), **kw))
    if api == "wl":
        return T.lnums(parse.find_parent_objects_wo_child(a0, **rec_kw(case), **kw))
    if api == "rc":
        return T.lnums(parse.re_search_children(a0, **rec_kw(case)))
    # objs: the line objects as they were before a pending insert
    if api == "hc":
        return T.lnums([o for o in objs if o.has_child_with(a0, **rec_kw(case, "all_children"))])
    if api == "os":
        out = []
        for o in objs:
            r = o.re_search(a0, default=None)
            if r is not None:
                if r != o.text or o.re_search(a0) != o.text:
                    return "wrong-text:%d" % o.linenum
                out.append(o)
            elif o.re_search(a0, default="dflt") != "dflt":
                return "wrong-default:%d" % o.linenum
        return T.lnums(out)
    if api == "oc":
        return ";".join(T.lnums(o.re_search_children(a0, **rec_kw(case))) for o in objs)
    raise AssertionError(api)


def run_query(parse, case, objs=None):
    if is_form(case):
        return run_form_query(parse, case, list(parse.objs) if objs is None else objs)
    api, pats, fl = case["api"], case["pats"], case["flags"]
    kw = {}
    if "a" in fl:
        kw["exactmatch"] = True
    if "w" in fl:
        kw["ignore_ws"] = True
    if "x" in fl:
        kw["escape_chars"] = True
    if "r" in fl:
        kw["reverse"] = True
    if api == "fo":
        return T.lnums(parse.find_objects(pats[0], **kw))
    if api == "fol":
        return T.lnums(parse.find_objects(list(pats), **kw))
    if api == "br":
        return enc_branches(parse.find_object_branches(list(pats), **br_kw(case)))
    if api == "pl":
        return T.lnums(parse.find_parent_objects(list(pats), **kw))
    if api == "cl":
        return T.lnums(parse.find_child_objects(list(pats), **kw))
    if api == "p2":
        return T.lnums(parse.find_parent_objects(pats[0], pats[1], **rec_kw(case), **kw))
    if api == "c2":
        return T.lnums(parse.find_child_objects(pats[0], pats[1], **rec_kw(case), **kw))
    if api == "w2":
        return T.lnums(parse.find_parent_objects_wo_child(pats[0], pats[1], **rec_kw(case), **kw))
    if api == "wl":
        return T.lnums(parse.find_parent_objects_wo_child(list(pats), **rec_kw(case), **kw))
    if api == "rc":
        return T.lnums(parse.re_search_children(pats[0], **rec_kw(case)))
    if api == "hc":
        return T.lnums([o for o in parse.objs if o.has_child_with(pats[0], **rec_kw(case, "all_children"))])
    raise AssertionError(api)


def impl(case):
    quiet_ccp()
    try:
        p = T.parse_impl(case)
    except BaseException as e:  # noqa: BLE001
        return "parse-err:" + type(e).__name__
    objs = list(p.objs)
    dump = "|".join([T.lnums([o.parent for o in objs]), ";".join(T.lnums(o.children) for o in objs)])
    try:
        if case.get("pend"):                     # an uncommitted ConfigList.insert(): search_safe is False from here on
            p.config_objs.insert(min(case.get("pend_at", 0), len(objs)), case.get("pend_text", " zz"))
        ans = run_query(p, case, objs)
    except BaseException as e:  # noqa: BLE001
        ans = "err:" + type(e).__name__
    return dump + "&" + ans + "&" + wire.enc_strs([o.text for o in objs])


def compare(case, impl_ans, model_ans):
    # the texts (third field) are only for the oracle; losslessness is C01's business
    return impl_ans.rsplit("&", 1)[0] == model_ans


# ------------------------------------------------------------------ oracle: brute-force scan of the implementation's own tree
def nat(w):
    return [int(x) for x in w.split(",")] if w else []


def parse_answer(ans):
    dump, res, texts_w = ans.split("&")
    parents_w, children_w = dump.split("|")
    parents = nat(parents_w)
    children = [nat(w) for w in children_w.split(";")] if parents else []
    return parents, children, res, wire.dec_strs(texts_w)


def descendants(children, p):
    out, todo = [], list(children[p])
    while todo:
        c = todo.pop()
        out.append(c)
        todo += children[c]
    return sorted(out)


def all_chains(children, ms):
    """every tuple (c0..ck) with ms[j][cj] and c(j+1) a direct child of cj; lexicographic"""
    n = len(children)
    out = []
    import itertools
    # brute force level by level (no recursion shared with the implementation's growth loop)
    tuples = [(i,) for i in range(n) if ms[0][i]]
    for j in range(1, len(ms)):
        tuples = [tp + (c,) for tp in tuples for c in range(n) if c in children[tp[-1]] and ms[j][c]]
    out = sorted(set(tuples))
    del itertools
    return out


def padded_chains(children, ms):
    """maximal partial chains padded with None (the documented meaning of empty_branches=True)"""
    n, k = len(children), len(ms)
    out = []
    roots = [i for i in range(n) if ms[0][i]]
    if not roots:
        return [tuple([None] * k)]

    def walk(prefix):
        j = len(prefix)
        if j == k:
            out.append(tuple(prefix))
            return
        kids = [c for c in sorted(children[prefix[-1]]) if ms[j][c]]
        if not kids:
            out.append(tuple(prefix) + (None,) * (k - j))
        for c in kids:
            walk(prefix + [c])

    for r in roots:
        walk([r])
    return out


def expected(case, parents, children, texts, flags=None, pats=None):
    """the property's answer, as a string in the answer format, or None if the property does not say"""
    api = case["api"]
    fl = case["flags"] if flags is None else flags
    pats = case["pats"] if pats is None else pats
    n = len(texts)
    kinds = kinds_of(case)
    if set(kinds) & set("oni"):
        return None                              # a BaseCfgLine / missing / ill-typed expression: the property does not say
    if "p" in kinds:
        if "w" in fl or "x" in fl:
            return None                          # a compiled expression cannot be rewritten: refused (ValueError / TypeError)
        if api in ("p2", "c2") and kinds[0] == "p":
            return None                          # refused (InvalidParameters)
    if case.get("tuple") and api not in ("br", "cl"):
        return None                              # a tuple is documented for find_object_branches and find_child_objects only
    rfl = fl if api not in ("rc", "hc", "br", "os", "oc") else ""
    try:
        ms = [row_of(p, rfl, texts, bool(case.get("icase")) and k == "p") for k, p in zip(kinds, pats)]
    except re.error:
        return None
    rev = "r" in fl
    rec = "c" in fl

    def order(xs):
        xs = sorted(set(xs))
        return wire.enc_nats(xs[::-1] if rev else xs)

    def kids(p):
        return descendants(children, p) if rec else children[p]

    if api == "fo":
        return order(i for i in range(n) if ms[0][i])
    if api == "fol":
        return order(i for i in range(n) if ms[0][i]) if len(pats) == 1 else "err:InvalidParameters"
    if api == "br":
        if len(pats) < 2:
            return "err:ValueError"
        tps = padded_chains(children, ms) if "e" in fl else all_chains(children, ms)
        if rev:
            tps = tps[::-1]
        if "g" in fl:
            # every line of a chain is reported by the capture groups of its expression (the line itself when the
            # expression has none); a missing line by (None,)
            def cell(j, c):
                if c is None:
                    return "T-"
                gs = re.search(pats[j], texts[c]).groups()
                return "T" + ",".join("-" if x is None else wire.enc_str(x) for x in gs) if gs else "T#%d" % c
            return ";".join(":".join(cell(j, c) for j, c in enumerate(tp)) for tp in tps)
        return ";".join(",".join("-" if x is None else str(x) for x in tp) for tp in tps)
    if api in ("pl", "cl"):
        if len(pats) == 0:
            return "err:ValueError"
        if len(pats) == 1:
            return order(i for i in range(n) if ms[0][i])
        ch = all_chains(children, ms)
        return order(tp[0] if api == "pl" else tp[-1] for tp in ch)
    if api in ("p2", "w2", "wl"):
        if api == "wl" and len(pats) != 2:
            return "err:InvalidParameters"
        want = api == "p2"
        return order(p for p in range(n) if ms[0][p] and any(ms[1][c] for c in kids(p)) == want)
    if api == "c2":
        return order(c for p in range(n) if ms[0][p] for c in kids(p) if ms[1][c])
    if api == "rc":
        return wire.enc_nats([i for i in range(n) if ms[0][i] and (rec or parents[i] == i)])
    if api == "hc":
        return wire.enc_nats([p for p in range(n) if any(ms[0][c] for c in kids(p))])
    if api == "os":
        return wire.enc_nats([i for i in range(n) if ms[0][i]])
    if api == "oc":
        return ";".join(wire.enc_nats([c for c in kids(p) if ms[0][c]]) for p in range(n))
    raise AssertionError(api)


def oracle(case, ans):
    if ans.startswith("parse-err:"):
        return ["[parse] " + ans]
    parents, children, res, texts = parse_answer(ans)
    api, fl = case["api"], case["flags"]
    if case.get("pend"):
        # searches are refused while an uncommitted insert is pending (anchor ConfigList.search_safe); the only
        # answer that does not read the stale tree is has_child_with over lines without children
        if res.startswith("err:") or (api == "hc" and res == "" and not any(children)) or not texts:
            return []
        return [f"[answered-while-insert-pending] {API_NAME[api]}({case['pats']!r}, flags={fl!r}) answered {res[:120]!r} "
                f"although ConfigList.insert() was not committed (search_safe is False)"]
    want = expected(case, parents, children, texts)
    if want is None and not res.startswith("err:") and api not in ("br", "oc") and not res.startswith("wrong-"):
        # the property does not say which lines; it still says: lines of the config, no duplicates, sorted by line number
        try:
            got = nat(res)
        except ValueError:
            got = None
        ordered = got is not None and all((a > b) if "r" in fl else (a < b) for a, b in zip(got, got[1:]))
        if not ordered or any(i >= len(texts) for i in got):
            return [f"[result-not-sorted-unique-in-range] {API_NAME[api]}({case['pats']!r}, kinds={kinds_of(case)!r}, flags={fl!r}) returned {res[:120]!r}"]
    if want is None or res == want:
        return []
    name = API_NAME[api]
    # diagnose: which reading of the request reproduces the implementation's answer?
    diag = "unexplained"
    alts = []
    if api in ("pl", "cl"):
        alts.append(("list-form-ignores-flags", fl.replace("w", "").replace("r", "").replace("x", ""), None))
        if "x" in fl and res == "err:TypeError":
            diag = "list-form-escape-typeerror"
    if api == "c2" and "r" in fl:
        alts.append(("reverse-ignored", fl.replace("r", ""), None))
    if api == "br" and "g" in fl and "e" not in fl:
        alts.append(("regex-groups-keeps-partial-branches", fl + "e", None))
    if api == "wl" and len(case["pats"]) == 2:
        p = case["pats"][0]
        if kinds_of(case)[0] == "p":
            if res == "err:TypeError":           # parentspec[1] of a compiled pattern: not subscriptable
                diag = "wo-child-list-uses-p1"
        elif len(p) < 2:
            if res == "err:IndexError":
                diag = "wo-child-list-uses-p1"
        else:
            alts.append(("wo-child-list-uses-p1", fl, [p, p[1]]))
            if res == "err:error" and "x" not in fl and not compiles(p[1]):
                diag = "wo-child-list-uses-p1"
    if api in ("fo", "fol") and "a" in fl and "p" in kinds_of(case) and len(case["pats"]) == 1:
        # what `"^(?:%s)$" % linespec` is for a compiled linespec
        try:
            cre = re.compile("^(?:%s)$" % mk_arg(None, case, "p", case["pats"][0]))
            hits = [i for i, t in enumerate(texts) if cre.search(t)]
            if res == wire.enc_nats(hits[::-1] if "r" in fl else hits):
                diag = "exactmatch-formats-compiled-pattern"
        except re.error:
            if res == "err:error":
                diag = "exactmatch-formats-compiled-pattern"
    for tag, afl, apats in alts:
        if diag != "unexplained":
            break
        try:
            acase = case
            if tag == "wo-child-list-uses-p1":
                # F07: the code searches the children for parentspec[1], a plain one-character str -- whatever kind
                # (str / compiled, with or without flags) the second list element was
                acase = dict(case, kinds=kinds_of(case)[0] + "s")
            if expected(acase, parents, children, texts, flags=afl, pats=apats) == res:
                diag = tag
        except re.error:
            pass
    if diag == "unexplained" and "x" in fl and "w" in fl and any(has_ws(p) for p in case["pats"]):
        # what the composed expression (escape, then whitespace runs -> \s+) really is
        def broken(p):
            return re.sub(r"\s+", lambda m: r"\s+", re.escape(p))
        try:
            alt_case = dict(case, flags=fl.replace("x", "").replace("w", ""), pats=[broken(p) for p in case["pats"]])
            if api == "wl" and len(case["pats"]) == 2 and len(case["pats"][0]) >= 2:
                alt_case["pats"] = [broken(case["pats"][0]), broken(case["pats"][0][1])]
                alt_case["api"] = "w2"
            if expected(alt_case, parents, children, texts) == res:
                diag = "escape-then-ws-composition"
        except re.error:
            pass
    if diag == "unexplained" and api == "hc":
        rec = "c" in fl
        try:
            m = row_of(case["pats"][0], "", texts)
            alt = wire.enc_nats([p for p in range(len(texts))
                                 if any(m[c] and texts[c] != "" for c in (descendants(children, p) if rec else children[p]))])
            if alt == res:
                diag = "has-child-with-empty-text"
        except re.error:
            pass
    return [f"[{diag}] {name}({case['pats']!r}, flags={fl!r}) returned {res[:120]!r}, a brute-force scan of the tree gives {want[:120]!r}"]


def known_id(case, failure):
    api = case["api"]
    tag = failure[1:failure.index("]")] if failure.startswith("[") else ""
    if tag == "wo-child-list-uses-p1" and api == "wl" and len(case["pats"]) == 2:
        return "F07"
    return None


# ------------------------------------------------------------------ evidence
def nontrivial(case):
    return any(l[:1].isspace() and l.strip() for l in case["lines"]) and len(case["pats"]) >= 1


def describe(case):
    d = {k: case[k] for k in ("syntax", "ignore_blank", "delims", "api", "pats", "flags")}
    if is_form(case):
        d["argument_kinds"] = kinds_of(case) + " (s str, p re.compile, o BaseCfgLine, n None, i int)"
        if case.get("icase"):
            d["compiled_with"] = "re.IGNORECASE"
        d["tuple"], d["insert_pending"], d["line_argument_linenum"] = case.get("tuple"), case.get("pend"), case.get("onum")
    if case.get("omit"):
        d["keyword_arguments_at_their_default"] = "left out of the call"
    d["api_name"] = API_NAME[case["api"]]
    d["lines"] = case["lines"] if len(case["lines"]) <= 45 else case["lines"][:45] + ["…"]
    return d


def buckets(case, ans):
    out = ["api:" + case["api"], "n_regex:%d" % len(case["pats"]), "in_model:%d" % (case.get("req") is not None)]
    for c in case["flags"]:
        out.append("flag:" + c)
    if is_form(case):
        out += ["kind:" + k for k in sorted(set(kinds_of(case)) - {"s"})]
        if case.get("tuple"):
            out.append("form:tuple")
        if case.get("pend"):
            out.append("form:insert-pending")
        if case.get("icase"):
            out.append("form:compiled-ignorecase")
    if not case["flags"]:
        out.append("flag:none")
    try:
        res = ans.split("&")[1]
    except IndexError:
        res = ans
    if res.startswith("err:"):
        out.append("answer:" + res)
    elif res == "":
        out.append("answer:empty")
    else:
        k = res.count(";") + 1 if case["api"] == "br" else res.count(",") + 1
        out.append("answer:%s" % ("1" if k == 1 else "2-4" if k <= 4 else "5+"))
        if case["api"] == "br" and "-" in res:
            out.append("answer:has-None")
    out.append("lines:%d" % (min(50, len(case["lines"])) // 10 * 10))
    return out


# ================================================================== two live instances (stream `pair`, see props/pairlib.py)
# Appended as wrappers around the functions above, so that the single-instance streams and their seeds stay as they were.
# A pair case: two configs from one template (parents coincide in line number and text, descendants differ), BOTH parsed
# first, then the SAME search (all APIs, recursive and not) asked of A, B, A (...); every answer is judged by the oracle
# above against a brute-force scan of the tree of the instance that was asked, and compared with the model's answer for
# that instance alone.  The last observations may be: an uncommitted insert on A (A must refuse) followed by the search on
# B (B must answer: search_safe is per instance).
from props import pairlib as PL  # noqa: E402


def pair_cfgs(rng):
    a = rand_cfg(rng)
    if rng.random() < 0.85 or not a["lines"]:
        a = dict(a, lines=rand_tree_lines(rng, a["delims"]), ignore_blank=a["ignore_blank"] and rng.random() < 0.5)
    r = rng.random()
    if r < 0.08:
        lines, muts = list(a["lines"]), ["identical"]
    elif r < 0.14:
        lines, muts = rand_tree_lines(rng, a["delims"]), ["unrelated"]
    else:
        lines, muts = PL.variant(rng, a["lines"], POOL)
    syntax, ign, delims = PL.option_variant(rng, a["syntax"], a["ignore_blank"], a["delims"], T.SYNTAXES, T.DELIM_SETS)
    return [a, {"syntax": syntax, "ignore_blank": ign, "delims": delims, "lines": lines}], muts


def mk_pair(cfgs, plan, queries, muts=(), origin="pair"):
    """queries[k] = the query of observation k (dict api/pats/flags[/form keys]); plan[k] = the instance it is asked of"""
    subs = []
    for k, (i, q) in enumerate(zip(plan, queries)):
        s = mk(cfgs[i], q, origin)
        s["_same"] = q.get("_same")
        subs.append(s)
    case = {"pair": True, "cfgs": cfgs, "plan": list(plan), "subs": subs, "mutations": list(muts), "_origin": origin,
            # the keys the evidence code reads on every case
            "lines": cfgs[0]["lines"], "pats": subs[0]["pats"], "api": subs[0]["api"], "flags": subs[0]["flags"]}
    case["req"] = PL.wrap_req([s["req"] for s in subs])
    return case


RECURSIVE_APIS = ["p2", "p2", "c2", "c2", "w2", "w2", "wl", "hc", "hc", "rc", "oc"]


def rand_pair(rng):
    cfgs, muts = pair_cfgs(rng)
    plan = PL.rand_plan(rng)
    keptch = []
    for c in cfgs:
        kept = T.ref_kept(c["lines"], c["syntax"] == "ios", c["ignore_blank"])
        keptch.append((kept, ref_children(kept, T.cfg_delims(c["syntax"], c["delims"]))[1]))
    nq = rng.choice([1, 1, 1, 2, len(plan)])
    base = []
    for j in range(nq):
        src = rng.randrange(2)                   # the chain the expressions are drawn from lives in A or in B
        kept, ch = keptch[src]
        r = rng.random()
        if r < 0.55:
            q = rand_query(rng, cfgs[src], kept, ch, rng.choice(RECURSIVE_APIS))
            if "c" in ACCEPTS[q["api"]] and rng.random() < 0.8:
                q["flags"] = "".join(sorted(set(q["flags"]) | {"c"}))
        elif r < 0.9:
            q = rand_query(rng, cfgs[src], kept, ch)
        else:
            q = rand_form_query(rng, cfgs[src], kept, ch)
            q["pend"] = False
            if not is_form(q):
                q = rand_query(rng, cfgs[src], kept, ch)
        q["_same"] = j
        base.append(q)
    queries = [dict(base[k % nq]) for k in range(len(plan))]
    if rng.random() < 0.12:
        # an uncommitted insert on one instance, then the other instance is asked again
        i = plan[-1]
        kept = keptch[i][0]
        pq = dict(queries[-1], pend=True, pend_at=rng.randrange(len(kept) + 1), pend_text=rng.choice(["zz", " zz", "  zz"]), _same=None)
        plan = plan + [i, 1 - i]
        queries = queries + [pq, dict(base[0])]
    return mk_pair(cfgs, plan, queries, muts)


def pair_cases(rng, tier):
    for _ in range({"quick": 900, "thorough": 30000, "search": 300}[tier]):
        yield rand_pair(rng)


def impl_pair(case):
    quiet_ccp()
    parses = []
    for i, c in enumerate(case["cfgs"]):
        # (auto_commit is left at its default unless an uncommitted insert is to stay pending on this instance)
        pend = any(s.get("pend") for s, j in zip(case["subs"], case["plan"]) if j == i)
        try:
            parses.append(T.parse_impl(dict(c, factory=False, auto_commit=False if pend else None)))
        except BaseException as e:  # noqa: BLE001
            if type(e).__name__ == "CaseTimeout":
                raise
            return "parse-err:" + type(e).__name__
    tags = PL.tags_for([s["req"] for s in case["subs"]])
    parts = []
    for k, sub in enumerate(case["subs"]):
        sub["omit"] = case.get("omit")
        p = parses[case["plan"][k]]
        parts.append((tags[k], observe(p, sub)))
    return PL.join_parts(parts)


def _sub_compare(impl_part, model_part):
    return impl_part.rsplit("&", 1)[0] == model_part


def pair_neighbours(case, rng):
    for _ in range(120):
        a = case["cfgs"][0]
        lines, muts = PL.variant(rng, a["lines"], POOL)
        cfgs = [a, dict(case["cfgs"][1], lines=lines)]
        qs = [{k: s[k] for k in ("api", "pats", "flags") + FORM_KEYS + ("pend_at", "pend_text", "_same") if k in s} for s in case["subs"]]
        yield mk_pair(cfgs, case["plan"], qs, muts)


def _pair_describe(case):
    for s in case["subs"]:
        s["omit"] = case.get("omit")
    return {"two_live_instances": "both configs are parsed first, then the observations run in this order",
            "A": {k: case["cfgs"][0][k] for k in ("syntax", "ignore_blank", "delims", "lines")},
            "B": {k: case["cfgs"][1][k] for k in ("syntax", "ignore_blank", "delims", "lines")},
            "B_differs_from_A_by": case.get("mutations"),
            "observations": [dict({k: v for k, v in _single["describe"](s).items() if k not in ("lines", "syntax", "ignore_blank", "delims")},
                                  instance="AB"[i]) for i, s in zip(case["plan"], case["subs"])]}


def _pair_buckets(case, ans):
    out = PL.buckets(case)
    parts = PL.split_parts(ans) or []
    for s, (_, text) in zip(case["subs"], parts):
        out += ["pair:" + b for b in _single["buckets"](s, text) if b.startswith(("api:", "flag:c", "answer:"))]
    return out


_single = {"cases": cases, "impl": impl, "oracle": oracle, "compare": compare, "neighbours": neighbours, "known_id": known_id,
           "nontrivial": nontrivial, "describe": describe, "buckets": buckets}


def cases(rng, tier):  # noqa: F811
    yield from _single["cases"](rng, tier)
    orng = __import__("random").Random(rng.random())
    for c in (pair_cases(rng, tier) if PL.enabled() else ()):
        c["omit"] = orng.random() < 0.5
        yield c


def impl(case):  # noqa: F811
    return impl_pair(case) if case.get("pair") else _single["impl"](case)


def oracle(case, ans):  # noqa: F811
    return PL.oracle(case, ans, _single["oracle"]) if case.get("pair") else _single["oracle"](case, ans)


def compare(case, impl_ans, model_ans):  # noqa: F811
    if case.get("pair"):
        return PL.compare(impl_ans, model_ans, _sub_compare)
    return _single["compare"](case, impl_ans, model_ans)


def neighbours(case, rng):  # noqa: F811
    return pair_neighbours(case, rng) if case.get("pair") else _single["neighbours"](case, rng)


def known_id(case, failure):  # noqa: F811
    return PL.known_id(case, failure, _single["known_id"]) if case.get("pair") else _single["known_id"](case, failure)


def nontrivial(case):  # noqa: F811
    if case.get("pair"):
        return PL.shared_parents(case["cfgs"][0]["lines"], case["cfgs"][1]["lines"]) > 0 and any(_single["nontrivial"](s) for s in case["subs"])
    return _single["nontrivial"](case)


def describe(case):  # noqa: F811
    return _pair_describe(case) if case.get("pair") else _single["describe"](case)


def buckets(case, ans):  # noqa: F811
    return _pair_buckets(case, ans) if case.get("pair") else _single["buckets"](case, ans)


def observe(p, sub):
    """the answer of impl() for the query of `sub`, asked of an instance that is already parsed"""
    objs = list(p.objs)
    dump = "|".join([T.lnums([o.parent for o in objs]), ";".join(T.lnums(o.children) for o in objs)])
    try:
        if sub.get("pend"):                      # an uncommitted ConfigList.insert(): search_safe is False from here on
            p.config_objs.insert(min(sub.get("pend_at", 0), len(objs)), sub.get("pend_text", " zz"))
        ans = run_query(p, sub, objs)
    except BaseException as e:  # noqa: BLE001
        if type(e).__name__ == "CaseTimeout":
            raise
        ans = "err:" + type(e).__name__
    return dump + "&" + ans + "&" + wire.enc_strs([o.text for o in objs])


RULE += (" PAIR STREAM (two LIVE instances; props/pairlib.py, channel `pair`): 900 (quick) cases hold two configs built from ONE template (the "
         "tree generator above): B = A with 1-3 of {a child's text replaced, a child re-indented one level deeper / shallower, turned into a "
         "comment, blanked, two children swapped, a child inserted / deleted / moved under another parent, a run of siblings pushed one level "
         "down} (8 % identical, 6 % unrelated), so that parent lines coincide in (line number, text) -- line objects hash and compare by that "
         "pair -- while their children / descendants differ; same or different syntax / ignore_blank_lines / comment delimiters. BOTH are "
         "parsed first; then the SAME search (55 % a recursive API with recurse / all_children on, the rest any API, 10 % the other argument "
         "forms; expressions drawn from a chain of A or of B; 1, 2 or one query per observation) is asked in the orders ABA, ABAB, BAB, "
         "ABBA, AABA; 12 % end with an uncommitted insert on one instance (it must refuse) followed by the search on the other (it must "
         "answer). Every answer is judged by the brute-force oracle on the tree of the instance that was asked, compared with the model's "
         "answer for THAT instance alone, and an instance asked the same thing twice must answer the same. VERIF_NO_PAIR=1 leaves the stream out.")
LEVEL_NOTE += (" Two live instances: the model is a function of one config (channel `pair` only carries ordinary requests; "
               "Ccp.Drv.Pair.answers_get), so 'a search on one instance does not depend on other live instances' holds for the model by "
               "construction and is MEASURED for the code by the pair stream (seeded change C04e -- an lru_cache on a BaseCfgLine method, shared "
               "between instances because lines hash by (linenum, text), cleared at every bootstrap -- is reported by it and by nothing else).")
