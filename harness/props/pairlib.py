"""Two (or more) LIVE CiscoConfParse instances in one process: shared pieces of the `pair` streams of C03-C07.

Every other generated case builds ONE instance, uses it and drops it before the next case starts, so state that the
code shares between instances that are alive at the same time -- a memo keyed by a line object (line objects hash and
compare by value, `(linenum, text)`), a class attribute used as scratch space, a module-level table -- is never
consulted across instances, and every parse / commit clears what it clears.  A pair case holds two configs A and B
built from ONE template, so that many parent lines coincide in line number and text while the lines below them differ;
the implementation runner builds BOTH instances first and then interleaves its observations (A, B, A, ...).  Each
observation is an ordinary case of the property about one instance; it is judged by that property's independent oracle
and compared with the model's answer for THAT instance alone.  The model has nothing to share: channel `pair`
(lean/Ccp/Drv/Pair.lean) only carries the ordinary requests on one request line and returns the ordinary answers.

Answer format: the observations' answers, each written `<tag>:<answer>`, separated by U+001E; `<tag>` is the position
of the sub-request whose model answer the observation must equal, or `-` when the observation is not sent to the
model (then only the oracle judges it).
"""
import os
import re

import wire


def enabled():
    """VERIF_NO_PAIR=1 leaves the pair streams out (to measure what the single-instance streams see on their own)"""
    return os.environ.get("VERIF_NO_PAIR") != "1"


SUB = "\x1f"      # stands for the TAB inside a sub-request
ANS = "\x1e"      # separates the answers


def wrap_req(reqs):
    """one `pair` request line out of ordinary request lines (None when there is nothing to ask)"""
    reqs = [r for r in reqs if r is not None]
    if not reqs:
        return None
    return wire.req("pair", *[r.replace("\t", SUB) for r in reqs])


def tags_for(reqs):
    """position of every request among the non-None ones (None stays None)"""
    out, k = [], 0
    for r in reqs:
        if r is None:
            out.append(None)
        else:
            out.append(k)
            k += 1
    return out


def join_parts(parts):
    """parts = [(tag | None, answer text)] or [(tag | None, label, answer text)]; a label (no ':' or '/') says what the
    part is when the number of parts is only known at run time (the history pairs of C06 / C07)"""
    out = []
    for part in parts:
        t, label, x = part if len(part) == 3 else (part[0], "", part[1])
        out.append(("-" if t is None else str(t)) + ("/" + label if label else "") + ":" + x)
    return ANS.join(out)


def split_labelled(ans):
    """-> [(tag | None, label, text)] or None when `ans` is not a pair answer (an error text of the runner)"""
    out = []
    for part in ans.split(ANS):
        head, sep, text = part.partition(":")
        tag, _, label = head.partition("/")
        if not sep or not (tag == "-" or tag.isdigit()):
            return None
        out.append((None if tag == "-" else int(tag), label, text))
    return out


def split_parts(ans):
    parts = split_labelled(ans)
    return None if parts is None else [(t, x) for t, _, x in parts]


def compare(impl_ans, model_ans, sub_compare=None):
    """every tagged observation equals the model's answer to its sub-request; `sub_compare(text, model text[, label])`"""
    parts = split_labelled(impl_ans)
    if parts is None:
        return False
    m = model_ans.split(ANS)
    for tag, label, text in parts:
        if tag is None:
            continue
        if tag >= len(m):
            return False
        if sub_compare is None:
            same = text == m[tag]
        else:
            same = sub_compare(text, m[tag], label) if label else sub_compare(text, m[tag])
        if not same:
            return False
    return True


PREFIX_RE = re.compile(r"^\{pair obs (\d+)[^}]*\} ")


def prefixed(k, inst, failure, what="on"):
    return "{pair obs %d %s instance %s, %s} %s" % (k, what, "AB"[inst] if inst < 2 else str(inst), "two live instances", failure)


def unprefix(failure):
    """-> (observation index | None, the sub-case's own failure text)"""
    m = PREFIX_RE.match(str(failure))
    if not m:
        return None, failure
    return int(m.group(1)), failure[m.end():]


def oracle(case, ans, sub_oracle):
    """each observation judged by the property's own oracle on the sub-case it is an instance of; an instance asked
    the same thing twice must answer the same"""
    parts = split_parts(ans)
    if parts is None:
        return ["pair runner: " + ans[:300]]
    subs, plan = case["subs"], case["plan"]
    if len(parts) != len(subs):
        return [f"pair runner: {len(parts)} answers for {len(subs)} observations"]
    fails = []
    for k, (sub, (_, text)) in enumerate(zip(subs, parts)):
        for f in sub_oracle(sub, text):
            fails.append(prefixed(k, plan[k], f))
    if not fails:
        seen = {}
        for k, (sub, (_, text)) in enumerate(zip(subs, parts)):
            key = (plan[k], sub.get("_same"))
            if sub.get("_same") is None:
                continue
            if key in seen and seen[key][1] != text:
                fails.append(prefixed(k, plan[k], f"the same question was answered differently at observation {seen[key][0]} "
                                                  f"({seen[key][1][:120]!r}) and now ({text[:120]!r}); nothing was edited in between"))
            seen.setdefault(key, (k, text))
    return fails[:3]


def known_id(case, failure, sub_known_id):
    k, rest = unprefix(failure)
    if k is None or k >= len(case["subs"]):
        return None
    return sub_known_id(case["subs"][k], rest)


# ------------------------------------------------------------------ config B from the template A
def indent_of(l):
    return len(l) - len(l.lstrip())


def step_of(lines):
    inds = sorted({indent_of(l) for l in lines if l.strip() and indent_of(l) > 0})
    return inds[0] if inds else 1


MUTATIONS = ["retext", "retext", "deeper", "deeper", "shallower", "comment", "swap", "insert", "insert", "delete", "delete",
             "run-deeper", "move", "blank"]


def variant(rng, lines, pool=None, n=None):
    """-> (lines of B, [mutation names]).  Lines at indent 0 are left alone whenever possible, so that the parents of A
    and B keep their text and (for the length-preserving mutations: all of them; for insert / delete / move: the ones
    above the edited position) their line number, while the children / descendants below them differ: a child's
    text replaced, a child re-indented one level deeper (a grandchild level appears) or shallower (it leaves the
    family and may capture what follows), a child turned into a comment (removed, numbering kept), two children
    swapped (each moves under the other's parent), a child inserted / deleted / moved under another parent, a run of
    siblings pushed one level down, a child blanked."""
    b = list(lines)
    done = []
    step = step_of(b)
    texts = [l.strip() for l in b if l.strip()] + list(pool or [])
    for _ in range(n if n is not None else rng.choice([1, 1, 1, 2, 2, 3])):
        inner = [i for i, l in enumerate(b) if l.strip() and indent_of(l) > 0]
        if not b:
            break
        m = rng.choice(MUTATIONS)
        if not inner and m not in ("insert",):
            m = "insert"
        if m == "retext":
            i = rng.choice(inner)
            new = rng.choice(texts) if texts else "x"
            if new == b[i].strip():
                new = new + " 2"
            b[i] = " " * indent_of(b[i]) + new
        elif m == "deeper":
            i = rng.choice(inner)
            b[i] = " " * step + b[i]
        elif m == "shallower":
            i = rng.choice(inner)
            b[i] = b[i][min(step, indent_of(b[i])):]
        elif m == "comment":
            i = rng.choice(inner)
            b[i] = " " * indent_of(b[i]) + rng.choice(["!", "! was " + b[i].strip()])
        elif m == "swap":
            if len(inner) < 2:
                continue
            i, j = rng.sample(inner, 2)
            if b[i] == b[j]:
                continue
            b[i], b[j] = b[j], b[i]
        elif m == "insert":
            i = rng.randrange(len(b))
            ind = indent_of(b[i]) + step if (b[i].strip() and rng.random() < 0.6) else max(step, indent_of(b[i]))
            b.insert(i + 1, " " * ind + (rng.choice(texts) if texts else "x"))
        elif m == "delete":
            del b[rng.choice(inner)]
        elif m == "run-deeper":
            i = rng.choice(inner)
            j = i + 1
            while j < len(b) and b[j].strip() and indent_of(b[j]) >= indent_of(b[i]):
                j += 1
            if j - i < 2:
                continue
            for q in range(i + 1, j):
                b[q] = " " * step + b[q]
        elif m == "move":
            i = rng.choice(inner)
            l = b.pop(i)
            roots = [q for q, x in enumerate(b) if x.strip() and indent_of(x) == 0]
            q = rng.choice(roots) if roots else rng.randrange(len(b) + 1)
            b.insert(min(len(b), q + 1), " " * step + l.strip())
        elif m == "blank":
            i = rng.choice(inner)
            b[i] = rng.choice(["", " " * indent_of(b[i])])
        done.append(m)
    return b, done


def shared_parents(a, b):
    """number of (line number, text) pairs that are lines of both configs and are followed by a deeper line in one
    of them (= candidate parents the two instances share by value)"""
    n = 0
    for i in range(min(len(a), len(b))):
        if a[i] == b[i] and a[i].strip():
            da = i + 1 < len(a) and a[i + 1].strip() and indent_of(a[i + 1]) > indent_of(a[i])
            db = i + 1 < len(b) and b[i + 1].strip() and indent_of(b[i + 1]) > indent_of(b[i])
            if da or db:
                n += 1
    return n


PLANS = [[0, 1, 0], [0, 1, 0], [0, 1, 0], [0, 1, 0, 1], [1, 0, 1], [0, 1, 1, 0], [0, 0, 1, 0]]


def rand_plan(rng):
    return list(rng.choice(PLANS))


def option_variant(rng, syntax, ign, delims, syntaxes, delim_sets):
    """the options of B: mostly those of A, sometimes one of them changed"""
    r = rng.random()
    if r < 0.6:
        return syntax, ign, delims
    if r < 0.75:
        return rng.choice(syntaxes), ign, delims
    if r < 0.88:
        return syntax, not ign, delims
    return syntax, ign, rng.choice(delim_sets)


def buckets(case, prefix="pair"):
    a, b = case["cfgs"][0]["lines"], case["cfgs"][1]["lines"]
    out = [f"{prefix}:plan:" + "".join("AB"[i] for i in case["plan"]),
           f"{prefix}:shared-parents:%d" % min(6, shared_parents(a, b)),
           f"{prefix}:same-options:%d" % all(case["cfgs"][0].get(k) == case["cfgs"][1].get(k) for k in ("syntax", "ignore_blank", "delims"))]
    for m in sorted(set(case.get("mutations") or ["none"])):
        out.append(f"{prefix}:mutation:" + m)
    return out


# ------------------------------------------------------------------ edit histories on two live instances (C06, C07)
# An edit history on A with dumps / views / recursive searches of B in between (B must not change, A must follow its own
# model), then an edit history on B with the same watch on A.  The histories are run by the property's OWN history runner
# (editlib.run_history / edit7.run_history), unchanged: the instance it is to work on is handed to it in place of a fresh
# parse, and its operation list calls back before every operation.
import contextlib  # noqa: E402


class HookedOps(list):
    """an operation list whose FIRST iteration (the runner's main loop) calls hook(k) before operation k and hook(n)
    after the last one; every later iteration is that of a plain list"""

    def __init__(self, ops, hook):
        super().__init__(ops)
        self._hook, self._used = hook, False

    def __iter__(self):
        if self._used:
            return list.__iter__(self)
        self._used = True
        return self._walk()

    def _walk(self):
        k = -1
        for k, op in enumerate(list.__iter__(self)):
            self._hook(k)
            yield op
        self._hook(k + 1)


@contextlib.contextmanager
def preparsed(T, p):
    """inside: treelib's parse functions hand out the instance `p` instead of building a new one"""
    old = (T.parse_impl, T.parse_impl_opts)
    T.parse_impl = T.parse_impl_opts = lambda case: p
    try:
        yield
    finally:
        T.parse_impl, T.parse_impl_opts = old


# what the watch asks besides the dumps: two recursive searches (they walk every sub-tree, as the searches of C04 do)
WATCH_QUERIES = [{"api": "c2", "pats": [r"\S", r"\S"], "flags": "c"}, {"api": "p2", "pats": [r"\S", r"^\s+\S"], "flags": "c"}]


def watch(T, p, cfg):
    """[(letter, request line for the model | None, answer)] for one look at instance `p`, which must be in a committed
    state: `a` texts, line numbers, parents, child lists; `v` the seven family views of every line; `s` the recursive
    searches (answer format of C04).  The requests are ordinary `tree` / `search` requests about the texts the
    instance holds now, under its options."""
    from props import c04 as S
    texts = list(p.get_text())
    out = []
    for letter, op, dumper in (("a", "all", T.dump_all), ("v", "views", T.dump_views)):
        req = T.mk_case(op, cfg["syntax"], False, cfg["ignore_blank"], cfg["delims"], texts)["req"]
        out.append((letter, req, dumper(p)))
    for q in WATCH_QUERIES:
        sub = S.mk(dict(cfg, lines=texts), q)
        out.append(("s", sub["req"], S.observe(p, sub)))
    return out


def run_history_pair(T, cfgs, hist_cases, runner, parse):
    """cfgs[i]: options + lines of instance i; hist_cases[i]: the history case (for `runner`) of instance i.
    -> (answer, request).  Parts, in this order: `hA` A's history, `hB` B's history, then the watch parts
    `<letter><instance><phase>`: phase 0 = while A is edited (B is watched), phase 1 = while B is edited (A is watched)."""
    parses = [parse(hist_cases[0]), parse(hist_cases[1])]          # BOTH first
    watched = []                                                   # (label, req, text)

    def hook_for(phase):
        other = 1 - phase
        def hook(k):
            for letter, req, text in watch(T, parses[other], cfgs[other]):
                watched.append(("%s%s%d" % (letter, "AB"[other], phase), req, text))
        return hook

    hist = []
    for phase in (0, 1):
        case = dict(hist_cases[phase])
        case["ops"] = HookedOps(case["ops"], hook_for(phase))
        with preparsed(T, parses[phase]):
            hist.append(runner(case))
        assert case["ops"]._used, "the history runner did not walk its operation list"
    reqs, index = [], {}

    def tag(req):
        if req is None:
            return None
        if req not in index:
            index[req] = len(reqs)
            reqs.append(req)
        return index[req]

    parts = [(tag(hist[0][1]), "hA", hist[0][0]), (tag(hist[1][1]), "hB", hist[1][0])]
    parts += [(tag(req), label, text) for label, req, text in watched]
    return join_parts(parts), wrap_req(reqs)


def history_compare(text, model_text, label=""):
    if label[:1] == "s":
        return text.rsplit("&", 1)[0] == model_text      # C04's rule: the texts field is for the oracle only
    return text == model_text


def history_oracle(case, ans, sub_oracle):
    """each history judged by the property's oracle on its own case; the watched instance shows the same dump, views
    and search answers at every look, its dump is the one its own history starts / ends with, and the searches are a
    brute-force scan of that dump (C04's oracle)"""
    from props import c04 as S
    parts = split_labelled(ans)
    if parts is None:
        return ["pair runner: " + ans[:300]]
    by = {}
    for _, label, text in parts:
        by.setdefault(label, []).append(text)
    fails = []
    for i, label in enumerate(("hA", "hB")):
        if len(by.get(label, [])) != 1:
            return [f"pair runner: no answer of history {label}"]
        for f in sub_oracle(case["hist"][i], by[label][0]):
            fails.append(prefixed(i, i, f, "= the edit history on"))
    if fails:
        return fails[:3]
    steps = [[part.split("~", 2) for part in by[l][0].split("#")] for l in ("hA", "hB")]
    for phase, inst in ((0, 1), (1, 0)):
        who, other = "AB"[inst], "AB"[1 - inst]
        own = steps[inst][0] if phase == 0 else steps[inst][-1]
        for letter, what in (("a", "texts / line numbers / parents / child lists"), ("v", "family views"), ("s", "recursive search answers")):
            seen = by.get("%s%s%d" % (letter, who, phase), [])
            per = len(WATCH_QUERIES) if letter == "s" else 1
            for j in range(per, len(seen)):
                if seen[j] != seen[j % per]:
                    fails.append(prefixed(inst, inst, f"the {what} of instance {who} changed while only instance {other} was edited: "
                                                      f"look {j // per} shows {seen[j][:160]!r}, look 0 showed {seen[j % per][:160]!r}"))
                    break
            if letter == "a" and seen and own[1] != "-" and seen[0] != own[2]:
                fails.append(prefixed(inst, inst, f"instance {who} as seen while {other} is edited ({seen[0][:160]!r}) is not the state its own "
                                                  f"history {'starts' if phase == 0 else 'ends'} with ({own[2][:160]!r})"))
            if letter == "s":
                for j, text in enumerate(seen[:per]):
                    for f in S._single["oracle"](dict(WATCH_QUERIES[j], req=None), text):
                        fails.append(prefixed(inst, inst, f"watch of instance {who} while {other} is edited: {f}"))
    return fails[:3]


def history_known_id(case, failure, sub_known_id):
    k, rest = unprefix(failure)
    if k is None or k > 1:
        return None
    return sub_known_id(case["hist"][k], rest)
