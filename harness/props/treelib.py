"""Shared pieces for the tree properties C01–C07: config generators, the implementation
runner and canonical dumps (same format as lean/Ccp/Drv/Tree.lean)."""
import glob
import itertools
import os
import re

import wire
from props.common import quiet_ccp, REPO

SYNTAXES = ["ios", "nxos", "iosxr", "asa"]
DELIM_SETS = [None, ["#"], ["!", "#"], []]

# whitespace used for indentation / blank lines: blank, tab, NBSP, EM SPACE (all `str.isspace`)
WS = [" ", " ", " ", " ", "\t", " ", " "]
# words: only code points < 256 may be `\w` characters (the model's table stops there); the two
# characters >= 256 used below (EM SPACE, EURO SIGN) are not word characters — asserted in selfcheck()
WORDS = [
    "interface Ethernet1", "ip address 1.1.1.1 255.0.0.0", "shutdown", "a", "b", "router bgp 1",
    "x(y", "a.b*", "[z]", "^", "$", "{", "}", "x { y }", "été", "€5", "no ip proxy-arp",
    "line vty 0 4", "set foo", "banner", "banner motd", "macro name", "@x", "hostname R1", "!", "#",
    "aaa new-model", "description ^C not a banner", "end",
]
BANNER_KW = ["login", "motd", "incoming", "exec", "telnet", "lcd"]
BANNER_DELIMS = ["^", "#", "^C", "$", "~", "@", "!", "€"]


def selfcheck():
    assert all(c.isspace() for c in "".join(WS))
    assert not re.match(r"\w", "€") and not re.match(r"\w", " ")


def cfg_delims(syntax, delims):
    return ["!"] if delims is None else list(delims)


def mk_case(channel_op, syntax, factory, ignore_blank, delims, lines, origin="gen", extra=None):
    ds = cfg_delims(syntax, delims)
    case = {
        "syntax": syntax, "factory": bool(factory), "ignore_blank": bool(ignore_blank),
        "delims": delims, "lines": list(lines), "op": channel_op, "_origin": origin,
    }
    if extra:
        case.update(extra)
    if all(wire.wire_safe(l) for l in lines):
        case["req"] = wire.req(
            "tree", "1" if syntax == "ios" else "0", wire.enc_str("".join(ds)),
            "1" if ignore_blank else "0", channel_op, wire.enc_strs(lines))
    else:
        case["req"] = None
    return case


# ------------------------------------------------------------------ generators
def rand_indent(rng, maxi=4):
    k = rng.choice([0, 0, 0, 1, 1, 2, 2, 3, maxi])
    if rng.random() < 0.85:
        return " " * k
    return "".join(rng.choice(WS) for _ in range(k))


# what may trail a line that came out of a list (never produced by splitting a text at its line ends): blanks, tabs, a
# stray carriage return of a CRLF source, other `str.isspace` characters
TRAILERS = [" ", "  ", "\t", "\r", " \r", "\u00a0", "\x0c", " \t "]


def rand_plain_line(rng, delims, trail=0.0):
    kind = rng.random()
    ind = rand_indent(rng)
    tr = rng.choice(TRAILERS) if trail and rng.random() < trail else ""
    if kind < 0.62:
        return ind + rng.choice(WORDS) + tr
    if kind < 0.77:
        d = rng.choice((delims or ["!"]) + ["!", "#"])
        return ind + d + rng.choice(["", " comment", "x"]) + tr
    if kind < 0.87:
        return ""
    return "".join(rng.choice(WS) for _ in range(rng.choice([1, 1, 2, 3])))


def rand_banner_block(rng, delims):
    """a banner start, body and (maybe) terminator; exercises the hand-written scanners"""
    d = rng.choice(BANNER_DELIMS)
    kw = rng.choice(BANNER_KW)
    lead = rng.choice(["", "", "", "set ", "set  set ", "set\t"])
    form = rng.random()
    if form < 0.08:
        start = "aaa authentication fail-message " + d
    elif form < 0.16:
        start = f"{lead}banner  {kw} {d}"            # two blanks: start matches, delimiter regex does not
    elif form < 0.24:
        start = f"{lead}banner {kw}x{rng.choice(['', '_9'])} {d}hello"   # keyword is only a prefix of the type word
    elif form < 0.30:
        start = f"{lead}banner {kw}{d}"              # no blank before the delimiter
    elif form < 0.36:
        start = f"{lead}banner {kw} {d} one line {d}"  # begins and ends on one line
    elif form < 0.40:
        start = f"{lead}banner {kw}"                 # no delimiter at all
    elif form < 0.44:
        start = f" {lead}banner {kw} {d}"            # indented start: `^` anchors do not match
    else:
        start = f"{lead}banner{rng.choice([' ', ' ', chr(9), chr(0xa0)])}{kw}{rng.choice([' ', '  ', chr(9)])}{d}{rng.choice(['', 'text'])}"
    body = []
    for _ in range(rng.choice([0, 1, 2, 3, 5])):
        r = rng.random()
        if r < 0.25:
            body.append("")
        elif r < 0.4:
            body.append(rng.choice(WS) * rng.choice([1, 2]))
        elif r < 0.6:
            body.append(rand_indent(rng) + rng.choice(WORDS))
        elif r < 0.7:
            body.append(" " * rng.choice([1, 2]) + "deeper " + rng.choice(WORDS))
        elif r < 0.78:
            body.append(f"banner {rng.choice(BANNER_KW)} {rng.choice(BANNER_DELIMS)}")   # nested start
        else:
            body.append(rng.choice(["Unauthorized access", "! bang", "# hash", "x"]))
    if rng.random() < 0.8:
        body.append(rng.choice(["", " ", "end "]) + d + rng.choice(["", " trailing"]))
    return [start] + body


def rand_macro_block(rng):
    start = rng.choice(["macro name m1", "macro name  x y", "macro name ", " macro name m", "macro nameX"])
    body = []
    for _ in range(rng.choice([0, 1, 2, 4])):
        body.append(rng.choice(["", " ", " switchport", "  deeper", "interface X", "! c", "@ not end", "x@"]))
    if rng.random() < 0.75:
        body.append(rng.choice(["@", "@  ", "@\t"]))
    return [start] + body


def rand_config(rng, maxlen=12, banners=True, delims=None, trail=0.0):
    lines = []
    target = rng.choice([0, 1, 2, 3, 4, 6, 8, maxlen])
    while len(lines) < target:
        r = rng.random()
        if banners and r < 0.12:
            lines += rand_banner_block(rng, delims)
        elif banners and r < 0.18:
            lines += rand_macro_block(rng)
        else:
            lines.append(rand_plain_line(rng, delims, trail))
    return lines[: maxlen + 6]


_FIX = None


def fixture_configs():
    """vendor configs shipped with the test-suite (indentation syntaxes only)"""
    global _FIX
    if _FIX is None:
        out = []
        for path in sorted(glob.glob(os.path.join(REPO, "tests", "fixtures", "configs", "sample_*"))):
            name = os.path.basename(path)
            if any(x in name for x in ("junos", "f5", "paloalto", "brace")):
                continue
            try:
                text = open(path, encoding="latin-1").read()
            except OSError:
                continue
            lines = text.splitlines()
            if 0 < len(lines) <= 700 and all(wire.wire_safe(l) for l in lines):
                out.append((name, lines))
        _FIX = out
    return _FIX


def pattern_configs(maxlen, texts=("cmd", "other")):
    """every sequence of (indent 0..3) x (config, comment, blank) of length <= maxlen"""
    symbols = [(i, k) for i in range(4) for k in "cmb"]
    for n in range(1, maxlen + 1):
        for seq in itertools.product(symbols, repeat=n):
            yield [render_symbol(i, k, texts[j % 2]) for j, (i, k) in enumerate(seq)]


def render_symbol(indent, kind, text):
    if kind == "c":
        return " " * indent + text
    if kind == "m":
        return " " * indent + "! " + text
    return " " * indent


# ------------------------------------------------------------------ implementation
def parse_impl(case):
    quiet_ccp()
    from ciscoconfparse2 import CiscoConfParse
    kw = dict(syntax=case["syntax"], factory=case["factory"], ignore_blank_lines=case["ignore_blank"])
    if case["delims"] is not None:
        kw["comment_delimiters"] = list(case["delims"])
    if case.get("auto_commit") is not None:
        kw["auto_commit"] = case["auto_commit"]
    return CiscoConfParse(list(case["lines"]), **kw)


def lnums(objs):
    return wire.enc_nats([o.linenum for o in objs])


def dump_all(parse):
    objs = list(parse.objs)
    return "|".join([
        wire.enc_strs([o.text for o in objs]),
        lnums(objs),
        lnums([o.parent for o in objs]),
        ";".join(lnums(o.children) for o in objs),
    ])


def dump_links(parse):
    objs = list(parse.objs)
    return lnums([o.parent for o in objs]) + "|" + ";".join(lnums(o.children) for o in objs)


def dump_views(parse):
    out = []
    for o in parse.objs:
        out.append("/".join([
            lnums(o.all_children), lnums(o.all_parents), lnums(o.lineage), lnums(o.geneology),
            str(o.family_endpoint), lnums(o.siblings),
            ("1" if o.is_parent else "0") + ("1" if o.is_child else "0"),
        ]))
    return "|".join(out)


def run_impl(case, dumper):
    try:
        p = parse_impl(case)
    except BaseException as e:  # noqa: BLE001
        return "err:" + type(e).__name__
    return dumper(p)


# ------------------------------------------------------------------ reference semantics (oracles)
BANNER_RE = re.compile("|".join([r"^(set\s+)*banner\s+{}".format(k) for k in BANNER_KW] + ["aaa authentication fail-message"]))
BANNER_DELIM_RE = re.compile(r"^(?:(?P<btype>(?:set\s+)*banner\s\w+\s+)(?P<bchar>\S))")


def body_ranges(lines, ios):
    """index sets of banner bodies and (ios) macro bodies, written from the documentation of the
    format: a banner runs from its start line to the first later line containing the delimiter."""
    inside = set()
    for i, t in enumerate(lines):
        if BANNER_RE.search(t):
            m = BANNER_DELIM_RE.search(t)
            if m is None:
                continue
            d = m.group("bchar")
            if t.count(d) >= 2:
                continue
            for j in range(i + 1, len(lines)):
                if d in lines[j]:
                    break            # the terminating line is never blank
                inside.add(j)
    if ios:
        for i, t in enumerate(lines):
            if t[:11] == "macro name ":
                for j in range(i + 1, len(lines)):
                    inside.add(j)
                    if lines[j].rstrip() == "@":
                        break
    return inside


def ref_kept(lines, ios, ignore_blank):
    if not ignore_blank:
        return list(lines)
    keep_idx = body_ranges(lines, ios)
    return [t for i, t in enumerate(lines) if t.strip() != "" or i in keep_idx]


def ref_parents(lines, delims):
    """the indentation rule of property C02, for texts without banner/macro starts"""
    def indent(t):
        return len(t) - len(t.lstrip())

    def is_comment(t):
        s = t.lstrip()
        return bool(s) and s[0] in delims

    def is_cfg(t):
        return bool(t.lstrip()) and not is_comment(t)

    out = []
    for i, t in enumerate(lines):
        p = i
        if indent(t) > 0:
            for j in range(i - 1, -1, -1):
                if is_cfg(lines[j]) and indent(lines[j]) < indent(t):
                    p = j
                    break
            if is_comment(t) and i > 0 and indent(lines[i - 1]) > indent(t):
                p = i
        out.append(p)
    return out


# ------------------------------------------------------------------ banner / macro links (C02, C03)
# Reference semantics of the FINAL parent of every line, banner and macro bodies included: the Python
# twin of lean/Ccp/Spec/BannerLinks.lean (`specParentFull`), written from the regexes of the format, not
# from the model; validated against the real code on random banner/macro-heavy configs before the Lean
# proof was written (notes/design_notes.json, C02).
def banner_stretch(lines, b):
    """how many lines after line b become its children because b starts a banner: the body and the
    closing line (first later line containing the delimiter); to the end if there is none"""
    t = lines[b]
    if not BANNER_RE.search(t):
        return 0
    m = BANNER_DELIM_RE.search(t)
    if m is None:
        return 0
    d = m.group("bchar")
    if t.count(d) >= 2:
        return 0
    n = 0
    for j in range(b + 1, len(lines)):
        n += 1
        if d in lines[j].strip():
            break
    return n


def macro_stretch(lines, m):
    """… because m is a `macro name` line: up to and including the first line that is `@`"""
    if lines[m][:11] != "macro name ":
        return 0
    n = 0
    for j in range(m + 1, len(lines)):
        n += 1
        if lines[j].rstrip() == "@":
            break
    return n


def owners(lines, ios):
    """(macro owner or None, banner owner or None) of every line: the LAST start before the line whose
    stretch reaches it"""
    bs = [banner_stretch(lines, q) for q in range(len(lines))]
    ms = [macro_stretch(lines, q) if ios else 0 for q in range(len(lines))]
    out = []
    for i in range(len(lines)):
        mo = next((q for q in range(i - 1, -1, -1) if i - q <= ms[q]), None)
        bo = next((q for q in range(i - 1, -1, -1) if i - q <= bs[q]), None)
        out.append((mo, bo))
    return out


def ref_parents_full(lines, ios, delims):
    """macro owner, else banner owner, else the indentation rule"""
    base = ref_parents(lines, delims)
    return [mo if mo is not None else bo if bo is not None else base[i]
            for i, (mo, bo) in enumerate(owners(lines, ios))]


def link_features(lines, ios, delims):
    """which of the situations the full link specification talks about occur in this config"""
    f = set()
    n = len(lines)
    bs = [banner_stretch(lines, q) for q in range(n)]
    ms = [macro_stretch(lines, q) if ios else 0 for q in range(n)]
    base = ref_parents(lines, delims)
    own = owners(lines, ios)
    for q in range(n):
        if bs[q]:
            end = q + bs[q]
            if BANNER_DELIM_RE.search(lines[q]).group("bchar") not in lines[end].strip():
                f.add("banner:unterminated")
            elif lines[end][:1].isspace():
                f.add("banner:indented-close")
            if any(bs[r] for r in range(q + 1, end + 1)):
                f.add("banner:start-in-banner")
            if any(bs[r] and r + bs[r] > end for r in range(q + 1, end + 1)):
                f.add("banner:overlap-beyond-end")
            if any(ms[r] for r in range(q + 1, end + 1)):
                f.add("macro-start-in-banner")
        if ms[q]:
            end = q + ms[q]
            if lines[end].rstrip() != "@":
                f.add("macro:unterminated")
            if any(bs[r] for r in range(q + 1, end + 1)):
                f.add("banner-start-in-macro")
            if any(bs[r] and r + bs[r] > end for r in range(q + 1, end + 1)):
                f.add("banner-outlives-macro")
            if any(ms[r] for r in range(q + 1, end + 1)):
                f.add("macro:start-in-macro")
    for i, (mo, bo) in enumerate(own):
        o = mo if mo is not None else bo
        if o is not None and base[i] != o:
            f.add("body:reparented")
        if o is not None and base[i] not in (i, o) and own[base[i]] != (None, None):
            f.add("body:deeper-under-body-line")
        if o is None and base[i] != i and own[base[i]] != (None, None):
            f.add("after:parent-is-body-line")
        if mo is not None and bo is not None:
            f.add("macro-beats-banner")
    return f


# symbols of the exhaustive small-pattern stream: two banner starts with different delimiters, a macro start,
# the three kinds of closing line (plain, indented, embedded), body lines at three depths, a blank
LINK_SYMBOLS = ["banner motd ^", "banner exec #", "macro name m", "^", " ^", "x # y", "@", " a", "  b", "c", ""]


def link_pattern_configs(maxlen, symbols=None):
    symbols = LINK_SYMBOLS if symbols is None else symbols
    for n in range(1, maxlen + 1):
        for seq in itertools.product(symbols, repeat=n):
            if any(s[:6] in ("banner", "macro ") for s in seq):
                yield list(seq)


LINK_TOKENS = [
    "banner motd ^", "banner exec #", "banner login ^C", "set banner motd $", "banner motd ^ one ^", "banner motd",
    "banner  lcd ~", "aaa authentication fail-message ^", "banner incoming @", "banner telnet !",
    "macro name m", "macro name  n x", " macro name no", "macro name ",
    "^", " ^", "  ^ tail", "#", " #", "x # y", "^C", "$", "~", "@", "@ ", "@\t", " @", "@x", "!", " ! c", "! c",
    " a", "  b", "   c", " d", "e", "interface X", " shutdown", "  deeper", "", " ", "  ", "\ta", "  b",
]


def rand_link_config(rng, delims):
    """random sequence over tokens that start, continue and close banner / macro stretches at all depths"""
    n = rng.choice([2, 3, 4, 5, 6, 8, 10, 14])
    out = []
    for _ in range(n):
        r = rng.random()
        if r < 0.22:
            out.append(rng.choice(LINK_TOKENS[:14]))
        elif r < 0.5:
            out.append(rng.choice(LINK_TOKENS[14:31]))
        elif r < 0.9:
            out.append(rng.choice(LINK_TOKENS[31:]))
        else:
            out.append(rand_plain_line(rng, delims))
    return out


def rand_nested_config(rng, delims):
    """blocks of rand_banner_block / rand_macro_block spliced INTO one another, followed by dedenting tails"""
    lines = []
    for _ in range(rng.choice([1, 2, 3])):
        r = rng.random()
        blk = rand_banner_block(rng, delims) if r < 0.55 else rand_macro_block(rng) if r < 0.85 else rand_config(rng, 5, True, delims)
        if rng.random() < 0.6 and len(blk) > 1:
            k = rng.randrange(1, len(blk) + 1)
            inner = rand_banner_block(rng, delims) if rng.random() < 0.6 else rand_macro_block(rng)
            blk[k:k] = inner[: rng.choice([1, 2, 3, 9])]
        lines += blk
        if rng.random() < 0.6:
            lines += [rng.choice(["  deep", " x", "y", "   z", " ! c", "", "    w"]) for _ in range(rng.choice([1, 2, 3]))]
    return lines


# ------------------------------------------------------------------ parse options beyond syntax / factory / ignore_blank / delimiters
# (added for the coverage streams of C01–C03, C07).  Optional case keys, none of them changes what the model is asked:
#   "form"    "list" (default) | "tuple"        the accepted sequence types of CiscoConfParse(config=…)
#   "debug"   int                                 the `debug` parse option (loguru is silenced; only `if debug` code runs)
#   "aiw"     int                                 the `auto_indent_width` parse option (used by append_to_family only)
#   "auto_commit" bool | None                     as in parse_impl
OPTION_MENU = [
    {"form": "tuple"}, {"debug": 1}, {"debug": 5}, {"auto_commit": False}, {"aiw": 3}, {"aiw": 0},
    {"form": "tuple", "debug": 2, "auto_commit": False}, {"debug": 4, "aiw": 8},
]


def rand_options(rng, p=0.25):
    """{} with probability 1-p, else one entry of OPTION_MENU"""
    return dict(rng.choice(OPTION_MENU)) if rng.random() < p else {}


def with_options(case, opts):
    """attach parse options to a case (the request line for the model is unchanged: the model has no such inputs)"""
    if opts:
        case["opts"] = dict(opts)
    return case


def parse_impl_opts(case):
    quiet_ccp()
    from ciscoconfparse2 import CiscoConfParse
    opts = case.get("opts") or {}
    kw = dict(syntax=case["syntax"], factory=case["factory"], ignore_blank_lines=case["ignore_blank"])
    if case["delims"] is not None:
        kw["comment_delimiters"] = list(case["delims"])
    ac = opts.get("auto_commit", case.get("auto_commit"))
    if ac is not None:
        kw["auto_commit"] = ac
    if "debug" in opts:
        kw["debug"] = opts["debug"]
    if "aiw" in opts:
        kw["auto_indent_width"] = opts["aiw"]
    lines = list(case["lines"])
    return CiscoConfParse(tuple(lines) if opts.get("form") == "tuple" else lines, **kw)


def run_impl_opts(case, dumper):
    try:
        p = parse_impl_opts(case)
    except BaseException as e:  # noqa: BLE001
        return "err:" + type(e).__name__
    return dumper(p)


def opt_buckets(case):
    return ["opt:%s=%s" % kv for kv in sorted((case.get("opts") or {}).items())] or ["opt:none"]


# lines the typed-model factory classes (config_line_factory) claim, well-formed and not: the first group is accepted by a
# model, the second is rejected with an error by a model constructor (allowed by C01 with factory on), the third makes a
# constructor raise something the factory swallows (the line falls back to the default class)
FACTORY_LINES = {
    "ios": ["ip route 10.0.0.0 255.0.0.0 1.1.1.1", "ip route vrf x 1.1.1.0 255.255.255.0 Null0", "ip route 0.0.0.0 0.0.0.0 Vlan1 name x",
            "interface Serial1/0", " ip address 1.1.1.1 255.255.255.0", "line con 0", "line vty 0 4", "hostname R1",
            "interface", "interface ", "ip route", " ip route 10.0.0.0 255.0.0.0 1.1.1.1",
            "ip route junk", "ip route 1.1.1.1",
            "ipv6 route ::/0 Null0"],
    "nxos": ["vpc domain 1", "vpc domain", "interface Ethernet1/1", " switchport", "feature vpc", "line console", "hostname N1",
             "interface"],
    "iosxr": ["interface GigabitEthernet0/0/0/0", " ipv4 address 1.1.1.1 255.255.255.0", "interface", "hostname X1"],
    "asa": ["access-list INSIDE extended permit ip any any", "name 1.1.1.1 foo", "object network X", " host 1.1.1.1",
            "object-group network G", " network-object host 1.1.1.1", "object-group service S tcp", " port-object eq 80",
            "hostname fw", "interface GigabitEthernet0/0", " nameif inside", "name", "object network",
            "access-list x", "access-list junk junk", "name x y"],
}


def rand_factory_config(rng, syntax, delims):
    out = []
    for _ in range(rng.choice([1, 2, 3, 5, 8])):
        r = rng.random()
        if r < 0.6:
            w = rng.choice(FACTORY_LINES[syntax])
            out.append((rand_indent(rng) if rng.random() < 0.25 else "") + w + (rng.choice(TRAILERS) if rng.random() < 0.1 else ""))
        else:
            out.append(rand_plain_line(rng, delims))
    return out


# comment-delimiter sets beyond DELIM_SETS (any list of one-character strings is accepted by check_comment_delimiters):
# a letter, a brace, a non-ASCII sign, white space (can never be the first non-blank character), duplicates, three at once
EXOTIC_DELIM_SETS = [[";"], ["a"], ["i", "!"], ["{"], ["\u20ac"], ["\t"], [" ", "#"], ["!", "!"], ["!", ";", "#"], ["^"], ["@", "$"]]
