"""C13 — address objects obey ordering, equality, hashing and arithmetic laws."""
import ipaddress

import wire
from props import c12
from props.c12 import W, addr_text, make_obj, rand_ip, related, std_net
from props.common import quiet_ccp

ID = "C13"
LEAN_MODULES = ["Ccp.Props.C13"]
RULE = ("cmp: triples (sometimes 2, 4, 5 objects) built around a shared network: same address with prefix lengths l-1,l,l+1, "
        "hosts first/last/next of the network, neighbours differing in one bit, exact duplicates, plus unrelated addresses; "
        "every ordered pair is compared with <, >, ==, !=, in, hash(), and the list is sorted. "
        "seq: an object followed by 1..8 operations from {+n, -n, prefixlen=n, network_offset=n, network_offset, show}; "
        "integers are chosen so that results land on 0, 1, max-1, max, max+1, -1 and on the first/last address of the network, "
        "prefix lengths cover 0, 1, w-2, w-1, w and the illegal -1, w+1; offsets cover 0, 1, size-2, size-1, size, -1, -size. "
        "Each +n is often followed by -n (round trip). int: IPv4Obj(n)/IPv6Obj(n) for n around 0 and the maximum. "
        "non-trivial = cmp with two objects sharing the network number, or seq with an arithmetic/setter operation, distinct by "
        "request line. cmpx stream: 2..4 operands around one 32-bit pattern and one prefix length <= 32 - non-empty objects of either "
        "family (so that an IPv4 and an IPv6 object with the same integer and length meet), the empty objects IPv4Obj() / "
        "IPv6Obj(), a str - with <, >, ==, != of every ordered pair (escaping exception class included) and hash(), int(), "
        "__index__(), prefixlen, masklen, masklength, prefixlength, +1, -1, network_offset of every operand; the oracle judges "
        "the same-family non-empty pairs and the non-empty operands, the rest is compared with the model. seqx stream: sequences "
        "that assign the prefix length through all four names (prefixlen, masklen, masklength, prefixlength) with int and with str "
        "arguments (decimal text, leading zero, sign, blanks, empty, junk), assign network_offset a str or a float, add a str / "
        "subtract a float, and read the four length getters, int() and __index__() in between (dotted-netmask texts are C11's).")
LEVEL_TEXT = ("Theorems (Lean 4, all objects, any address width): __lt__ is the lexicographic order on (network, prefix length, address): "
              "irreflexive, asymmetric, transitive, trichotomous with __eq__; __gt__ is its flip; __eq__ iff same address and length; "
              "equal objects hash equal for any string hash; sorted() is an ordered permutation and puts a contained, more specific prefix "
              "after its container, so the first match in descending order is the longest match; x+n / x-n succeed exactly inside the address "
              "space, keep the prefix length and cancel; the prefixlen setter keeps the address; the network_offset setter sets it for "
              "every offset inside the network and rejects every other integer, negative ones included. On any operands (empty objects, "
              "the other family, a str): on two non-empty objects the operators are the modelled ones (numeric, also across families; "
              "IPv4Obj != IPv6Obj is always True); < and > raise ValueError as soon as one operand is empty or no address object; two "
              "empty objects of a family are equal, an empty and a non-empty one are not; a str never equals an object; hash() returns, "
              "int() is the address and the four length names agree on every non-empty object. masklen, masklength and (IPv4) "
              "prefixlength assign exactly as prefixlen (IPv6Obj.prefixlength has no setter: AttributeError); the decimal text of n "
              "assigns n, the decimal text of k is the offset k; other texts, a float offset and non-int operands of + / - are rejected "
              "(NetmaskValueError, ValueError, NotImplementedError, ValueError).")
LEVEL_NOTE = ("Trusted: Lean kernel; axioms propext/Classical.choice/Quot.sound only; the correspondence harness; the value-level reading "
              "of an object. hash() is uninterpreted in the model: only 'equal objects hash equal' is proved, and checked on the real hashes.")
EXHAUSTIVE = {"quick": False, "thorough": False}
ASSUMPTIONS = [
    "an object is read as (int(ip_object), int(network_object.network_address), network_object.prefixlen); text forms are C11",
    "str(ip_object) and str(prefixlen) are functions of the address and the length (used for eq_hash)",
    "setter arguments are ints or texts over digits, signs and blanks (a str netmask such as '255.255.0.0' is accepted by the code "
    "but not modelled here - text forms are C11)",
]
TRUSTED = ["stdlib ipaddress (used as the independent oracle for network numbers and bounds)"]


# ------------------------------------------------------------------ case constructors
def mk_cmp(fam, objs, origin="gen", tag="tri"):
    c = c12.mk_cmp(fam, objs, origin, tag)
    return c


def mk_seq(fam, ip, ln, ops, origin="gen", tag="seq"):
    return {"kind": "seq", "fam": fam, "obj": [int(ip), int(ln)], "ops": list(ops), "tag": tag,
            "req": wire.req("ipval", "seq", str(fam), f"{ip}/{ln}", *ops), "_origin": origin}


def mk_int(fam, n, origin="gen"):
    return {"kind": "int", "fam": fam, "n": int(n), "tag": "int",
            "req": wire.req("ipval", "int", str(fam), str(n)), "_origin": origin}


def mk_cmpx(args, origin="gen"):
    """<, >, ==, != of every ordered pair and hash / int / the length getters / +1 / -1 / network_offset of every operand, for
    operands [fam, ip, len] (an object), [fam, "e"] (the empty object IPv4Obj() / IPv6Obj()), ["o"] (a str)"""
    args = [list(a) for a in args]
    return {"kind": "cmpx", "args": args, "tag": "cmpx",
            "req": wire.req("ipvalx", "cmp", ";".join(c12.enc_arg(a) for a in args)), "_origin": origin}


def mk_seqx(fam, ip, ln, ops, origin="gen"):
    """an operation sequence that may use the other setter names, str / float arguments, non-int operands"""
    return {"kind": "seqx", "fam": fam, "obj": [int(ip), int(ln)], "ops": list(ops), "tag": "seqx",
            "req": wire.req("ipvalx", "seq", str(fam), f"{ip}/{ln}", *ops), "_origin": origin}


def from_corpus(c):
    if c["kind"] == "cmpx":
        return mk_cmpx(c["args"], "corpus")
    if c["kind"] == "seqx":
        return mk_seqx(c["fam"], c["obj"][0], c["obj"][1], c["ops"], "corpus")
    if c["kind"] == "cmp":
        return mk_cmp(c["fam"], c["objs"], "corpus")
    if c["kind"] == "seq":
        return mk_seq(c["fam"], c["obj"][0], c["obj"][1], c["ops"], "corpus")
    return mk_int(c["fam"], c["n"], "corpus")


# ------------------------------------------------------------------ generators
def shared_group(rng, fam):
    w = W[fam]
    top = (1 << w) - 1
    ip = rand_ip(rng, fam)
    ln = rng.choice([0, 1, 2, w - 2, w - 1, w, rng.randint(0, w), rng.randint(0, w)])
    size = 1 << (w - ln)
    net = ip >> (w - ln) << (w - ln)
    last = net + size - 1
    pool_ip = [ip, net, last, min(net + 1, last), max(last - 1, net), max(0, net - 1), min(top, last + 1),
               related(rng, fam, ip), related(rng, fam, ip), rand_ip(rng, fam)]
    pool_len = [ln, ln, max(0, ln - 1), min(w, ln + 1), w, 0, rng.randint(0, w)]
    n = rng.choice([2, 3, 3, 3, 3, 4, 5])
    objs = [[rng.choice(pool_ip), rng.choice(pool_len)] for _ in range(n)]
    if rng.random() < 0.3:
        objs[-1] = list(objs[0])          # an exact duplicate
    if rng.random() < 0.3:
        objs[1] = [objs[0][0], objs[1][1]]  # same address, other length
    return mk_cmp(fam, objs)


def rand_seq(rng, fam):
    w = W[fam]
    top = (1 << w) - 1
    r = rng.random()
    ip = rng.choice([0, 1, 2, top, top - 1, top - 2]) if r < 0.45 else rand_ip(rng, fam)
    ln = rng.choice([0, 1, w - 2, w - 1, w, rng.randint(0, w), rng.randint(0, w)])
    cur_ip, cur_len = ip, ln
    ops = []
    for _ in range(rng.choice([1, 2, 3, 4, 6, 8])):
        size = 1 << (w - cur_len)
        net = cur_ip >> (w - cur_len) << (w - cur_len)
        k = rng.random()
        if k < 0.4:
            target = rng.choice([0, 1, top - 1, top, top + 1, -1, net, net + size - 1, net + size, net - 1,
                                 rng.randint(0, top), cur_ip, cur_ip + rng.choice([-3, -1, 1, 2, 255, 256])])
            if rng.random() < 0.5:
                n = target - cur_ip
                ops.append(f"add:{n}")
                good = 0 <= target <= top
                if good and rng.random() < 0.6:
                    ops.append("show")
                    ops.append(f"sub:{n}")
                    ops.append("show")
                    continue          # back at cur_ip
            else:
                n = cur_ip - target
                ops.append(f"sub:{n}")
                good = 0 <= target <= top
            if good:
                cur_ip = target
        elif k < 0.6:
            n = rng.choice([0, 1, w - 2, w - 1, w, w + 1, -1, rng.randint(0, w), cur_len, cur_len + 1, max(0, cur_len - 1)])
            ops.append(f"len:{n}")
            if 0 <= n <= w:
                cur_len = n
        elif k < 0.8:
            n = rng.choice([0, 1, size - 2, size - 1, size, size + 1, rng.randrange(size), rng.randrange(size)]
                           + ([-1, -size, -net - 1, -net] if rng.random() < 0.15 else []))
            ops.append(f"off:{n}")
            if 0 <= n <= size - 1:
                cur_ip = net + n
            ops.append("goff")
        else:
            ops.append(rng.choice(["show", "goff", "hash"]))
        if rng.random() < 0.35:
            ops.append("hash")       # before the next mutation: a memoised hash would go stale
    ops.append("show")
    if rng.random() < 0.7:
        ops.append("hash")
    return mk_seq(fam, ip, ln, ops)


LEN_NAMES = ["prefixlen", "masklen", "masklength", "prefixlength"]


def rand_cmpx(rng):
    """2..4 operands around one 32-bit pattern and one prefix length <= 32, so that objects of the two families with the same
    integer and length meet (== is numeric across families), plus the empty objects and a str"""
    base = rand_ip(rng, 4)
    ln0 = rng.choice([0, 1, 8, 24, 31, 32, rng.randint(0, 32)])
    args = []
    for _ in range(rng.choice([2, 3, 3, 4])):
        r = rng.random()
        fam = rng.choice([4, 6])
        if r < 0.2:
            args.append([fam, "e"])
        elif r < 0.27:
            args.append(["o"])
        else:
            w = W[fam]
            ip = base if rng.random() < 0.5 else related(rng, 4, base)
            if rng.random() < 0.1:
                ip = rng.choice([0, (1 << w) - 1, rand_ip(rng, fam)])
            ln = ln0 if rng.random() < 0.6 else rng.choice([0, 1, 31, 32, w - 1, w, rng.randint(0, w)])
            args.append([fam, ip, min(ln, w)])
    return mk_cmpx(args)


def rand_text_int(rng, n):
    r = rng.random()
    t = str(n)
    if r < 0.15:
        t = "0" + t if n >= 0 else t
    elif r < 0.25:
        t = " " + t + rng.choice(["", " "])
    elif r < 0.32:
        t = "+" + t if n >= 0 else t
    elif r < 0.37:
        t = rng.choice(["", "x", "-", "1 2", "+-1", "1-"])
    return t


def rand_seqx(rng, fam):
    w = W[fam]
    top = (1 << w) - 1
    ip = rng.choice([0, 1, top, top - 1]) if rng.random() < 0.3 else rand_ip(rng, fam)
    ln = rng.choice([0, 1, w - 2, w - 1, w, rng.randint(0, w), rng.randint(0, w)])
    cur_len = ln
    ops = []
    for _ in range(rng.choice([1, 2, 3, 4, 6])):
        k = rng.random()
        n = rng.choice([0, 1, w - 2, w - 1, w, w + 1, -1, rng.randint(0, w), cur_len, cur_len + 1, max(0, cur_len - 1)])
        size = 1 << (w - cur_len)
        if k < 0.30:
            name = rng.choice(LEN_NAMES)
            ops.append(f"setl:{name}:{n}")
            if 0 <= n <= w and not (fam == 6 and name == "prefixlength"):
                cur_len = n
            ops.append("getl")
        elif k < 0.50:
            name = rng.choice(LEN_NAMES)
            t = rand_text_int(rng, n)
            ops.append(f"sets:{name}:{wire.enc_str(t)}")
            if t.isdigit() and 0 <= int(t) <= w and not (fam == 6 and name == "prefixlength"):
                cur_len = int(t)
            ops.append("getl")
        elif k < 0.68:
            m = rng.choice([0, 1, size - 2, size - 1, size, size + 1, rng.randrange(size), -1])
            ops.append("offs:" + wire.enc_str(rand_text_int(rng, m)))
            ops.append(rng.choice(["goff", "int"]))
        elif k < 0.76:
            ops.append(rng.choice(["offx", "addx", "subx"]))
        elif k < 0.88:
            ops.append(rng.choice(["int", "getl", "show", "hash"]))
        else:
            ops.append(rng.choice([f"add:{rng.choice([1, -1, 255, 256])}", f"len:{n}", f"off:{rng.randrange(size)}"]))
    ops.append("show")
    ops.append("getl")
    if rng.random() < 0.5:
        ops.append("hash")
    return mk_seqx(fam, ip, ln, ops)


def cases(rng, tier):
    n = {"quick": 12000, "thorough": 200000, "search": 4000}[tier]
    if tier != "search":
        for fam in (4, 6):
            top = (1 << W[fam]) - 1
            for v in [-2, -1, 0, 1, 2, top - 1, top, top + 1, top + 2, 1 << 31, 1 << 32, 1 << 127]:
                yield mk_int(fam, v)
    for i in range(n):
        fam = 4 if i % 2 == 0 else 6
        if i % 3 == 0:
            yield shared_group(rng, fam)
        else:
            yield rand_seq(rng, fam)
    # the other operands of the comparison operators, the other names of the setters, the other argument types
    for i in range({"quick": 1600, "thorough": 40000, "search": 1000}[tier]):
        if i % 2 == 0:
            yield rand_cmpx(rng)
        else:
            yield rand_seqx(rng, 4 if i % 4 == 1 else 6)


def neighbours(case, rng):
    if case["kind"] == "cmpx":
        for c in c12.neighbours({"kind": "inx", "args": case["args"]}, rng):
            yield mk_cmpx(c["args"])
        return
    if case["kind"] == "seqx":
        fam = case["fam"]
        for _ in range(300):
            ops = list(case["ops"])
            i = rng.randrange(len(ops))
            f = ops[i].split(":")
            if f[0] == "setl":
                ops[i] = f"setl:{rng.choice(LEN_NAMES)}:{int(f[2]) + rng.choice([-1, 0, 1])}"
            elif f[0] == "sets":
                ops[i] = f"sets:{rng.choice(LEN_NAMES)}:{wire.enc_str(rand_text_int(rng, rng.randint(-1, W[fam] + 1)))}"
            elif f[0] == "offs":
                ops[i] = "offs:" + wire.enc_str(rand_text_int(rng, rng.randint(-1, 300)))
            else:
                ops.insert(i, rng.choice(["getl", "int", "offx", "addx", "subx", "hash"]))
            ip, ln = case["obj"]
            if rng.random() < 0.3:
                ln = max(0, min(W[fam], ln + rng.choice([-1, 1])))
            yield mk_seqx(fam, ip, ln, ops)
        return
    fam = case["fam"]
    w = W[fam]
    if case["kind"] == "cmp":
        for c in c12.neighbours(case, rng):
            yield mk_cmp(fam, c["objs"])
        return
    if case["kind"] == "int":
        for d in range(-3, 4):
            yield mk_int(fam, case["n"] + d)
        return
    for _ in range(400):
        ops = list(case["ops"])
        i = rng.randrange(len(ops))
        name, _, arg = ops[i].partition(":")
        if arg:
            ops[i] = f"{name}:{int(arg) + rng.choice([-2, -1, 1, 2])}"
        ip, ln = case["obj"]
        if rng.random() < 0.3:
            ln = max(0, min(w, ln + rng.choice([-1, 1])))
        yield mk_seq(fam, ip, ln, ops)


def nontrivial(case):
    if case["kind"] == "cmpx":
        return len(case["args"]) >= 2
    if case["kind"] == "seqx":
        return any(o.split(":")[0] in ("setl", "sets", "offs", "offx", "addx", "subx") for o in case["ops"])
    if case["kind"] == "cmp":
        fam = case["fam"]
        nets = [(int(std_net(fam, ip, ln).network_address)) for ip, ln in case["objs"]]
        return len(set(nets)) < len(nets) and len({tuple(o) for o in case["objs"]}) > 1
    if case["kind"] == "seq":
        return any(o[:3] in ("add", "sub", "len", "off") for o in case["ops"])
    return True


def describe(case):
    if case["kind"] == "cmpx":
        return {"kind": "cmpx", "operands": c12.describe({"kind": "inx", "args": case["args"]})["operands"]}
    fam = case["fam"]
    if case["kind"] == "seqx":
        ip, ln = case["obj"]
        ops = []
        for o in case["ops"]:
            f = o.split(":")
            if f[0] == "sets":
                ops.append(f"{f[1]} = {wire.dec_str(f[2])!r}")
            elif f[0] == "setl":
                ops.append(f"{f[1]} = {f[2]}")
            elif f[0] == "offs":
                ops.append(f"network_offset = {wire.dec_str(f[1])!r}")
            else:
                ops.append({"offx": "network_offset = 1.5", "addx": "+ '1'", "subx": "- 1.0", "getl": "read the four length getters",
                            "int": "int() / __index__()"}.get(o, o))
        return {"kind": "seqx", "family": fam, "object": f"{addr_text(fam, ip)}/{ln}", "ops": ops}
    if case["kind"] == "cmp":
        return c12.describe(case)
    if case["kind"] == "seq":
        ip, ln = case["obj"]
        return {"kind": "seq", "family": fam, "object": f"{addr_text(fam, ip)}/{ln}", "ops": case["ops"]}
    return {"kind": "int", "family": fam, "n": case["n"]}


def buckets(case, ans):
    if case["kind"] == "cmpx":
        out = ["cmpx"]
        n = len(case["args"])
        body = ans.split("|")[0].split(",")
        what = lambda x: "str" if x[0] == "o" else f"empty{x[0]}" if x[1] == "e" else f"obj{x[0]}"  # noqa: E731
        for i, a in enumerate(case["args"]):
            for j, b in enumerate(case["args"]):
                if len(body) == n * n and a[0] != "o":
                    for opn, r in zip(("lt", "gt", "eq", "ne"), body[i * n + j].split("/")):
                        if opn in ("lt", "eq"):
                            out.append(f"cmpx:{what(a)} {opn} {what(b)}:{r}")
        return out
    fam = case["fam"]
    out = [f"v{fam}:{case['kind']}"]
    if case["kind"] == "seqx":
        for op, got in zip(case["ops"], ans.split("|")):
            f = op.split(":")
            name = f[0] + (":" + f[1] if f[0] in ("setl", "sets") else "")
            out.append(f"opx:v{fam}:{name}:" + (got if got.startswith("err") else "ok"))
    elif case["kind"] == "seq":
        for op, got in zip(case["ops"], ans.split("|")):
            name = op.split(":")[0]
            out.append(f"op:{name}:" + (got if got.startswith("err") else "ok"))
    elif case["kind"] == "cmp":
        out.append("cmp-n:%d" % len(case["objs"]))
        bits = ans.split("|")[0].split(",")
        out.append("pairs-lt:%d" % sum(b[0] == "T" for b in bits))
        out.append("pairs-eq-offdiag:%d" % ((sum(b[2] == "T" for b in bits) - len(case["objs"])) // 2))
    else:
        out.append("int:" + (ans if ans.startswith("err") else "ok"))
    return out


# ------------------------------------------------------------------ implementation
def exc_name(e):
    return "err:" + type(e).__name__


def show(fam, o):
    try:
        nh = str(o.numhosts)
    except NotImplementedError as e:
        nh = exc_name(e)
    top = o.as_decimal_broadcast if fam == 4 else o.as_decimal_network_maxint
    return f"{o.as_decimal},{o.as_decimal_network},{o.prefixlen},{top},{nh}"


def impl(case):
    quiet_ccp()
    from ciscoconfparse2.ccp_util import IPv4Obj, IPv6Obj
    from ciscoconfparse2.errors import RequirementFailure
    from ipaddress import AddressValueError, NetmaskValueError
    fam = case.get("fam")
    expected = (RequirementFailure, AddressValueError, NetmaskValueError, NotImplementedError)
    if case["kind"] == "cmp":
        ans, objs = c12.impl_cmp(case)
        return ans + "|H:" + ",".join(str(hash(o)) for o in objs)
    if case["kind"] == "cmpx":
        return impl_cmpx(case)
    if case["kind"] == "int":
        try:
            o = (IPv4Obj if fam == 4 else IPv6Obj)(case["n"])
        except expected as e:
            return exc_name(e)
        return show(fam, o)
    x = make_obj(fam, *case["obj"])
    out = []
    for op in case["ops"]:
        name, _, arg = op.partition(":")
        try:
            if name == "show":
                out.append(show(fam, x))
            elif name == "goff":
                out.append(str(x.network_offset))
            elif name == "hash":
                # hash now (an implementation may memoise it) and compare with a freshly built equal object
                h = hash(x)
                y = make_obj(fam, x.as_decimal, x.prefixlen)
                ok = (x == y) and (h == hash(y)) and (len({x, y}) == 1) and (y in {x: 1})
                out.append("h1" if ok else f"h0:eq={x == y},hash_eq={h == hash(y)},set={len({x, y})}")
            elif name == "add":
                x = x + int(arg)
                out.append("ok")
            elif name == "sub":
                x = x - int(arg)
                out.append("ok")
            elif name == "len":
                x.prefixlen = int(arg)
                out.append("ok")
            elif name == "off":
                x.network_offset = int(arg)
                out.append("ok")
            elif name == "setl":
                attr, _, val = arg.partition(":")
                assert attr in LEN_NAMES
                setattr(x, attr, int(val))
                out.append("ok")
            elif name == "sets":
                attr, _, val = arg.partition(":")
                assert attr in LEN_NAMES
                setattr(x, attr, wire.dec_str(val))
                out.append("ok")
            elif name == "offs":
                x.network_offset = wire.dec_str(arg)
                out.append("ok")
            elif name == "offx":
                x.network_offset = 1.5
                out.append("ok")
            elif name == "addx":
                x = x + "1"
                out.append("ok")
            elif name == "subx":
                x = x - 1.0
                out.append("ok")
            elif name == "getl":
                out.append(f"{x.prefixlen},{x.masklen},{x.masklength},{x.prefixlength}")
            elif name == "int":
                out.append(f"{int(x)},{int(x.__index__())}")
            else:
                raise AssertionError(op)
        except expected as e:
            out.append(exc_name(e))
        except (AttributeError, ValueError, TypeError) as e:
            if case["kind"] != "seqx":
                raise
            out.append(exc_name(e))
    return "|".join(out)


def impl_cmpx(case):
    import operator
    import warnings
    objs = [c12.build_arg(a) for a in case["args"]]
    caught = (ValueError, AttributeError, TypeError, AssertionError, NotImplementedError)

    def run(fn):
        try:
            r = fn()
        except caught as e:
            return exc_name(e)
        except Exception as e:  # noqa: BLE001  RequirementFailure and friends are plain Exceptions
            if type(e).__name__ == "RequirementFailure":
                return exc_name(e)
            raise
        if r is True or r is False:
            return "T" if r else "F"
        return "None" if r is None else "ok" if hasattr(r, "ip_object") else str(int(r))

    cells = []
    for a in objs:
        for b in objs:
            if isinstance(a, str):
                cells.append("-/-/-/-")      # the operators of str are not under test
                continue
            cells.append("/".join(run(lambda op=op: op(a, b)) for op in (operator.lt, operator.gt, operator.eq, operator.ne)))
    un = []
    with warnings.catch_warnings():
        warnings.simplefilter("ignore")          # IPv6Obj().__int__ returns False (DeprecationWarning)
        for a in objs:
            if isinstance(a, str):
                un.append("-")
                continue
            h = run(lambda: hash(a))
            un.append(";".join([
                h if h.startswith("err") else "h",
                run(lambda: int(a) + 0), run(lambda: int(a.__index__())),
                run(lambda: a.prefixlen), run(lambda: a.masklen), run(lambda: a.masklength), run(lambda: a.prefixlength),
                run(lambda: a + 1), run(lambda: a - 1), run(lambda: a.network_offset)]))
    return ",".join(cells) + "|" + ",".join(un)


def compare(case, impl_ans, model_ans):
    if case["kind"] == "cmp":
        return impl_ans.rsplit("|H:", 1)[0] == model_ans
    return impl_ans == model_ans


# ------------------------------------------------------------------ oracle (independent of the Lean model)
def key(fam, ip, ln):
    return (int(std_net(fam, ip, ln).network_address), ln, ip)


def oracle_cmp(case, ans):
    fam = case["fam"]
    objs = [tuple(o) for o in case["objs"]]
    n = len(objs)
    body, _, hashes = ans.partition("|H:")
    bits, _, srt = body.partition("|")
    bits = bits.split(",")
    hashes = hashes.split(",")
    if len(bits) != n * n or len(hashes) != n:
        return [f"malformed answer {ans[:80]}"]
    lt = {}; gt = {}; eq = {}; ne = {}; inn = {}
    for i in range(n):
        for j in range(n):
            b = bits[i * n + j]
            lt[i, j], gt[i, j], eq[i, j], ne[i, j], inn[i, j] = (c == "T" for c in b)
    fails = []
    name = lambda i: f"{addr_text(fam, objs[i][0])}/{objs[i][1]}"  # noqa: E731
    for i in range(n):
        if lt[i, i] or gt[i, i]:
            fails.append(f"{name(i)} {'<' if lt[i, i] else '>'} itself")
        if not eq[i, i] or ne[i, i]:
            fails.append(f"{name(i)} != itself")
        for j in range(n):
            ki, kj = key(fam, *objs[i]), key(fam, *objs[j])
            if lt[i, j] != (ki < kj):
                fails.append(f"{name(i)} < {name(j)} is {lt[i, j]}, keys (network, length, address) say {ki < kj}")
            if gt[i, j] != lt[j, i]:
                fails.append(f"> is not the flip of < on {name(i)}, {name(j)}")
            if lt[i, j] and lt[j, i]:
                fails.append(f"< is not asymmetric on {name(i)}, {name(j)}")
            if eq[i, j] != (objs[i] == objs[j]):
                fails.append(f"{name(i)} == {name(j)} is {eq[i, j]}")
            if ne[i, j] == eq[i, j]:
                fails.append(f"!= is not the negation of == on {name(i)}, {name(j)}")
            if eq[i, j] and hashes[i] != hashes[j]:
                fails.append(f"equal objects {name(i)}, {name(j)} hash differently")
            if (lt[i, j], eq[i, j], lt[j, i]).count(True) != 1:
                fails.append(f"not exactly one of <, ==, > holds for {name(i)}, {name(j)}")
            if inn[i, j] and objs[i][1] > objs[j][1] and not lt[j, i]:
                fails.append(f"{name(i)} is inside and more specific than {name(j)} but does not sort after it")
            for k in range(n):
                if lt[i, j] and lt[j, k] and not lt[i, k]:
                    fails.append(f"< is not transitive on {name(i)}, {name(j)}, {name(k)}")
    want_sorted = ";".join(f"{ip}/{ln}" for ip, ln in sorted(objs, key=lambda o: key(fam, *o)))
    if srt != want_sorted:
        fails.append(f"sorted() gives {srt[:100]}, expected {want_sorted[:100]}")
    return fails[:3]


def oracle_seq(case, ans):
    fam = case["fam"]
    w = W[fam]
    top = (1 << w) - 1
    ip, ln = case["obj"]
    got = ans.split("|")
    if len(got) != len(case["ops"]):
        return [f"malformed answer {ans[:80]}"]
    for op, g in zip(case["ops"], got):
        name, _, arg = op.partition(":")
        n = int(arg) if arg else None
        net = int(std_net(fam, ip, ln).network_address)
        last = int(std_net(fam, ip, ln).broadcast_address)
        here = f"{addr_text(fam, ip)}/{ln}"
        if name in ("add", "sub"):
            total = ip + n if name == "add" else ip - n
            if 0 <= total <= top:
                if g != "ok":
                    return [f"{here} {name} {n} raised {g} although the result {total} is an address"]
                ip = total
            elif g == "ok":
                return [f"{here} {name} {n} did not raise although the result {total} is outside the address space"]
        elif name == "len":
            if 0 <= n <= w:
                if g != "ok":
                    return [f"{here}.prefixlen = {n} raised {g}"]
                ln = n
            elif g == "ok":
                return [f"{here}.prefixlen = {n} did not raise"]
        elif name == "off":
            if 0 <= n <= last - net:
                if g != "ok":
                    return [f"{here}.network_offset = {n} raised {g}"]
                ip = net + n
            elif g == "ok":
                return [f"{here}.network_offset = {n} did not raise although it exceeds the boundaries of the subnet"
                        + (" (negative offset)" if n < 0 else "")]
        elif name == "hash":
            if g != "h1":
                return [f"{here}: after the operations so far the object and a freshly built equal object disagree on ==/hash/set membership ({g})"]
        elif name == "goff":
            if not g.startswith("err") and int(g) != ip - net:
                return [f"{here}.network_offset is {g}, expected {ip - net}"]
        elif name == "show":
            f = g.split(",")
            want = [str(ip), str(net), str(ln), str(last)]
            if f[:4] != want:
                return [f"after the operations the object is (address, network, length, last) = {f[:4]}, expected {want}"]
    return []


def oracle_int(case, ans):
    fam = case["fam"]
    w = W[fam]
    n = case["n"]
    if 0 <= n <= (1 << w) - 1:
        if ans.startswith("err"):
            return [f"integer {n} rejected with {ans}"]
        if ans.split(",")[:4] != [str(n), str(n), str(w), str(n)]:
            return [f"integer {n} gives {ans}"]
    elif not ans.startswith("err"):
        return [f"integer {n} outside the address space accepted"]
    return []


def oracle_cmpx(case, ans):
    """the property speaks about (non-empty) objects per family; empty objects, the other family and a str operand are only
    compared with the model"""
    args = case["args"]
    n = len(args)
    body, _, un = ans.partition("|")
    cells = body.split(",")
    un = un.split(",")
    if len(cells) != n * n or len(un) != n:
        return [f"malformed answer {ans[:80]}"]
    fails = []
    name = lambda a: f"{addr_text(a[0], a[1])}/{a[2]}"  # noqa: E731
    for i, a in enumerate(args):
        if len(a) == 3:
            f = un[i].split(";")
            if f[0] != "h":
                fails.append(f"hash({name(a)}) raised {f[0]}")
            if f[1] != str(a[1]) or f[2] != str(a[1]):
                fails.append(f"int() / __index__() of {name(a)} is {f[1]} / {f[2]}")
            if f[3:7] != [str(a[2])] * 4:
                fails.append(f"prefixlen, masklen, masklength, prefixlength of {name(a)} are {f[3:7]}")
        for j, b in enumerate(args):
            if len(a) == 3 and len(b) == 3 and a[0] == b[0]:
                ka, kb = key(a[0], a[1], a[2]), key(b[0], b[1], b[2])
                want = "/".join("T" if x else "F" for x in (ka < kb, ka > kb, ka == kb, ka != kb))
                if cells[i * n + j] != want:
                    fails.append(f"(<, >, ==, !=) of {name(a)} and {name(b)} is {cells[i * n + j]}, the keys (network, length, "
                                 f"address) say {want}")
    return fails[:3]


def oracle_seqx(case, ans):
    """the same bookkeeping as oracle_seq, for the other setter names and argument types; it stops judging as soon as the
    property no longer says what the state is (an accepted non-numeric text, an accepted non-int operand)"""
    fam = case["fam"]
    w = W[fam]
    ip, ln = case["obj"]
    got = ans.split("|")
    if len(got) != len(case["ops"]):
        return [f"malformed answer {ans[:80]}"]
    for k, (op, g) in enumerate(zip(case["ops"], got)):
        f = op.split(":")
        net = int(std_net(fam, ip, ln).network_address)
        last = int(std_net(fam, ip, ln).broadcast_address)
        here = f"{addr_text(fam, ip)}/{ln}"
        if f[0] in ("setl", "sets"):
            text = f[2] if f[0] == "setl" else wire.dec_str(f[2])
            numeric = text.lstrip("-").isdigit() and text.isascii() if f[0] == "setl" else (text.isdigit() and text.isascii())
            if fam == 6 and f[1] == "prefixlength":
                if g == "ok":        # IPv6Obj.prefixlength has no setter in the code; should it get one, the state is unknown here
                    return []
                continue
            if numeric and 0 <= int(text) <= w:
                if g != "ok":
                    return [f"{here}.{f[1]} = {text!r} raised {g}"]
                ln = int(text)
            elif numeric:
                if g == "ok":
                    return [f"{here}.{f[1]} = {text!r} did not raise"]
            elif g == "ok":
                return []
        elif f[0] == "offs":
            text = wire.dec_str(f[1])
            try:
                n = int(text)
            except ValueError:
                if g == "ok":
                    return []
                continue
            if 0 <= n <= last - net:
                if g != "ok":
                    return [f"{here}.network_offset = {text!r} raised {g}"]
                ip = net + n
            elif g == "ok":
                return [f"{here}.network_offset = {text!r} did not raise although it exceeds the boundaries of the subnet"]
        elif f[0] in ("offx", "addx", "subx"):
            if g == "ok":
                return []
        elif f[0] == "getl":
            if g != f"{ln},{ln},{ln},{ln}":
                return [f"{here}: prefixlen, masklen, masklength, prefixlength are {g}, expected {ln} four times"]
        elif f[0] == "int":
            if g != f"{ip},{ip}":
                return [f"{here}: int() / __index__() are {g}, expected {ip}"]
        else:
            # an operation of the seq stream: judge it with oracle_seq on the state reached so far
            sub = oracle_seq({"fam": fam, "obj": [ip, ln], "ops": [op]}, g)
            if sub:
                return sub
            name, _, arg = op.partition(":")
            if g == "ok":
                if name == "add":
                    ip += int(arg)
                elif name == "sub":
                    ip -= int(arg)
                elif name == "len":
                    ln = int(arg)
                elif name == "off":
                    ip = net + int(arg)
    return []


def oracle(case, ans):
    return {"cmp": oracle_cmp, "seq": oracle_seq, "int": oracle_int, "cmpx": oracle_cmpx, "seqx": oracle_seqx}[case["kind"]](case, ans)
