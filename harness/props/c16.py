"""C16 — MAC and EUI-64 objects: every rendering denotes the same address."""
import re

import wire
from props.common import quiet_ccp

ID = "C16"
LEAN_MODULES = ["Ccp.Props.C16"]
RULE = ("obj cases: kind in {MACObj, EUI64Obj}; a 48/64-bit value that is boundary-biased (0, 1, 2^n-1, 2^n-2, one bit, "
        "all-but-one bit, 00/ff/0f/f0/0a/a0/09/10 byte patterns, one leading zero byte, one nonzero byte, else uniform) "
        "spelled with one of the four templates (xx-xx-.., xx:xx:.., xxxx.xxxx.., bare hex) in upper, lower or per-letter "
        "random case; the second text (for ==/!=) is another spelling of the same value, a value one nibble or +-1 away, "
        "a value congruent modulo 2^61-1 / 2^32 / 2^48 / 2^56, an unrelated value or a malformed text. Twin stream: a 48-bit and a "
        "64-bit object with the same integer back to back. xeq stream: == and != between any two of MACObj, EUI64Obj, plain "
        "macaddress.EUI48, plain EUI64 (all 16 ordered combinations) with the same integer, one flipped bit, or one malformed "
        "text. Malformed stream: near misses derived from a valid spelling (one group "
        "short, one group long, a 1-digit group, a 3-digit group, mixed or foreign separators, 13/17 hex digits, one non-hex "
        "letter incl. 'x', 'X', 'g', full-width and Arabic-Indic digits, blanks / tab / newline before or after, '0x' prefix, "
        "the spelling of the other size, shifted separators, empty string). classify cases: macaddress.parse(word, MAC, EUI64) "
        "as MACEUISearch calls it, on the same streams, together with str()/repr() of the MACEUISearch object. show cases: "
        "str(obj) / repr(obj) of MACObj / EUI64Obj on every eighth obj text (valid or near miss). search cases: "
        "MACEUISearch(word).search_all_formats(set of 0-3 regexes); the word is a spelling of a boundary-biased value (12% a near "
        "miss), each regex a piece (whole text, prefix, suffix, 1-12 characters, also across byte boundaries) of the dash / colon / "
        "Cisco / undelimited text of the same value, of a value one nibble away or of an unrelated value, in upper / lower / mixed "
        "case, a quarter with characters replaced by the wildcard '.', some extended by one character, 3% empty; only regexes over "
        "hex digits, '-', ':' and '.' are generated (the model implements that fragment of `re`). formats cases: the model's templates against macaddress' class "
        "attributes (the same templates are also a generated table, proved equal to the model's). non-trivial = an obj, classify "
        "classify, xeq, show or search case with a non-empty text, distinct by request line. Only str "
        "arguments are generated (int/bytes/object arguments of the constructors are outside the property); lone "
        "surrogates are not generated.")
LEVEL_TEXT = ("Theorems (Lean 4, all 2^48 / 2^64 values, all strings): every rendering is the lower-case two-hex-digit bytes of the "
              "value joined by the right separator; every rendering (and the separator-free form) constructs back the same value; a "
              "text is accepted iff it instantiates one of the four templates of its size with hex digits of either case, and then "
              "its value is the number its hex digits spell, below 2^size; two accepted texts compare == iff their values are equal; "
              "texts of any other length and near misses are rejected with ValueError; ofHex(toHex w v) = v. Classification "
              "(macaddress.parse(word, MAC, EUI64) of MACEUISearch): a word is classified as the 48-bit (64-bit) kind with value v iff "
              "the constructor of that kind accepts it with value v, iff it instantiates a template of that size - never both - and is "
              "rejected iff it instantiates none. == between any two of MACObj, EUI64Obj, plain EUI48, plain EUI64 built from accepted "
              "texts is true iff same size and same address; the same integer in the other size is never equal. str(obj)/repr(obj) is '<MACObj T>' / '<EUI64Obj T>' with T the dash template "
              "filled with the upper-case digits, T lower-cased is the dash rendering and T constructs the same value; "
              "str(MACEUISearch(word)) names the word and the Cisco rendering of what it was classified as (or None); "
              "search_all_formats(regexes) is true iff the word is an address and some regex is found in its dash, colon, Cisco or "
              "undelimited text (regex fragment: hex digits, '-', ':' literal, '.' wildcard, re.I), any rendering used as the regex "
              "finds every spelling of its address, and a metacharacter-free lower-case regex is found iff it is a substring of one "
              "of the four texts. The model's templates, "
              "sizes and hex alphabet equal those of the installed macaddress package (generated table, decide). The model (templates as "
              "data, macaddress._parse narrowing loop, HWAddress.__str__, the split/f-string renderings, __eq__ on lower-cased dash "
              "text) is tied to MACObj/EUI64Obj by differential runs on every check.")
LEVEL_NOTE = ("Trusted: Lean kernel; axioms propext/Classical.choice/Quot.sound only; the correspondence harness. macaddress 2.0.2 is "
              "modelled, not verified: its templates and its _parse/__str__ are re-implemented in Lean and agreement is measured "
              "(its templates, sizes and _HEX_DIGITS are regenerated from the installed package into Ccp.Gen.Tables on every run and "
              "proved equal to the model's by `templates_as_modelled`; they are also compared by a run-time request). Python's choice of "
              "which __eq__ runs (reflected call first when the right operand is a subclass instance) is written into the model's objEq "
              "and measured. Proved about the model, measured against the code.")
SERIAL = False
EXHAUSTIVE = {"quick": False, "thorough": False}
ASSUMPTIONS = [
    "constructor argument is a str without lone surrogates",
    "the macaddress templates for EUI48/EUI64 are read by importing the installed third-party module (it is not in /repo); "
    "theorem templates_as_modelled fails to check if they differ from lean/Ccp/Model/Mac.lean",
    "str.lower() is applied only to the ASCII output of HWAddress.__str__, so the model's ASCII lower-casing suffices",
]
TRUSTED = ["macaddress._parse / HWAddress.__str__ re-implemented in the model (modelled, not verified)"]

KINDS = {"mac": 6, "eui64": 8}
TEMPLATES = ["dash", "colon", "cisco", "bare"]


# ------------------------------------------------------------------ spelling (generator side)
def spell(nbytes, value, template, case, rng):
    digits = format(value, "0%dx" % (2 * nbytes))
    if case == "upper":
        digits = digits.upper()
    elif case == "mixed":
        digits = "".join(d.upper() if rng.random() < 0.5 else d for d in digits)
    if template == "dash":
        return "-".join(digits[i:i + 2] for i in range(0, len(digits), 2))
    if template == "colon":
        return ":".join(digits[i:i + 2] for i in range(0, len(digits), 2))
    if template == "cisco":
        return ".".join(digits[i:i + 4] for i in range(0, len(digits), 4))
    return digits


def rand_value(nbytes, rng):
    bits = 8 * nbytes
    top = (1 << bits) - 1
    r = rng.random()
    if r < 0.10:
        return rng.choice([0, 1, 2, 15, 16, 255, 256, top, top - 1, top - 15, top >> 1, (top >> 1) + 1, 1 << (bits - 8)])
    if r < 0.20:
        return 1 << rng.randrange(bits)
    if r < 0.27:
        return top ^ (1 << rng.randrange(bits))
    if r < 0.50:
        pats = [0x00, 0xff, 0x0f, 0xf0, 0x0a, 0xa0, 0x09, 0x10, 0x9a, 0xa9, 0x01, 0x99, 0xaa]
        return int.from_bytes(bytes(rng.choice(pats) for _ in range(nbytes)), "big")
    if r < 0.58:
        return rng.getrandbits(bits - 8)          # leading zero byte
    if r < 0.64:
        return rng.randrange(1, 256) << (8 * rng.randrange(nbytes))   # one nonzero byte
    return rng.getrandbits(bits)


def malform(s, nbytes, rng):
    """a near miss derived from the valid spelling s; returns (text, tag)"""
    seps = [i for i, c in enumerate(s) if c in "-:."]
    hexpos = [i for i, c in enumerate(s) if c not in "-:."]
    kind = rng.choice(["short_group", "long_group", "one_digit", "three_digit", "mixed_sep", "foreign_sep", "extra_digit",
                       "missing_digit", "nonhex", "blank_before", "blank_after", "prefix0x", "shift_sep", "dup_sep",
                       "unicode_digit", "lead_sep", "trail_sep", "case_x"])
    t = s
    if kind == "short_group":
        t = s[:seps[-1]] if seps else s[:-2]
    elif kind == "long_group":
        sep = s[seps[0]] if seps else ""
        t = s + sep + s[-(seps[0] if seps else 2):]
    elif kind == "one_digit":
        i = rng.choice(hexpos)
        t = s[:i] + s[i + 1:]
    elif kind == "three_digit":
        i = rng.choice(hexpos)
        t = s[:i] + rng.choice("0a9F") + s[i:]
    elif kind == "mixed_sep" and seps:
        i = rng.choice(seps)
        t = s[:i] + rng.choice([c for c in "-:." if c != s[i]]) + s[i + 1:]
    elif kind == "foreign_sep" and seps:
        i = rng.choice(seps)
        t = s[:i] + rng.choice(" _/,;|‐") + s[i + 1:]
    elif kind == "extra_digit":
        t = s + rng.choice("0f") if rng.random() < 0.5 else rng.choice("0f") + s
    elif kind == "missing_digit":
        t = s[1:] if rng.random() < 0.5 else s[:-1]
    elif kind == "nonhex":
        i = rng.choice(hexpos)
        t = s[:i] + rng.choice("gGxXzZ@`/:oOlI") + s[i + 1:]
    elif kind == "blank_before":
        t = rng.choice([" ", "\t", "\n", "  ", " "]) + s
    elif kind == "blank_after":
        t = s + rng.choice([" ", "\t", "\n", "\r\n", " "])
    elif kind == "prefix0x":
        t = "0x" + s
    elif kind == "shift_sep" and seps:
        i = rng.choice(seps)
        j = i + rng.choice([-1, 1])
        if 0 <= j < len(s):
            l = list(s)
            l[i], l[j] = l[j], l[i]
            t = "".join(l)
    elif kind == "dup_sep" and seps:
        i = rng.choice(seps)
        t = s[:i] + s[i] + s[i:]
    elif kind == "unicode_digit":
        i = rng.choice(hexpos)
        t = s[:i] + rng.choice(["０", "١", "Ａ", "ａ", "²"]) + s[i + 1:]
    elif kind == "lead_sep":
        t = rng.choice("-:.") + s
    elif kind == "trail_sep":
        t = s + rng.choice("-:.")
    elif kind == "case_x":
        i = rng.choice(hexpos)
        t = s[:i] + "x" + s[i + 1:]
    if t == s:
        t, kind = s[:-1], "missing_digit"
    return t, kind


def mk_obj(kind, s1, s2, meta=None, origin="gen"):
    c = {"op": "obj", "kind": kind, "s1": s1, "s2": s2, "meta": meta or {},
         "req": wire.req("mac", "obj", kind, wire.enc_str(s1), wire.enc_str(s2)), "_origin": origin}
    return c


def mk_classify(s, meta=None, origin="gen"):
    return {"op": "classify", "s1": s, "meta": meta or {}, "req": wire.req("mac", "classify", wire.enc_str(s)), "_origin": origin}


def mk_xeq(k1, f1, s1, k2, f2, s2, meta=None, origin="gen"):
    """`a == b` / `a != b` between any two objects: f = 'w' (MACObj / EUI64Obj) or 'p' (plain macaddress object)"""
    return {"op": "xeq", "k1": k1, "f1": f1, "s1": s1, "k2": k2, "f2": f2, "s2": s2, "meta": meta or {},
            "req": wire.req("mac", "xeq", k1, f1, wire.enc_str(s1), k2, f2, wire.enc_str(s2)), "_origin": origin}


def mk_show(kind, s, meta=None, origin="gen"):
    """`str(obj)` / `repr(obj)` of a MACObj / EUI64Obj"""
    return {"op": "show", "kind": kind, "s1": s, "meta": meta or {},
            "req": wire.req("mac", "show", kind, wire.enc_str(s)), "_origin": origin}


RX_ALPHABET = set("0123456789abcdefABCDEF-:.")


def mk_search(word, rgxs, meta=None, origin="gen"):
    """`MACEUISearch(word).search_all_formats(set(rgxs))`; every regex is made of hex digits, '-', ':' (literals) and '.'"""
    rgxs = sorted(set(rgxs))
    return {"op": "search", "s1": word, "rgxs": rgxs, "meta": meta or {},
            "req": wire.req("mac", "search", wire.enc_str(word), wire.enc_strs(rgxs)), "_origin": origin}


def mk_formats(kind):
    return {"op": "formats", "kind": kind, "meta": {}, "req": wire.req("mac", "formats", kind), "_origin": "gen"}


def from_corpus(c):
    if c.get("op") == "classify":
        return mk_classify(c["s1"], origin="corpus")
    if c.get("op") == "xeq":
        return mk_xeq(c["k1"], c["f1"], c["s1"], c["k2"], c["f2"], c["s2"], origin="corpus")
    if c.get("op") == "show":
        return mk_show(c["kind"], c["s1"], origin="corpus")
    if c.get("op") == "search":
        return mk_search(c["s1"], c["rgxs"], origin="corpus")
    return mk_obj(c["kind"], c["s1"], c.get("s2", ""), origin="corpus")


FIXED_BAD = ["", " ", "x", "0", "-", "xx-xx-xx-xx-xx-xx", "xxxx.xxxx.xxxx", "xxxxxxxxxxxx", "XXXX.XXXX.XXXX",
             "0123.45ab.cde", "0123.45ab.cdef.", "0123.45ab", "01-23-45:ab-cd-ef", "01:23:45:ab:cd", "1:23:45:ab:cd:ef",
             "0123456789abc", "0123456789ab ", " 0123456789ab", "0123-45ab-cdef", "0123:45ab:cdef", "01.23.45.ab.cd.ef",
             "012345.abcdef", "01-23-45-ab-cd-ef-", "-01-23-45-ab-cd-ef", "01--23-45-ab-cd-ef", "0123.45ab.cdef\n",
             "0123.45ab.cdeg", "+123.45ab.cdef", "0x123.45ab.cdef", "0123.45ab.cdef.0001.", "01-23-45-ab-cd-ef-00",
             "0123.45ab.cdef.00", "0123456789abcdef0", "0123456789abcde", "01:23:45:ab:cd:ef:00:0", "01-23-45-ab-cd-ef-00-0g"]


def _one_obj(rng, p_bad):
    kind = rng.choice(["mac", "mac", "eui64"])
    nb = KINDS[kind]
    v = rand_value(nb, rng)
    tpl = rng.choice(TEMPLATES)
    case = rng.choice(["upper", "lower", "mixed"])
    s1 = spell(nb, v, tpl, case, rng)
    meta = {"value": v, "tpl": tpl, "case": case, "valid": True}
    if rng.random() < p_bad:
        r = rng.random()
        if r < 0.12:
            s1, tag = rng.choice(FIXED_BAD), "fixed"
        elif r < 0.22:
            other = "eui64" if kind == "mac" else "mac"
            s1, tag = spell(KINDS[other], rand_value(KINDS[other], rng), tpl, case, rng), "other_size"
        else:
            s1, tag = malform(s1, nb, rng)
        meta = {"valid": False, "tag": tag, "tpl": tpl}
    # second text
    r = rng.random()
    if r < 0.40:
        w, rel = v, "same"
    elif r < 0.60:
        w, rel = v ^ (rng.randrange(1, 16) << (4 * rng.randrange(2 * nb))), "nibble"
    elif r < 0.70:
        w, rel = (v + rng.choice([-1, 1])) % (1 << (8 * nb)), "plusminus1"
    elif r < 0.76:
        # distinct values that collide under CPython's integer hash (modulus 2**61 - 1) or in their low / high bits
        k = rng.choice([(1 << 61) - 1, 2 * ((1 << 61) - 1), 1 << 32, 1 << 48, 1 << 56, (1 << 31) - 1])
        w, rel = (v + rng.choice([-1, 1]) * k) % (1 << (8 * nb)), "congruent"
        if w == v:
            w = (v + 1) % (1 << (8 * nb))
    elif r < 0.85:
        w, rel = rand_value(nb, rng), "unrelated"
    else:
        w, rel = v, "malformed"
    s2 = spell(nb, w, rng.choice(TEMPLATES), rng.choice(["upper", "lower", "mixed"]), rng)
    if rel == "malformed":
        s2, _ = malform(s2, nb, rng)
    meta["rel"] = rel
    return mk_obj(kind, s1, s2, meta)


def _one_regex(nb, v, rng):
    """a regex over hex digits, '-', ':' and '.': a piece of one of the four texts search_all_formats tries (dash, colon,
    cisco, undelimited) of the value `v` or of a neighbour, in any letter case, possibly with some characters wildcarded"""
    r = rng.random()
    w = v
    if r < 0.30:
        w = v ^ (rng.randrange(1, 16) << (4 * rng.randrange(2 * nb)))       # one nibble away
    elif r < 0.36:
        w = rand_value(nb, rng)
    tpl = rng.choice(TEMPLATES)
    text = spell(nb, w, tpl, rng.choice(["upper", "lower", "lower", "mixed"]), rng)
    r = rng.random()
    if r < 0.25:
        piece = text                                                        # the whole text
    elif r < 0.35:
        piece = text[:rng.randrange(1, len(text))]                          # a prefix
    elif r < 0.45:
        piece = text[rng.randrange(1, len(text)):]                          # a suffix
    else:
        a = rng.randrange(len(text))
        piece = text[a:a + rng.choice([1, 2, 3, 4, 5, 6, 8, 12])]
    if rng.random() < 0.25:
        piece = "".join("." if rng.random() < 0.3 else ch for ch in piece)
    r = rng.random()
    if r < 0.03:
        piece = ""
    elif r < 0.08:
        piece = piece + rng.choice("0f-:.")
    elif r < 0.12:
        piece = rng.choice("0f-:.") + piece
    return piece


def _one_search(rng):
    kind = rng.choice(["mac", "mac", "eui64"])
    nb = KINDS[kind]
    v = rand_value(nb, rng)
    word = spell(nb, v, rng.choice(TEMPLATES), rng.choice(["upper", "lower", "mixed"]), rng)
    tag = "valid"
    if rng.random() < 0.12:
        word, tag = malform(word, nb, rng)
    rgxs = [_one_regex(nb, v, rng) for _ in range(rng.choice([0, 1, 1, 1, 1, 2, 3]))]
    return mk_search(word, rgxs, {"tag": tag, "value": v})


def cases(rng, tier):
    if tier != "search":
        for k in KINDS:
            yield mk_formats(k)
        for kind, nb in KINDS.items():
            top = (1 << (8 * nb)) - 1
            for v in [0, 1, top, top - 1, 0x0123456789abcdef & top, 0x00000a0b0c0d, 0xa0b0c0d0e0f0 & top]:
                for tpl in TEMPLATES:
                    for case in ["upper", "lower", "mixed"]:
                        s = spell(nb, v, tpl, case, rng)
                        yield mk_obj(kind, s, spell(nb, v, rng.choice(TEMPLATES), "lower", rng),
                                     {"value": v, "tpl": tpl, "case": case, "valid": True, "rel": "same"})
            for b in FIXED_BAD:
                yield mk_obj(kind, b, b, {"valid": False, "tag": "fixed", "rel": "malformed", "tpl": "-"})
        for b in FIXED_BAD:
            yield mk_classify(b, {"tag": "fixed"})
    # twins: a 48-bit and a 64-bit object with the SAME integer value, built back to back in one worker process
    # (both orders); an answer that depends on anything but the object itself — a cache keyed on the value,
    # shared class state — shows up as a disagreement on the second of the pair
    for i in range({"quick": 300, "thorough": 5000, "search": 100}[tier]):
        v = rand_value(6, rng) if i % 3 else rng.choice([0, 1, 0x1DEADBEEF, (1 << 48) - 1, 0xFFFF])
        pair = []
        for kind in (["eui64", "mac"] if i % 2 else ["mac", "eui64"]):
            nb = KINDS[kind]
            tpl = rng.choice(TEMPLATES)
            pair.append(mk_obj(kind, spell(nb, v, tpl, "lower", rng), spell(nb, v, rng.choice(TEMPLATES), "upper", rng),
                               {"value": v, "tpl": tpl, "case": "lower", "valid": True, "rel": "same", "twin": True}))
        yield from pair
    # == across sizes and wrapper / plain objects: the same integer (or a neighbour) in every combination
    forms = [(k, f) for k in KINDS for f in "wp"]
    for i in range({"quick": 400, "thorough": 20000, "search": 200}[tier]):
        v = rand_value(6, rng) if i % 4 else rng.choice([0, 1, 0xFF, (1 << 48) - 1, 0x1DEADBEEF])
        (k1, f1), (k2, f2) = rng.choice(forms), rng.choice(forms)
        r = rng.random()
        w, rel = (v, "same") if r < 0.6 else (v ^ (1 << rng.randrange(48)), "bit") if r < 0.85 else (v, "malformed")
        s1 = spell(KINDS[k1], v, rng.choice(TEMPLATES), rng.choice(["upper", "lower", "mixed"]), rng)
        s2 = spell(KINDS[k2], w, rng.choice(TEMPLATES), rng.choice(["upper", "lower", "mixed"]), rng)
        if rel == "malformed":
            if rng.random() < 0.5:
                s1, _ = malform(s1, KINDS[k1], rng)
            else:
                s2, _ = malform(s2, KINDS[k2], rng)
        yield mk_xeq(k1, f1, s1, k2, f2, s2, {"rel": rel})
    n = {"quick": 5000, "thorough": 400000, "search": 3000}[tier]
    for i in range(n):
        c = _one_obj(rng, 0.35)
        yield c
        if i % 5 == 0:
            yield mk_classify(c["s1"], {"tag": c["meta"].get("tag", "valid")})
        if i % 8 == 1:
            # str() / repr() of the object built from the same text (valid or near miss)
            yield mk_show(c["kind"], c["s1"], {"tag": c["meta"].get("tag", "valid")})
    # macgrep's search: MACEUISearch(word).search_all_formats({regex, ...})
    for i in range({"quick": 1500, "thorough": 60000, "search": 600}[tier]):
        yield _one_search(rng)


def neighbours(case, rng):
    if case.get("op") == "formats":
        return
    s = case["s1"]
    alphabet = "0123456789abcdefABCDEF-:.xg "
    for _ in range(400):
        t = list(s)
        r = rng.random()
        if t and r < 0.35:
            del t[rng.randrange(len(t))]
        elif t and r < 0.7:
            t[rng.randrange(len(t))] = rng.choice(alphabet)
        else:
            t.insert(rng.randrange(len(t) + 1), rng.choice(alphabet))
        t = "".join(t)
        if case["op"] == "classify":
            yield mk_classify(t)
        elif case["op"] == "show":
            yield mk_show(case["kind"], t)
        elif case["op"] == "search":
            if rng.random() < 0.5:
                yield mk_search(t, case["rgxs"])
            else:
                g = rng.choice(case["rgxs"] or [""])
                j = rng.randrange(len(g) + 1)
                g2 = g[:j] + rng.choice("0123456789abcdefABCDEF-:.") + g[j + rng.choice([0, 1]):]
                yield mk_search(s, [g2] + [x for x in case["rgxs"] if x != g])
        elif case["op"] == "xeq":
            yield mk_xeq(case["k1"], case["f1"], t, case["k2"], case["f2"], case["s2"])
        else:
            yield mk_obj(case["kind"], t, case["s2"] if rng.random() < 0.5 else s, {"valid": None, "rel": "?"})


def nontrivial(case):
    return case["op"] in ("obj", "classify", "xeq", "show", "search") and case["s1"] != ""


def describe(case):
    d = {"op": case["op"]}
    for k in ("kind", "k1", "f1", "s1", "k2", "f2", "s2", "rgxs"):
        if k in case:
            d[k] = case[k]
    return d


def buckets(case, ans):
    out = ["op:" + case["op"]]
    m = case.get("meta", {})
    if case["op"] == "obj":
        out.append("kind:" + case["kind"])
        out.append("answer:" + (ans.split("|")[0] if not ans.startswith("err") else ans))
        if m.get("valid"):
            out.append("spelling:%s/%s" % (m.get("tpl"), m.get("case")))
        elif m.get("valid") is False:
            out.append("malformed:" + str(m.get("tag")))
        if "rel" in m:
            out.append("second:" + m["rel"])
        if ans.startswith("ok"):
            f = ans.split("|")
            if len(f) > 12 and f[12] in ("T", "F"):
                out.append("eq:" + f[12])
    elif case["op"] == "classify":
        out.append("classify:" + ans.split("|")[0].split(" ")[0])
    elif case["op"] == "show":
        out.append("show:%s:%s" % (case["kind"], "ok" if ans.startswith("ok") else ans))
    elif case["op"] == "search":
        out.append("search:%s:%s:%d regexes" % (m.get("tag", "?") if m.get("tag") == "valid" else "malformed", ans, len(case["rgxs"])))
    elif case["op"] == "xeq":
        out.append("xeq:%s%s==%s%s:%s" % (case["k1"], case["f1"], case["k2"], case["f2"], ans.split("|")[0]))
        out.append("xeq-second:" + m.get("rel", "?"))
    return out


# ------------------------------------------------------------------ implementation
def _value(cls, text):
    try:
        return str(int(cls(text)))
    except ValueError:
        return "err:ValueError"


def impl(case):
    quiet_ccp()
    import macaddress
    from ciscoconfparse2.ccp_util import MACObj, EUI64Obj
    if case["op"] == "formats":
        raw = macaddress.EUI48 if case["kind"] == "mac" else macaddress.EUI64
        return str(raw.size) + "|" + wire.enc_strs(raw.formats)
    if case["op"] == "classify":
        from ciscoconfparse2.cli_script import MACEUISearch
        srch = MACEUISearch(case["s1"])
        r = srch.mac_retval
        if r is None:
            head = "err:ValueError"
        else:
            head = ("EUI48" if isinstance(r, MACObj) else "EUI64") + " " + str(int(r))
        # str() / repr() of the search object name the word and the Cisco rendering of what was found
        return head + "|" + wire.enc_str(str(srch)) + "|" + wire.enc_str(repr(srch))
    if case["op"] == "show":
        cls = MACObj if case["kind"] == "mac" else EUI64Obj
        try:
            obj = cls(case["s1"])
        except ValueError:
            return "err:ValueError"
        return "ok|" + wire.enc_str(str(obj)) + "|" + wire.enc_str(repr(obj))
    if case["op"] == "search":
        from ciscoconfparse2.cli_script import MACEUISearch
        assert all(set(g) <= RX_ALPHABET for g in case["rgxs"])
        return "T" if MACEUISearch(case["s1"]).search_all_formats(set(case["rgxs"])) else "F"
    if case["op"] == "xeq":
        mk = {("mac", "w"): MACObj, ("eui64", "w"): EUI64Obj, ("mac", "p"): macaddress.EUI48, ("eui64", "p"): macaddress.EUI64}
        try:
            a = mk[case["k1"], case["f1"]](case["s1"])
            b = mk[case["k2"], case["f2"]](case["s2"])
        except ValueError:
            return "err:ValueError"
        return ("T" if a == b else "F") + "|" + ("T" if a != b else "F")
    cls, raw, inner = (MACObj, macaddress.EUI48, "mac") if case["kind"] == "mac" else (EUI64Obj, macaddress.EUI64, "eui64")
    try:
        obj = cls(case["s1"])
    except ValueError:
        return "err:ValueError"
    out = ["ok", str(int(obj)), wire.enc_str(str(getattr(obj, inner)))]
    rend = []
    for attr in ("cisco", "dash", "colon", "unix"):
        try:
            r = getattr(obj, attr)
            rend.append(r)
            out.append(wire.enc_str(r))
        except AttributeError:
            rend.append(None)
            out.append("err:AttributeError")
    for r in rend:
        out.append("err:AttributeError" if r is None else _value(cls, r))
    out.append(_value(cls, obj.dash.replace("-", "")))
    try:
        other = cls(case["s2"])
    except ValueError:
        out.append("err:ValueError")
    else:
        out.append("T" if obj == other else "F")
        out.append("T" if obj != other else "F")
        try:
            out.append("T" if obj == raw(case["s2"]) else "F")
        except ValueError:      # only if the class accepted a text that macaddress itself rejects
            out.append("err:ValueError")
    return "|".join(out)


# ------------------------------------------------------------------ oracle (independent of the Lean model)
H = "[0-9A-Fa-f]"


def _patterns(nbytes):
    return [re.compile(p) for p in (
        "%s{2}(?:-%s{2}){%d}" % (H, H, nbytes - 1),
        "%s{2}(?::%s{2}){%d}" % (H, H, nbytes - 1),
        r"%s{4}(?:\.%s{4}){%d}" % (H, H, nbytes // 2 - 1),
        "%s{%d}" % (H, 2 * nbytes),
    )]


PATTERNS = {k: _patterns(n) for k, n in KINDS.items()}


def ref_value(kind, text):
    """the address a text denotes, or None when it is not one of the four spellings of this size"""
    if any(p.fullmatch(text) for p in PATTERNS[kind]):
        return int(re.sub("[-:.]", "", text), 16)
    return None


def ref_renderings(nbytes, v):
    bs = ["%02x" % b for b in v.to_bytes(nbytes, "big")]
    words = [format((v >> (16 * i)) & 0xFFFF, "04x") for i in reversed(range(nbytes // 2))]
    return {"cisco": ".".join(words), "dash": "-".join(bs), "colon": ":".join(bs), "unix": "-".join(bs)}


def oracle(case, ans):
    if case["op"] == "formats":
        return []
    if case["op"] == "classify":
        v48, v64 = ref_value("mac", case["s1"]), ref_value("eui64", case["s1"])
        want = "EUI48 %d" % v48 if v48 is not None else "EUI64 %d" % v64 if v64 is not None else "err:ValueError"
        f = ans.split("|")
        if f[0] != want:
            return [f"classification is {ans[:60]} expected {want}"]
        found = ("MAC " + ref_renderings(6, v48)["cisco"] if v48 is not None
                 else "EUI64 " + ref_renderings(8, v64)["cisco"] if v64 is not None else "None")
        text = "<MACEUISearch word: %s, found: %s>" % (case["s1"], found)
        fails = []
        for name, got in (("str", f[1]), ("repr", f[2])):
            if wire.dec_str(got) != text:
                fails.append(f"{name}(MACEUISearch(word)) is {wire.dec_str(got)[:80]!r}, expected {text[:80]!r}")
        return fails
    if case["op"] == "show":
        kind, nb = case["kind"], KINDS[case["kind"]]
        v = ref_value(kind, case["s1"])
        if v is None:
            return [] if ans == "err:ValueError" else [f"text that is not a {8 * nb}-bit address accepted: {ans[:60]}"]
        if ans.startswith("err"):
            return [f"well-formed address rejected with {ans}"]
        # `<MACObj 01-23-45-67-89-AB>`: the class name and the canonical text of macaddress (upper-case dash form)
        text = "<%s %s>" % ("MACObj" if kind == "mac" else "EUI64Obj", ref_renderings(nb, v)["dash"].upper())
        f = ans.split("|")
        fails = []
        for name, got in (("str", f[1]), ("repr", f[2])):
            if wire.dec_str(got) != text:
                fails.append(f"{name}(obj) is {wire.dec_str(got)!r}, expected {text!r}")
            inner = wire.dec_str(got).split(" ")[-1].rstrip(">")
            if ref_value(kind, inner) != v:
                fails.append(f"the address shown by {name}(obj), {inner!r}, does not denote {v:x}")
        return fails[:3]
    if case["op"] == "search":
        v48, v64 = ref_value("mac", case["s1"]), ref_value("eui64", case["s1"])
        if v48 is None and v64 is None:
            want = False           # not an address: nothing to search
        else:
            rend = ref_renderings(6, v48) if v48 is not None else ref_renderings(8, v64)
            texts = [rend["dash"], rend["colon"], rend["cisco"], rend["dash"].replace("-", "")]
            want = any(re.search(g, t, re.I) for g in case["rgxs"] for t in texts)
        return [] if ans == ("T" if want else "F") else [
            f"search_all_formats({case['rgxs']!r}) on word {case['s1']!r} is {ans}, expected {'T' if want else 'F'}"]
    if case["op"] == "xeq":
        v1, v2 = ref_value(case["k1"], case["s1"]), ref_value(case["k2"], case["s2"])
        if v1 is None or v2 is None:
            return [] if ans == "err:ValueError" else [f"a text that is not an address of its size was accepted: {ans[:40]}"]
        same = case["k1"] == case["k2"] and v1 == v2       # same size and same address
        want = "T|F" if same else "F|T"
        return [] if ans == want else [
            f"{case['k1']}/{case['f1']} {v1:x} ==|!= {case['k2']}/{case['f2']} {v2:x} is {ans}, expected {want}"]
    kind, nb = case["kind"], KINDS[case["kind"]]
    v = ref_value(kind, case["s1"])
    if v is None:
        return [] if ans == "err:ValueError" else [f"text that is not a {8 * nb}-bit address accepted: {ans[:60]}"]
    if ans.startswith("err"):
        return [f"well-formed address rejected with {ans}"]
    f = ans.split("|")
    fails = []
    if f[1] != str(v):
        fails.append(f"value {f[1]} expected {v}")
    want = ref_renderings(nb, v)
    names = ["cisco", "dash", "colon", "unix"]
    for i, name in enumerate(names):
        got = f[3 + i]
        if got == "err:AttributeError" and kind == "eui64" and name == "unix":
            continue       # EUI64Obj has no .unix; not part of the property
        if got.startswith("err"):
            fails.append(f"{name} raised {got}")
            continue
        text = wire.dec_str(got)
        if text != want[name]:
            fails.append(f"{name} rendering {text!r} expected {want[name]!r}")
        if text != text.lower():
            fails.append(f"{name} rendering {text!r} is not lower case")
        back = f[7 + i]
        if back != str(v):
            fails.append(f"{name} rendering {text!r} re-parses to {back}, not {v}")
    if f[11] != str(v):
        fails.append(f"separator-free rendering re-parses to {f[11]}, not {v}")
    w = ref_value(kind, case["s2"])
    if w is None:
        if f[12] != "err:ValueError":
            fails.append(f"second text {case['s2']!r} is not an address but was accepted")
    elif len(f) < 15:
        fails.append(f"second text {case['s2']!r} is a well-formed address but was rejected")
    else:
        same = "T" if v == w else "F"
        diff = "F" if v == w else "T"
        if f[12] != same:
            fails.append(f"== is {f[12]} for values {v:x} and {w:x}")
        if f[13] != diff:
            fails.append(f"!= is {f[13]} for values {v:x} and {w:x}")
        if f[14] != same:
            fails.append(f"== against the plain macaddress object is {f[14]} for values {v:x} and {w:x}")
    return fails[:3]
