"""C11 — IPv4Obj / IPv6Obj agree with the standard library `ipaddress` on every derived value; invalid text is rejected.

Three-way: implementation (real IPv4Obj/IPv6Obj) vs Lean model (channel `iptext`) vs the real `ipaddress`
module (the oracle below, which never looks at the model).
"""
import ipaddress
import re

import wire
from props.common import quiet_ccp

ID = "C11"
LEAN_MODULES = ["Ccp.Props.C11", "Ccp.Props.RxC11"]
RULE = ("(ip,len) pairs: ip from a boundary pool (0, 1, max, max-1, all-ones / single-one octets and groups, 2^k, 2^k-1, "
        "::ffff:a.b.c.d, addresses whose compressed form has a leading / trailing / bare / inner '::', two equal zero runs) "
        "or uniform random; len from {0,1,7,8,9,16,23,24,30,31,32} (v4) / {0,1,7,16,63,64,65,96,112,126,127,128} (v6) or uniform. "
        "Every pair is rendered in every text form the constructors accept: v4 'a', 'a/len', 'a/0len', 'a mask', 'a/mask', "
        "'a hostmask', 'a/hostmask' with optional surrounding blanks (space, tab, newline, NBSP, U+2003) and 1-3 blanks as separator; "
        "v6 compressed / exploded / upper / mixed case / leading zeros dropped or kept / '::' placed on another zero run or on a "
        "single zero group / embedded dotted quad in the low 32 bits, each as 'a', 'a/len', 'a len', with surrounding blanks. "
        "Malformed stream: every string one edit (delete, insert, replace, transpose; alphabet = hex digits, g, ':', '.', '/', "
        "blank, tab, '%', '-', '+', '_', 'x', ARABIC-INDIC DIGIT THREE) away from a valid text, plus a hand-written list "
        "(F16 witnesses, nine groups, two '::', ':::', long inputs around the 49-character guard (which sees the text after strip() and the blank-to-slash rewrite), empty string). "
        "Witnesses of the repaired F33 (valid texts made longer than the guard only by blanks, full-form embedded quad of 49 characters) "
        "with ground truth, and 50-character normalised texts that must be refused; a generated spelling whose normalised text is longer than 49 "
        "characters (a '/0len' prefix on a six-group embedded quad) carries no ground truth. "
        "Integers: -1, 0, 1, max-1, max, max+1, 2^k, random. Copy construction of objects built from valid texts. "
        "non-trivial = accepted address with len < width, or a rejected text at edit distance one from a valid one. "
        "Regions outside the model, never generated: lone surrogates; a trailing line feed can not survive strip(), so the "
        "'$ before final \\n' reading of the regexes is never exercised; arguments that are neither str nor int nor an address "
        "object; `strict=True`; `debug`. "
        "Factory streams (one round per generated pair): _get_ipv4 / _get_ipv6 on a spelling the stdlib itself reads ('a', 'a/len', "
        "'a/mask', 'a/hostmask'; every IPv6 address form + '/len'), on integers (0, 1, max, random, -1, max+1), on spellings only the "
        "class reads (surrounding blanks, blank for the slash) and on one-edit neighbours, with stdlib=False and stdlib=True; "
        "ip_factory with mode auto_detect / ipv4 / ipv6 (10% a wrong mode name) on IPv4 text, IPv6 text, integers and near misses; "
        "check_valid_ipaddress on blank-wrapped IPv4 forms, IPv6 forms (must answer family 6; all were rejected before the repair of finding FC11a) and near misses; all hand-written malformed texts go "
        "through the three functions as well. Guard stream: every combination class of a wrong type for val / strict / stdlib / debug "
        "and of a wrong mode name for the factories, a non-str argument for check_valid_ipaddress, and None / float / bytes / list / "
        "tuple / object of the other family / debug='x' as constructor argument (exception class compared). Remaining value "
        "properties (v4x / v6x stream, every generated pair in a random accepted spelling + hand-picked multicast / private / reserved / "
        "link-local / mapped blocks): ipv4 / ipv6, _ip, masklen, masklength, prefixlength, packed, network_offset, max_int, "
        "inverse_netmask, version, as_int, is_ipv4_mapped, the IPv6 members that always raise - compared with the model and the "
        "stdlib - and is_multicast, is_private, is_reserved, is_link_local, is_site_local, is_unspecified - compared with the stdlib only. "
        "Every accepted case is checked three ways: implementation = model (all 19 / 18 derived values as one answer line), "
        "implementation = real `ipaddress` (oracle), and implementation against the Spec-level reading of the renderings written "
        "from the definitions of Spec/IP.lean (width / digits / value of as_zeropadded, as_zeropadded_network, as_hex, as_hex_tuple, "
        "as_binary_tuple; the RFC 5952 text by the quantifiers of IsShortened for str(ip), as_cidr_addr, as_cidr_net, compressed).")
LEVEL_TEXT = ("Theorems (Lean 4, all (ip,len), no size bound): every derived value of the modelled IPv4Obj/IPv6Obj equals the "
              "ipaddress specification (network = ip AND mask, mask = 2^w - 2^(w-len), last = net OR hostmask = net + 2^(w-len) - 1, "
              "dotted-quad / exploded / compressed text round trips through the stdlib parser model), host bits are kept, integer and "
              "copy constructors build the same object; IPv4 text: every accepted spelling parses to its value (v4_text_forms) and every "
              "accepted text IS such a spelling of the stored value, everything else raises (v4_rejects); IPv6 text: the stdlib parser model accepts exactly "
              "the RFC 4291 spellings (Spec.IP.IsV6Spelling: eight groups of 1-4 hex digits in either case, or hi::lo with the missing "
              "groups zero, last two groups optionally a dotted quad) with exactly their value (stdlib_v6_parser_exact); every such "
              "spelling, as 'a', 'a/len' or 'a len' with surrounding blanks, parses to its value through regex automaton, blank-to-slash "
              "rewrite, the 49-character guard on the normalised text and the stdlib layer (v6_text_forms, v6_text_forms_plain; "
              "the exploded and RFC 5952 compressed texts are instances), and every accepted text IS such a spelling of exactly the "
              "stored address followed by ASCII digits whose value is the stored length, everything else raises (v6_rejects). "
              "RFC 5952 canonicity of the printed IPv6 text is proved in full (strV6_canonical): for every value, str(IPv6Address(n)) satisfies "
              "Spec.IP.IsRfc5952 - lower-case hex groups without leading zeros (hexShort_spec: each group text is THE shortest base-16 "
              "writing of the group) separated by ':', exactly the leftmost longest run of >= 2 zero groups replaced by '::', no '::' when no "
              "two adjacent groups are zero (rfc5952_shortens_iff); it re-reads to n through the stdlib parser model and is an RFC 4291 "
              "spelling of n (strV6_canonical_reads); the predicate determines the text (rfc5952_unique, rfc5952_iff) and the text "
              "determines the 128-bit value (rfc5952_value_unique). "
              "Renderings, read by width / digits / value through the positional numerals of Spec/IP.lean (IsFixed b w s v: exactly w "
              "lower-case base-b digits denoting v; IsShortest b s v: base-b writing without leading zeros; both proved to leave exactly one "
              "text, numeral_unique): as_zeropadded / as_zeropadded_network are four 3-digit decimal groups joined by '.' whose values are "
              "the octets of the address / of the network address, the latter followed by '/len' (zeropadded_spec); as_hex is '0x' + the "
              "shortest lower-case hex writing of the address, both families (hex_spec); as_hex_tuple is four 2-digit (v4) / eight 4-digit (v6) "
              "hex texts whose values are the octets / groups (hex_tuple_spec); as_binary_tuple is four 8-digit / eight 16-digit binary texts "
              "with the same values (binary_spec); str(n), '%x', '%b' are the shortest decimal / hex / binary writings for every natural "
              "number (shortest_numerals); the dotted quad is the four octets in shortest decimal joined by dots, '/len' appends len in shortest decimal (dotted_spec); the octets / groups are the base-256 / base-65536 digits of the address (octets_groups_value). "
              "as_cidr_addr / as_cidr_net / numhosts / as_decimal* were already part of v4_values_agree / v6_values_agree. "
              "Factories: _get_ipv4 / _get_ipv6 return exactly the constructor's object, for exactly the values the stdlib reads and the "
              "constructor accepts, every failure is AddressValueError (factory_is_constructor); with stdlib=True the stdlib address of a "
              "host route, else obj.network without the host bits (factory_stdlib); ip_factory dispatches on ':' / the mode name, refuses "
              "an integer in auto_detect and a wrong mode (ip_factory_dispatch); check_valid_ipaddress answers (stripped text, 4) iff "
              "IPv4Obj accepts the stripped text, (stripped text, 6) iff IPv4Obj refuses and IPv6Obj accepts it, and ValueError iff both refuse "
              "(check_valid_spec, full statement); IPv4Obj never accepts a text holding a colon (v4_text_has_no_colon), so a text with a colon "
              "that IPv6Obj accepts -- in particular every RFC 4291 spelling, alone or with /len -- is answered family 6 "
              "(check_valid_families). Before finding FC11a was repaired in /repo ('fix: check_valid_ipaddress() tries IPv6 when the text is "
              "not an IPv4 address') check_valid_spec stated 'never family 6'; the "
              "argument guards (guards_spec); the remaining value properties of both families (v4_extra_values, v6_extra_values). "
              "The model (its re-implementation of the stdlib parsing routines and of "
              "the two regexes included) is tied to the code by differential runs on every check, and the implementation's answers are "
              "compared to the real `ipaddress` module independently.")
LEVEL_NOTE = ("Trusted: Lean kernel; axioms propext/Classical.choice/Quot.sound only; the correspondence harness; Python `re` and "
              "`ipaddress` are modelled (hand-written matchers / re-implementation), their agreement with the real modules is measured, not proved; "
              "the stdlib IPv6 parser model is additionally proved sound and complete for the RFC 4291 grammar written in Spec/IP.lean, "
              "its printer model (_compress_hextets) proved to produce exactly the RFC 5952 text written there; the renderings are proved against "
              "positional-numeral predicates (width / digits / value) of the same file, which the oracle also evaluates on the implementation's answers.")
LEVEL_NOTE += (" " + "regexes_as_modelled (Ccp.RxC11): the regex calls of IPv4Obj.__init__ and IPv6Obj.__init__ with their pattern texts and flags (_RGX_IPV4ADDR_WITH_MASK and _RGX_IPV6ADDR = _IPV6_REGEX_STR with _IPV6_RGX_CLS substituted, both re.VERBOSE, compared in canonical verbose form; the three in-line IPv4 checks; the \\s+ split and the '/' join) are re-read from /repo's AST on every run (harness/rxscan.py) and proved equal to the literals the automata matchV4 / matchV6 / fullDigits / fullQuad / searchQuad / splitWs were written for, so an edit of one of these regexes breaks an obligation of this check (the regex -> automaton step itself stays modelled, measured by the correspondence).")
LEVEL_NOTE += (" Scan sets as revised: regexes_as_modelled ties the regex-engine calls with the pattern in canonical form (canonical verbose form without the flag, group names and redundant escapes removed, per-value specialisation of a pattern passed to a same-file helper or built from a name that ranges over a constant collection, always-true searches left out), flags, re.sub replacements and the separator arguments of str.split/join/replace/strip; the literal tests (\"lit\" in x, == against string literals and their subscripts, startswith) are informational definitions Gen.rx...Info, no theorem is about them.")
EXHAUSTIVE = {"quick": False, "thorough": False}
ASSUMPTIONS = [
    "ipaddress (CPython 3.12) parsing/rendering is re-implemented in the model; agreement measured by three-way correspondence",
    "the IPv4 / IPv6 regexes are hand-written automata; agreement with Python's `re` measured on every generated string",
    "int(s) / int(s,16) in the as_decimal* properties only ever see canonical digit strings; the model covers ASCII digits, sign, blanks",
    "strict=False (the default)",
    "the classification predicates (is_multicast, is_private, is_reserved, is_link_local, is_site_local, is_unspecified) are pass-throughs "
    "to the stdlib network object; they are compared with the real `ipaddress` by the oracle, not modelled in Lean",
]
TRUSTED = ["model of ipaddress (stdlib) and of the two address regexes: modelled, not verified"]

V4MAX = 2 ** 32 - 1
V6MAX = 2 ** 128 - 1


def mk(op, arg, truth=None, origin="gen", near=False):
    if op in ("v4i", "v6i"):
        req = wire.req("iptext", op, str(int(arg)))
    else:
        req = wire.req("iptext", op, wire.enc_str(arg))
    return {"op": op, "arg": arg if isinstance(arg, str) else str(arg), "truth": truth, "near": near,
            "req": req, "_origin": origin}


def _val_fields(arg):
    return ("i", str(int(arg))) if isinstance(arg, int) and not isinstance(arg, bool) else ("s", wire.enc_str(arg))


def mk_get(fam, arg, stdlib, truth=None, origin="gen", near=False):
    """_get_ipv4 / _get_ipv6 (val=arg, stdlib=stdlib); arg a str or an int"""
    k, a = _val_fields(arg)
    return {"op": "get%d" % fam, "arg": arg if isinstance(arg, str) else int(arg), "stdlib": bool(stdlib), "truth": truth, "near": near,
            "req": wire.req("iptextx", "get%d" % fam, k, a, "T" if stdlib else "F"), "_origin": origin}


def mk_fac(arg, stdlib, mode, truth=None, origin="gen", near=False):
    """ip_factory(val=arg, stdlib=stdlib, mode=mode)"""
    k, a = _val_fields(arg)
    return {"op": "fac", "arg": arg if isinstance(arg, str) else int(arg), "stdlib": bool(stdlib), "mode": mode, "truth": truth,
            "near": near, "req": wire.req("iptextx", "fac", k, a, "T" if stdlib else "F", wire.enc_str(mode)), "_origin": origin}


def mk_chk(text, truth=None, origin="gen", near=False):
    """check_valid_ipaddress(text); truth = [family, ip, len]"""
    return {"op": "chk", "arg": text, "truth": truth, "near": near,
            "req": wire.req("iptextx", "chk", wire.enc_str(text)), "_origin": origin}


def mk_guard(fn, flags, mode=None, origin="gen"):
    """the argument guards: fn in get4|get6|fac; flags = [val ok, strict ok (get only), stdlib ok, debug ok]"""
    tfs = ["T" if f else "F" for f in flags]
    if fn == "fac":
        req = wire.req("iptextx", "guardfac", tfs[0], wire.enc_str(mode), tfs[2], tfs[3])
    elif fn == "chk":
        req = wire.req("iptextx", "guardchk", tfs[0])
    else:
        req = wire.req("iptextx", "guardget", *tfs)
    return {"op": "guard", "fn": fn, "flags": [bool(f) for f in flags], "mode": mode, "arg": fn, "truth": None, "near": False,
            "req": req, "_origin": origin}


CTOR_TAGS = {"none": "none", "float": "foreign", "bytes": "foreign", "list": "foreign", "tuple": "foreign", "otherobj": "foreign",
             "baddebug": "baddebug"}


def mk_ctor(fam, tag, origin="gen"):
    """IPv4Obj(x) / IPv6Obj(x) for an argument that is no str / int / object of the family"""
    return {"op": "ctor", "fam": fam, "tag": tag, "arg": tag, "truth": None, "near": False,
            "req": wire.req("iptextx", "ctor", CTOR_TAGS[tag]), "_origin": origin}


def mk_x(fam, text, truth=None, origin="gen", near=False):
    """the remaining value properties of the object built from a text"""
    return {"op": "v%dx" % fam, "arg": text, "truth": truth, "near": near,
            "req": wire.req("iptextx", "v%dx" % fam, wire.enc_str(text)), "_origin": origin}


def from_corpus(c):
    op = c["op"]
    if op in ("get4", "get6"):
        return mk_get(int(op[3]), c["arg"], c["stdlib"], c.get("truth"), "corpus", c.get("near", False))
    if op == "fac":
        return mk_fac(c["arg"], c["stdlib"], c["mode"], c.get("truth"), "corpus", c.get("near", False))
    if op == "chk":
        return mk_chk(c["arg"], c.get("truth"), "corpus", c.get("near", False))
    if op == "guard":
        return mk_guard(c["fn"], c["flags"], c.get("mode"), "corpus")
    if op == "ctor":
        return mk_ctor(c["fam"], c["tag"], "corpus")
    if op in ("v4x", "v6x"):
        return mk_x(int(op[1]), c["arg"], c.get("truth"), "corpus", c.get("near", False))
    return mk(c["op"], c["arg"], c.get("truth"), "corpus", c.get("near", False))


# ------------------------------------------------------------------ generators
def v4_pool(rng):
    pool = [0, 1, V4MAX, V4MAX - 1, 0x7FFFFFFF, 0x80000000, 0xFF000000, 0x00FF0000, 0x0000FF00, 0x000000FF,
            0x0A010101, 0xC0A80001, 0xAC100100, 0x01000000, 0x00010000, 0x00000100, 0x64646464, 0x09636363, 0x0A0A0A0A,
            0xFFFFFF00, 0xFFFF0000, 0x000000FE, 0xE0000001, 0xA9FE0101]
    pool += [1 << k for k in range(32)] + [(1 << k) - 1 for k in range(1, 33)]
    return pool


def v6_pool(rng):
    g = lambda *hs: int("".join("%04x" % h for h in hs), 16)  # noqa: E731
    pool = [0, 1, V6MAX, V6MAX - 1, 1 << 127, (1 << 127) - 1,
            g(0, 0, 0, 0, 0, 0xFFFF, 0x0102, 0x0304), g(0, 0, 0, 0, 0, 0xFFFF, 0xFFFF, 0xFFFF), g(0, 0, 0, 0, 0, 0, 0x0102, 0x0304),
            g(0xFE80, 0, 0, 0, 0, 0, 0, 1), g(0x2001, 0xDB8, 0, 0, 0, 0, 0, 0), g(0x2001, 0, 0, 1, 0, 0, 0, 1), g(0x2001, 0, 0, 0, 1, 0, 0, 1),
            g(1, 0, 0, 2, 0, 0, 0, 3), g(1, 0, 2, 0, 3, 0, 4, 0), g(0, 1, 0, 2, 0, 3, 0, 4), g(1, 2, 3, 4, 5, 6, 7, 8), g(1, 2, 3, 4, 5, 6, 7, 0),
            g(0, 2, 3, 4, 5, 6, 7, 8), g(1, 2, 3, 0, 0, 6, 7, 8), g(1, 0, 0, 0, 0, 0, 0, 0), g(0, 0, 0, 0, 0, 0, 1, 0), g(0, 0, 1, 0, 0, 0, 0, 0),
            g(0xFFFF, 0, 0, 0, 0, 0, 0, 0xFFFF), g(0x2B00, 0xCD80, 0x14, 0x10, 0, 0, 0, 1), g(0xA, 0xB0, 0xC00, 0xD000, 0, 0xF, 0x10, 0x100),
            g(0, 0, 0, 0, 0xFFFF, 0, 0x0102, 0x0304), g(0x64, 0xFF9B, 0, 0, 0, 0, 0xC000, 0x221)]
    pool += [1 << k for k in range(0, 128, 5)] + [(1 << k) - 1 for k in range(1, 129, 7)]
    return pool


V4LENS = [0, 1, 7, 8, 9, 16, 23, 24, 30, 31, 32]
V6LENS = [0, 1, 7, 16, 63, 64, 65, 96, 112, 126, 127, 128]
BLANKS = ["", "", "", " ", "  ", "\t", "\n", "      ", " \n\t  ", " ", " ", " \t"]
SEPS = [" ", " ", "  ", "\t", " \t ", " "]


def dotted(n):
    return ".".join(str((n >> s) & 255) for s in (24, 16, 8, 0))


def v4_forms(rng, ip, ln):
    a = dotted(ip)
    mask = dotted((V4MAX << (32 - ln)) & V4MAX)
    out = [a + "/" + str(ln), a + "/0" + str(ln), a + rng.choice(SEPS) + mask, a + "/" + mask]
    if 0 < ln < 32:      # all-ones / all-zeroes are read as netmasks by the stdlib
        host = dotted(V4MAX >> ln)
        out += [a + rng.choice(SEPS) + host, a + "/" + host]
    if ln == 32:
        out.append(a)
    return out


def hextets(n):
    return [(n >> s) & 0xFFFF for s in range(112, -1, -16)]


def v6_addr_forms(rng, ip):
    """texts that denote `ip` (all accepted by the stdlib)"""
    hs = hextets(ip)
    comp = str(ipaddress.IPv6Address(ip))
    expl = ipaddress.IPv6Address(ip).exploded
    out = [comp, expl, comp.upper(), expl.upper(),
           "".join(c.upper() if rng.random() < 0.5 else c for c in comp),
           ":".join("%x" % h for h in hs) if 0 not in hs or True else comp]
    # leading zeros partly kept
    out.append(":".join(("%0" + str(rng.choice([1, 2, 3, 4])) + "x") % h for h in hs))
    # '::' on any run of zeros (including a single zero group)
    runs = []
    i = 0
    while i < 8:
        if hs[i] == 0:
            j = i
            while j < 8 and hs[j] == 0:
                j += 1
            for a in range(i, j):
                for b in range(a + 1, j + 1):
                    runs.append((a, b))
            i = j
        else:
            i += 1
    rng.shuffle(runs)
    for a, b in runs[:3]:
        left = ":".join("%x" % h for h in hs[:a])
        right = ":".join("%x" % h for h in hs[b:])
        out.append(left + "::" + right)
    # embedded dotted quad for the low 32 bits
    low = dotted(ip & V4MAX)
    hi6 = hs[:6]
    out.append(":".join("%x" % h for h in hi6) + ":" + low)
    k = 0
    while k < 6 and hi6[5 - k] == 0:
        k += 1
    if k:
        out.append(":".join("%x" % h for h in hi6[:6 - k]) + "::" + low)
    return out


def v6_forms(rng, ip, ln):
    out = []
    for a in v6_addr_forms(rng, ip):
        r = rng.random()
        if r < 0.45:
            out.append(a + "/" + str(ln))
        elif r < 0.75:
            out.append(a + rng.choice(SEPS) + str(ln))
        elif r < 0.85:
            out.append(a + "/0" + str(ln))
        elif ln == 128:
            out.append(a)
        else:
            out.append(a + "/" + str(ln))
    return out


ALPHABET = list("0123456789abcdefABCDEFg:./ \t%-+_x") + ["٣"]


def one_edit(rng, s):
    k = rng.random()
    s = list(s)
    if k < 0.3 and s:
        del s[rng.randrange(len(s))]
    elif k < 0.6:
        s.insert(rng.randrange(len(s) + 1), rng.choice(ALPHABET))
    elif k < 0.9 and s:
        s[rng.randrange(len(s))] = rng.choice(ALPHABET)
    elif len(s) >= 2:
        i = rng.randrange(len(s) - 1)
        s[i], s[i + 1] = s[i + 1], s[i]
    return "".join(s)


HAND4 = ["", " ", "1.2.3.4", "1.2.3.4/", "1.2.3.4/33", "1.2.3.4/032", "1.2.3.4/0", "1.2.3", "1.2.3.4.5", "256.1.1.1", "01.2.3.4", "1.2.3.4/-1",
         "1.2.3.4 /24", "1.2.3.4/ 24", "1.2.3.4 24", "1.2.3.4  255.255.255.0", "1.2.3.4 255.0.255.0", "1.2.3.4/255.255.255.256",
         "1.2.3.4 0.0.0.0", "1.2.3.4/255.255.255.255", "1.2.3.4 0.0.0.255", "1.2.3.4/0.255.255.255", "1.2.3.4/1.2.3.4", "dhcp", "1.2.3.4/24junk",
         "junk1.2.3.4", "1.2.3.4\n", "\n1.2.3.4/8", "1.2.3.4/8\n5", "1.2.3.4/٣", "١.2.3.4", "1.2.3.4 ٢٥٥.0.0.0", "1.2.3.4/24/24",
         "1.2.3.4//24", "1..3.4", ".1.2.3", "1.2.3.4.", "0.0.0.0", "255.255.255.255/0", "1.2.3.4/00000000000000000000000000000024", "1.2.3.1000", "1.2.3.4/255.255.255.0 ",
         "1.2.3.4 255.255.255.0 5", "::1", "1.2.3.4%eth0"]
HAND6 = ["", " ", "::", ":", ":::", "::::", ":::1", "::1/64junk", "1::2::3", "1:2:3:4:5:6:7:8:9", "1::g", "1::", "::1", "1:2:3:4:5:6:7::", "::2:3:4:5:6:7:8",
         "1:2:3:4:5:6:7:8::", "::1:2:3:4:5:6:7:8", "1::2:3:4:5:6:7:8", "1:2:3:4::5:6:7", "1:2:3:4:5:6:7", "1:2:3:4:5:6:7:", ":1:2:3:4:5:6:7",
         "12345::1", "::12345", "::1/129", "::1/128", "::1/0128", "::1 64", "::1  64", "::1 64 5", "::1/", "::1/ 64", "::1 /64", "fe80::1%eth0", "fe80::1%eth0/64",
         "::ffff:1.2.3.4", "::ffff:1.2.3.4/96", "::1.2.3.4", "1:2:3:4:5:6:1.2.3.4", "1:2:3:4:5:6:7:1.2.3.4", "::ffff:1.2.3", "::ffff:256.2.3.4", "::ffff:01.2.3.4",
         ":::1.2.3.4", "12.2.3.4", "1.2.3.4", "::ffff:1.2.3.4.5", "::١.2.3.4", "::1/٣", "::ffff:1.2.3.٤",
         "ffff:ffff:ffff:ffff:ffff:ffff:ffff:ffff/128", " ffff:ffff:ffff:ffff:ffff:ffff:ffff:ffff/128", "ffff:ffff:ffff:ffff:ffff:ffff:ffff:ffff/128 ",
         "ffff:ffff:ffff:ffff:ffff:ffff:ffff:ffff 128", "ffff:ffff:ffff:ffff:ffff:ffff:ffff:ffff  128", "0000:0000:0000:0000:0000:ffff:255.255.255.255/128",
         "0000:0000:0000:0000:0000:ffff:255.255.255.255", "1::2/64\n", "\n::1", "::1\n/64", "::1\n64", "::G", "::AbCd", "0:0:0:0:0:0:0:0", "0::0", "::0", "0::",
         "1:2:3:4:5:6:7:8/64", "1:2:3:4:5:6:7:8 64", "::1/64/64", "::1//64", "02001:db8::", "2001:db8::/032", "2001:db8::/+32", "2001:db8::/-1", "a:b:c:d:e:f:0:1"]


# the length guard (49 characters after normalisation): F33 witnesses must be accepted, 50 characters refused
GUARD6 = [(" ffff:ffff:ffff:ffff:ffff:ffff:ffff:ffff/128", [V6MAX, 128]),
          ("ffff:ffff:ffff:ffff:ffff:ffff:ffff:ffff  128", [V6MAX, 128]),
          ("   ffff:ffff:ffff:ffff:ffff:ffff:ffff:ffff \t 128   ", [V6MAX, 128]),
          ("0000:0000:0000:0000:0000:ffff:255.255.255.255/128", [0xFFFFFFFFFFFF, 128]),
          ("  0000:0000:0000:0000:0000:ffff:255.255.255.255  128  ", [0xFFFFFFFFFFFF, 128]),
          ("ffff:ffff:ffff:ffff:ffff:ffff:ffff:ffff/000000128", [V6MAX, 128]),
          ("ffff:ffff:ffff:ffff:ffff:ffff:ffff:ffff/0000000128", None),
          ("0000:0000:0000:0000:0000:ffff:255.255.255.255/0128", None)]


def norm_len(text):
    """length of the text after strip() and the blank-to-slash rewrite (what the length guard sees)"""
    return len("/".join(text.split()))


def pick_pair(rng, pool, lens, width):
    ip = rng.choice(pool) if rng.random() < 0.6 else rng.getrandbits(width)
    ln = rng.choice(lens) if rng.random() < 0.6 else rng.randint(0, width)
    return ip, ln


def wrap(rng, s):
    return rng.choice(BLANKS) + s + rng.choice(BLANKS)


def cases(rng, tier):
    p4, p6 = v4_pool(rng), v6_pool(rng)
    if tier != "search":
        for t in HAND4:
            yield mk("v4s", t)
        for t in HAND6:
            yield mk("v6s", t)
        for t, truth in GUARD6:
            yield mk("v6s", t, truth)
        for n in [-1, 0, 1, V4MAX - 1, V4MAX, V4MAX + 1, 2 ** 31, -2 ** 32]:
            yield mk("v4i", n, [n, 32] if 0 <= n <= V4MAX else None)
        for n in [-1, 0, 1, V6MAX - 1, V6MAX, V6MAX + 1, 2 ** 127, 2 ** 32, V4MAX]:
            yield mk("v6i", n, [n, 128] if 0 <= n <= V6MAX else None)
        # every boundary address at every boundary length, canonical form
        for ip in p4[:24]:
            for ln in V4LENS:
                yield mk("v4s", dotted(ip) + "/" + str(ln), [ip, ln])
        for ip in p6[:28]:
            for ln in V6LENS:
                yield mk("v6s", str(ipaddress.IPv6Address(ip)) + "/" + str(ln), [ip, ln])
        # all prefix lengths, all netmasks and hostmasks
        for ln in range(33):
            ip = rng.getrandbits(32) | 1
            for f in v4_forms(rng, ip, ln):
                yield mk("v4s", f, [ip, ln])
        for ln in range(129):
            ip = rng.getrandbits(128) | 1
            yield mk("v6s", str(ipaddress.IPv6Address(ip)) + rng.choice(["/", " "]) + str(ln), [ip, ln])
    n = {"quick": 700, "thorough": 14000, "search": 500}[tier]
    for _ in range(n):
        ip, ln = pick_pair(rng, p4, V4LENS, 32)
        forms = v4_forms(rng, ip, ln)
        for f in forms:
            yield mk("v4s", wrap(rng, f), [ip, ln])
        yield mk("v4c", wrap(rng, rng.choice(forms)), [ip, ln])
        yield mk("v4i", ip, [ip, 32])
        for _ in range(6):
            yield mk("v4s", one_edit(rng, rng.choice(forms)), near=True)
        ip, ln = pick_pair(rng, p6, V6LENS, 128)
        forms = v6_forms(rng, ip, ln)
        for f in forms:
            # a spelling whose normalised text exceeds the 49-character guard (only '/0len' on a six-group embedded
            # quad can) is outside the forms the class accepts: no ground truth, it must merely not be coerced
            yield mk("v6s", wrap(rng, f), [ip, ln] if norm_len(f) <= 49 else None, near=norm_len(f) > 49)
        f = rng.choice(forms)
        yield mk("v6c", f, [ip, ln] if norm_len(f) <= 49 else None)
        yield mk("v6i", ip, [ip, 128])
        for _ in range(8):
            yield mk("v6s", one_edit(rng, rng.choice(forms)), near=True)
        if rng.random() < 0.1:
            yield mk("v4i", rng.choice([-1, V4MAX + 1, rng.getrandbits(40), -rng.getrandbits(20)]))
            yield mk("v6i", rng.choice([-1, V6MAX + 1, rng.getrandbits(140), -rng.getrandbits(20)]))
    # factories (_get_ipv4, _get_ipv6, ip_factory, check_valid_ipaddress), argument guards, remaining value properties
    if tier != "search":
        yield from fixed_extra_cases()
    for _ in range({"quick": 700, "thorough": 14000, "search": 300}[tier]):
        yield from extra_cases(rng, p4, p6)


MODES = ["auto_detect", "auto_detect", "auto_detect", "ipv4", "ipv6"]
BAD_MODES = ["", "auto", "IPv4", "ipv46", "AUTO_DETECT", " ipv4"]


def v4_exact_forms(rng, ip, ln):
    """the spellings the stdlib itself reads (no blanks): what _get_ipv4 lets through"""
    a = dotted(ip)
    out = [a + "/" + str(ln), a + "/" + dotted((V4MAX << (32 - ln)) & V4MAX)]
    if 0 < ln < 32:
        out.append(a + "/" + dotted(V4MAX >> ln))
    if ln == 32:
        out.append(a)
    return out


def v6_exact_forms(rng, ip, ln):
    out = []
    for a in v6_addr_forms(rng, ip):
        out.append(a + "/" + str(ln))
        if ln == 128:
            out.append(a)
    return out


def extra_cases(rng, p4, p6):
    """one round of the streams added for the factories, the guards and the remaining value properties"""
    ip4, ln4 = pick_pair(rng, p4, V4LENS, 32)
    ip6, ln6 = pick_pair(rng, p6, V6LENS, 128)
    f4, f6 = v4_exact_forms(rng, ip4, ln4), v6_exact_forms(rng, ip6, ln6)
    f6 = [f for f in f6 if norm_len(f) <= 49] or [str(ipaddress.IPv6Address(ip6)) + "/" + str(ln6)]
    st = rng.random() < 0.5
    # _get_ipv4 / _get_ipv6: a spelling the stdlib reads, an integer, a spelling only the class reads, one edit away
    yield mk_get(4, rng.choice(f4), st, [ip4, ln4])
    yield mk_get(6, rng.choice(f6), st, [ip6, ln6])
    r = rng.random()
    if r < 0.25:
        n = rng.choice([0, 1, V4MAX, ip4])
        yield mk_get(4, n, not st, [n, 32])
        n = rng.choice([0, 1, V6MAX, ip6])
        yield mk_get(6, n, not st, [n, 128])
    elif r < 0.35:
        yield mk_get(4, rng.choice([-1, V4MAX + 1, -ip4 - 1, ip6 | (1 << 32)]), st)
        yield mk_get(6, rng.choice([-1, V6MAX + 1, -ip6 - 1]), st)
    elif r < 0.6:
        yield mk_get(4, wrap(rng, rng.choice(v4_forms(rng, ip4, ln4))), st, near=True)
        yield mk_get(6, wrap(rng, rng.choice(v6_forms(rng, ip6, ln6))), st, near=True)
    else:
        yield mk_get(4, one_edit(rng, rng.choice(f4)), st, near=True)
        yield mk_get(6, one_edit(rng, rng.choice(f6)), st, near=True)
    # ip_factory
    mode = rng.choice(MODES) if rng.random() < 0.9 else rng.choice(BAD_MODES)
    which = rng.random()
    if which < 0.4:
        arg, truth = rng.choice(f4), ([ip4, ln4] if mode in ("auto_detect", "ipv4") else None)
    elif which < 0.8:
        arg, truth = rng.choice(f6), ([ip6, ln6] if mode in ("auto_detect", "ipv6") else None)
    elif which < 0.9:
        n = rng.choice([0, 1, ip4, V4MAX])
        arg, truth = n, ([n, 32] if mode == "ipv4" else [n, 128] if mode == "ipv6" else None)
    else:
        arg, truth = one_edit(rng, rng.choice(f4 + f6)), None
    yield mk_fac(arg, rng.random() < 0.4, mode, truth, near=truth is None)
    # check_valid_ipaddress
    r = rng.random()
    if r < 0.45:
        yield mk_chk(wrap(rng, rng.choice(v4_forms(rng, ip4, ln4))), [4, ip4, ln4])
    elif r < 0.7:
        f = rng.choice(v6_forms(rng, ip6, ln6))
        yield mk_chk(wrap(rng, f), [6, ip6, ln6] if norm_len(f) <= 49 else None, near=norm_len(f) > 49)
    else:
        yield mk_chk(one_edit(rng, rng.choice(v4_forms(rng, ip4, ln4) + f6)), near=True)
    # the remaining value properties
    yield mk_x(4, wrap(rng, rng.choice(v4_forms(rng, ip4, ln4))), [ip4, ln4])
    f = rng.choice(v6_forms(rng, ip6, ln6))
    yield mk_x(6, wrap(rng, f), [ip6, ln6] if norm_len(f) <= 49 else None, near=norm_len(f) > 49)


def fixed_extra_cases():
    for fn in ("get4", "get6"):
        for flags in ([1, 1, 1, 1], [0, 1, 1, 1], [1, 0, 1, 1], [1, 1, 0, 1], [1, 1, 1, 0], [0, 0, 0, 0], [1, 0, 0, 1], [1, 1, 0, 0]):
            yield mk_guard(fn, flags)
    for mode in ["auto_detect", "ipv4", "ipv6"] + BAD_MODES:
        for flags in ([1, 1, 1, 1], [0, 1, 1, 1], [1, 1, 0, 1], [1, 1, 1, 0], [0, 1, 0, 0], [1, 1, 0, 0]):
            yield mk_guard("fac", flags, mode)
    for fam in (4, 6):
        for tag in CTOR_TAGS:
            yield mk_ctor(fam, tag)
    for bad in ("int", "none", "bytes", "float"):
        yield mk_guard("chk", [0, 1, 1, 1], mode=bad)
    yield mk_guard("chk", [1, 1, 1, 1])
    for t in HAND4:
        yield mk_get(4, t, False, near=True)
        yield mk_chk(t, near=True)
        yield mk_fac(t, False, "auto_detect", near=True)
    for t in HAND6:
        yield mk_get(6, t, False, near=True)
        yield mk_chk(t, near=True)
        yield mk_fac(t, True, "auto_detect", near=True)
    # special-purpose blocks for the classification properties (multicast, private, reserved, link local, mapped …)
    for t in ["224.0.0.1/4", "239.255.255.255/32", "10.0.0.1/8", "172.16.5.5/12", "192.168.1.1/16", "240.0.0.1/4", "127.0.0.1/8",
              "169.254.1.1/16", "100.64.0.1/10", "8.8.8.8/32", "0.0.0.0/0", "255.255.255.255/32", "10.255.255.254/31", "11.0.0.0/7"]:
        yield mk_x(4, t)
    for t in ["ff02::1/8", "fe80::1/10", "fec0::1/10", "::/128", "::/0", "::1/128", "::ffff:1.2.3.4/96", "::ffff:1.2.3.4/128", "::fffe:1.2.3.4/96",
              "1::ffff:1.2.3.4/128", "fc00::1/7", "2001::1/32", "2002:102:304::1/16", "2001:db8::1/32", "64:ff9b::1.2.3.4/96", "ffff::/16"]:
        yield mk_x(6, t)


def neighbours(case, rng):
    if case["op"] in ("guard", "ctor"):
        return
    if case["op"] in ("get4", "get6", "fac", "chk", "v4x", "v6x"):
        if not isinstance(case["arg"], str):
            for d in range(-3, 4):
                if case["op"] == "fac":
                    yield mk_fac(case["arg"] + d, case["stdlib"], case["mode"])
                else:
                    yield mk_get(int(case["op"][3]), case["arg"] + d, case["stdlib"])
            return
        for _ in range(300):
            t = one_edit(rng, case["arg"])
            if case["op"] in ("get4", "get6"):
                yield mk_get(int(case["op"][3]), t, rng.random() < 0.5, near=True)
            elif case["op"] == "fac":
                yield mk_fac(t, rng.random() < 0.5, case["mode"], near=True)
            elif case["op"] == "chk":
                yield mk_chk(t, near=True)
            else:
                yield mk_x(int(case["op"][1]), t, near=True)
        return
    if case["op"] in ("v4i", "v6i"):
        n = int(case["arg"])
        for d in range(-3, 4):
            yield mk(case["op"], n + d)
        return
    for _ in range(400):
        yield mk(case["op"], one_edit(rng, case["arg"]), near=True)


def nontrivial(case):
    if case["op"] in ("guard", "ctor"):
        return True
    if case["op"] == "chk":
        return bool(case["truth"]) or bool(case.get("near"))
    if case["truth"]:
        w = 32 if case["op"] in ("v4s", "v4c", "v4i", "v4x", "get4") else 128
        return case["truth"][1] < w or case["op"] in ("get4", "get6", "fac")
    return bool(case.get("near"))


def describe(case):
    d = {"op": case["op"], "arg": case["arg"], "truth": case["truth"]}
    for k in ("stdlib", "mode", "fn", "flags", "fam", "tag"):
        if k in case:
            d[k] = case[k]
    return d


def buckets(case, ans):
    if case["op"] in ("get4", "get6", "fac", "chk", "guard", "ctor", "v4x", "v6x"):
        head = ans.split("|")[0]
        out = ["op:" + case["op"], "%s:%s" % (case["op"], head)]
        if case["op"] in ("get4", "get6", "fac"):
            out.append("%s:%s:stdlib=%s:%s" % (case["op"], "int" if not isinstance(case["arg"], str) else "str", case["stdlib"], head))
        if case["op"] == "fac":
            out.append("fac:mode=%s:%s" % (case["mode"] if case["mode"] in ("auto_detect", "ipv4", "ipv6") else "other", head))
        if case["op"] == "chk" and case["truth"]:
            out.append("chk:valid-v%d:%s" % (case["truth"][0], head))
        if case["op"] == "guard":
            out.append("guard:%s:%s:%s" % (case["fn"], "".join("1" if f else "0" for f in case["flags"]), ans))
        if case["op"] == "ctor":
            out.append("ctor:v%d:%s:%s" % (case["fam"], case["tag"], ans))
        if case.get("near"):
            out.append("near-valid:" + case["op"])
        return out
    out = ["op:" + case["op"], "answer:" + (ans if ans.startswith("err") else "ok")]
    if case["truth"]:
        w = 32 if case["op"].startswith("v4") else 128
        ln = case["truth"][1]
        out.append("%s-len:%s" % (case["op"][:2], ln if ln in (0, 1, w - 2, w - 1, w) else "mid"))
        if case["op"] == "v6s":
            a = case["arg"].strip()
            out.append("v6form:" + ("embedded" if "." in a else "leading::" if a.startswith("::") else "trailing::" if re.search(r"::(/|\s|$)", a)
                                    else "inner::" if "::" in a else "full"))
            if a != a.lower():
                out.append("v6form:uppercase")
        if case["op"] == "v4s":
            a = case["arg"].strip()
            out.append("v4form:" + ("plain" if not re.search(r"[/\s]", a) else "a/len" if re.search(r"/\d+$", a) else "a/mask" if "/" in a else "a mask"))
    elif case.get("near"):
        out.append("near-valid:" + case["op"][:2])
    return out


# ------------------------------------------------------------------ implementation
def _p(f):
    try:
        return f()
    except Exception as e:  # noqa: BLE001  a property that raises is part of the answer
        return "exc:" + type(e).__name__


def _show4(o):
    s = wire.enc_str
    return "|".join([
        "ok", str(int(o.ip)), _p(lambda: str(int(o.network.network_address))), str(o.prefixlen),
        str(int(o.netmask)), str(int(o.hostmask)), str(int(o.broadcast)),
        _p(lambda: str(o.as_decimal)), _p(lambda: str(o.as_decimal_network)), _p(lambda: str(o.as_decimal_broadcast)),
        _p(lambda: str(o.numhosts)),
        s(str(o.ip)), s(o.as_cidr_addr), _p(lambda: s(o.as_cidr_net)),
        _p(lambda: s(o.as_zeropadded)), _p(lambda: s(o.as_zeropadded_network)),
        _p(lambda: s(o.as_hex)), _p(lambda: wire.enc_strs(o.as_hex_tuple)), _p(lambda: wire.enc_strs(o.as_binary_tuple)),
        s(o.exploded),
    ])


def _show6(o):
    s = wire.enc_str
    return "|".join([
        "ok", str(int(o.ip)), _p(lambda: str(int(o.network.network_address))), str(o.prefixlen),
        str(int(o.netmask)), str(int(o.hostmask)),
        _p(lambda: str(o.as_decimal)), _p(lambda: str(o.as_decimal_network)), _p(lambda: str(o.as_decimal_network_maxint)),
        _p(lambda: str(o.numhosts)),
        s(str(o.ip)), s(o.as_cidr_addr), _p(lambda: s(o.as_cidr_net)),
        _p(lambda: s(o.as_hex)), wire.enc_strs(o.as_hex_tuple), _p(lambda: wire.enc_strs(o.as_binary_tuple)),
        s(o.exploded), s(o.compressed),
    ])


def _show_ret(r):
    from ciscoconfparse2.ccp_util import IPv4Obj, IPv6Obj
    if isinstance(r, IPv4Obj):
        return _show4(r)
    if isinstance(r, IPv6Obj):
        return _show6(r)
    if isinstance(r, ipaddress.IPv4Address):
        return "addr4|%d" % int(r)
    if isinstance(r, ipaddress.IPv6Address):
        return "addr6|%d" % int(r)
    if isinstance(r, ipaddress.IPv4Network):
        return "net4|%d/%d" % (int(r.network_address), r.prefixlen)
    if isinstance(r, ipaddress.IPv6Network):
        return "net6|%d/%d" % (int(r.network_address), r.prefixlen)
    return "other:" + type(r).__name__


def _tf(b):
    return "T" if b is True else "F" if b is False else "other:" + type(b).__name__


def _extra(o, fam):
    s = [str(int(o.ipv4 if fam == 4 else o.ipv6)), _p(lambda: str(int(o._ip))), str(o.masklen), str(o.masklength), str(o.prefixlength),
         wire.enc_nats(list(o.packed)), _p(lambda: str(o.network_offset)), str(o.max_int), str(int(o.inverse_netmask)),
         str(o.version), _p(lambda: str(o.as_int if fam == 4 else o.as_int()))]
    if fam == 6:
        s.append(_tf(o.is_ipv4_mapped))
        for name in ("broadcast", "as_decimal_broadcast", "teredo", "sixtofour"):
            s.append(_p(lambda name=name: "value:" + str(getattr(o, name))))
    # compared with the stdlib by the oracle only (classification tables of `ipaddress` are not modelled)
    tail = [_tf(o.is_multicast), _tf(o.is_private), _tf(o.is_reserved)]
    if fam == 6:
        tail += [_tf(o.is_link_local), _tf(o.is_site_local), _tf(o.is_unspecified)]
    return "ok|" + "|".join(s) + "|#|" + "|".join(tail)


def impl_extra(case):
    from ciscoconfparse2.ccp_util import IPv4Obj, IPv6Obj, _get_ipv4, _get_ipv6, ip_factory, check_valid_ipaddress
    op, arg = case["op"], case["arg"]
    try:
        if op in ("get4", "get6"):
            return _show_ret((_get_ipv4 if op == "get4" else _get_ipv6)(val=arg, stdlib=case["stdlib"]))
        if op == "fac":
            return _show_ret(ip_factory(val=arg, stdlib=case["stdlib"], mode=case["mode"]))
        if op == "chk":
            r = check_valid_ipaddress(arg)
            return "ok|" + wire.enc_str(r[0]) + "|" + str(r[1])
        if op == "guard":
            ok_val = "::1" if case["fn"] == "get6" or case.get("mode") == "ipv6" else "1.2.3.4"
            f = case["flags"]
            kw = {"val": ok_val if f[0] else 1.5, "stdlib": False if f[2] else 0, "debug": 0 if f[3] else "x"}
            if case["fn"] == "chk":
                check_valid_ipaddress("1.2.3.4" if f[0] else {"int": 16909060, "none": None, "bytes": b"1.2.3.4", "float": 1.5}[case["mode"]])
            elif case["fn"] == "fac":
                kw["mode"] = case["mode"]
                ip_factory(**kw)
            else:
                kw["strict"] = False if f[1] else "x"
                (_get_ipv4 if case["fn"] == "get4" else _get_ipv6)(**kw)
            return "pass"
        if op == "ctor":
            cls, other = (IPv4Obj, IPv6Obj) if case["fam"] == 4 else (IPv6Obj, IPv4Obj)
            tag = case["tag"]
            if tag == "baddebug":
                o = cls("1.2.3.4" if case["fam"] == 4 else "::1", debug="x")
            else:
                o = cls({"none": None, "float": 1.5, "bytes": b"1.2.3.4", "list": ["1.2.3.4"], "tuple": ("::1",),
                         "otherobj": other("::1" if case["fam"] == 4 else "1.2.3.4")}[tag])
            return "empty" if o.empty is True and o.ip_object is None and o.network_object is None else "built:" + repr(o)
        fam = int(op[1])
        return _extra((IPv4Obj if fam == 4 else IPv6Obj)(arg), fam)
    except Exception as e:  # noqa: BLE001  the class name is the answer
        return "err:" + type(e).__name__


def compare(case, impl_ans, model_ans):
    if case["op"] in ("v4x", "v6x"):
        return impl_ans.split("|#|")[0] == model_ans
    return impl_ans == model_ans


def impl(case):
    quiet_ccp()
    from ciscoconfparse2.ccp_util import IPv4Obj, IPv6Obj
    op, arg = case["op"], case["arg"]
    if op in ("get4", "get6", "fac", "chk", "guard", "ctor", "v4x", "v6x"):
        return impl_extra(case)
    cls, show = (IPv4Obj, _show4) if op.startswith("v4") else (IPv6Obj, _show6)
    try:
        if op.endswith("i"):
            o = cls(int(arg))
        elif op.endswith("c"):
            o = cls(cls(arg))
        else:
            o = cls(arg)
    except Exception as e:  # noqa: BLE001  the class name is the answer
        return "err:" + type(e).__name__
    return show(o)


# ------------------------------------------------------------------ oracle: the real `ipaddress` module
def expect4(ip, ln):
    s = wire.enc_str
    i = ipaddress.IPv4Interface((ip, ln))
    n = i.network
    hosts = n.num_addresses - 2 if ln <= 30 else n.num_addresses
    zp = ".".join("%03d" % b for b in i.ip.packed)
    zpn = ".".join("%03d" % b for b in n.network_address.packed) + "/" + str(ln)
    return {
        "ip": str(int(i.ip)), "network": str(int(n.network_address)), "prefixlen": str(ln),
        "netmask": str(int(n.netmask)), "hostmask": str(int(n.hostmask)), "broadcast": str(int(n.broadcast_address)),
        "as_decimal": str(int(i.ip)), "as_decimal_network": str(int(n.network_address)),
        "as_decimal_broadcast": str(int(n.broadcast_address)), "numhosts": str(hosts),
        "str(ip)": s(str(i.ip)), "as_cidr_addr": s(i.with_prefixlen), "as_cidr_net": s(n.with_prefixlen),
        "as_zeropadded": s(zp), "as_zeropadded_network": s(zpn), "as_hex": s(hex(int(i.ip))),
        "as_hex_tuple": wire.enc_strs(["%02x" % b for b in i.ip.packed]),
        "as_binary_tuple": wire.enc_strs([format(b, "08b") for b in i.ip.packed]),
        "exploded": s(i.ip.exploded),
    }


def expect6(ip, ln):
    s = wire.enc_str
    i = ipaddress.IPv6Interface((ip, ln))
    n = i.network
    hosts = n.num_addresses - 2 if ln <= 126 else n.num_addresses
    groups = i.ip.exploded.split(":")
    return {
        "ip": str(int(i.ip)), "network": str(int(n.network_address)), "prefixlen": str(ln),
        "netmask": str(int(n.netmask)), "hostmask": str(int(n.hostmask)),
        "as_decimal": str(int(i.ip)), "as_decimal_network": str(int(n.network_address)),
        "as_decimal_network_maxint": str(int(n.broadcast_address)), "numhosts": str(hosts),
        "str(ip)": s(str(i.ip)), "as_cidr_addr": s(i.with_prefixlen), "as_cidr_net": s(n.with_prefixlen),
        "as_hex": s(hex(int(i.ip))), "as_hex_tuple": wire.enc_strs(groups),
        "as_binary_tuple": wire.enc_strs([format(int(g, 16), "016b") for g in groups]),
        "exploded": s(i.ip.exploded), "compressed": s(n.compressed),
    }


# --- the Spec-level reading of the renderings (Ccp.Spec.IP: IsFixed / IsShortest / IsRfc5952), written from the
# definitions, not from format strings: width, digits, value
DIGITS = "0123456789abcdef"


def is_fixed(text, base, width, value):
    digs = DIGITS[:base]
    return (len(text) == width and all(c in digs for c in text)
            and sum(digs.index(c) * base ** i for i, c in enumerate(reversed(text))) == value)


def is_shortest(text, base, value):
    return text != "" and (text[0] != "0" or text == "0") and is_fixed(text, base, len(text), value)


def rfc5952(n):
    """the RFC 5952 text of n by the quantifiers of Spec.IP.IsShortened (leftmost longest run of >= 2 zero groups)"""
    gs = [(n >> s) & 0xFFFF for s in range(112, -1, -16)]
    short = lambda g: ("%04x" % g).lstrip("0") or "0"  # noqa: E731
    runs = [(s, k) for s in range(8) for k in range(2, 9 - s) if all(gs[i] == 0 for i in range(s, s + k))]
    best = [(s, k) for (s, k) in runs if all(k2 < k or (k2 == k and s <= s2) for (s2, k2) in runs)]
    if not best:
        return ":".join(map(short, gs))
    (s, k), = best
    return ":".join(map(short, gs[:s])) + "::" + ":".join(map(short, gs[s + k:]))


def spec_reading(v4, ip, ln, got):
    """the theorems zeropadded_spec / hex_spec / hex_tuple_spec / binary_spec / strV6_canonical, checked on the
    implementation's answer"""
    fails = []
    w = 32 if v4 else 128
    net = ip & ~((1 << (w - ln)) - 1)

    def txt(name):
        v = got.get(name, "")
        return wire.dec_str(v) if v.startswith("s") and " " not in v else None

    def tup(name):
        v = got.get(name, "exc:")
        return None if v.startswith("exc:") else wire.dec_strs(v)

    def groups_ok(text, sep, base, width, values):
        parts = text.split(sep) if isinstance(text, str) else text
        return len(parts) == len(values) and all(is_fixed(p, base, width, v) for p, v in zip(parts, values))

    h = txt("as_hex")
    if h is None or not h.startswith("0x") or not is_shortest(h[2:], 16, ip):
        fails.append(f"as_hex {h!r} is not '0x' + the shortest lower-case hex writing of {ip}")
    if v4:
        octs = lambda n: [(n >> s) & 255 for s in (24, 16, 8, 0)]  # noqa: E731
        z = txt("as_zeropadded")
        if z is None or not groups_ok(z, ".", 10, 3, octs(ip)):
            fails.append(f"as_zeropadded {z!r} is not four 3-digit decimal groups with the octets of {ip} as values")
        zn = txt("as_zeropadded_network")
        if zn is None or zn.count("/") != 1 or not groups_ok(zn.split("/")[0], ".", 10, 3, octs(net)) \
                or not is_shortest(zn.split("/")[1], 10, ln):
            fails.append(f"as_zeropadded_network {zn!r} is not the zero-padded network address of {ip}/{ln} + '/len'")
        ht = tup("as_hex_tuple")
        if ht is None or not groups_ok(ht, None, 16, 2, octs(ip)):
            fails.append(f"as_hex_tuple {ht!r}: not four 2-digit hex texts with the octets of {ip} as values")
        bt = tup("as_binary_tuple")
        if bt is None or not groups_ok(bt, None, 2, 8, octs(ip)):
            fails.append(f"as_binary_tuple {bt!r}: not four 8-digit binary texts with the octets of {ip} as values")
    else:
        grps = lambda n: [(n >> s) & 0xFFFF for s in range(112, -1, -16)]  # noqa: E731
        ht = tup("as_hex_tuple")
        if ht is None or not groups_ok(ht, None, 16, 4, grps(ip)):
            fails.append(f"as_hex_tuple {ht!r}: not eight 4-digit hex texts with the groups of {ip} as values")
        bt = tup("as_binary_tuple")
        if bt is None or not groups_ok(bt, None, 2, 16, grps(ip)):
            fails.append(f"as_binary_tuple {bt!r}: not eight 16-digit binary texts with the groups of {ip} as values")
        for name, val in (("str(ip)", rfc5952(ip)), ("as_cidr_addr", rfc5952(ip) + "/" + str(ln)),
                          ("as_cidr_net", rfc5952(net) + "/" + str(ln)), ("compressed", rfc5952(net) + "/" + str(ln))):
            if txt(name) != val:
                fails.append(f"{name} {txt(name)!r} is not the RFC 5952 text {val!r}")
    return fails


def stdlib_reading(op, text):
    """(ip, len) the standard library gives to the text in the spelling conventions of the property
    (surrounding blanks ignored, one run of blanks may stand for the slash), or None."""
    t = text.strip()
    toks = t.split()
    if len(toks) == 2:
        t = "/".join(toks)
    elif len(toks) != 1:
        return None
    try:
        i = ipaddress.IPv4Interface(t) if op.startswith("v4") else ipaddress.IPv6Interface(t)
    except ValueError:
        return None
    if getattr(i, "scope_id", None):
        return None
    return int(i.ip), i.network.prefixlen


def oracle(case, ans):
    op = case["op"]
    if op in ("get4", "get6", "fac", "chk", "guard", "ctor", "v4x", "v6x"):
        return oracle_extra(case, ans)
    v4 = op.startswith("v4")
    truth = case["truth"]
    if op.endswith("i"):
        n = int(case["arg"])
        valid = 0 <= n <= (V4MAX if v4 else V6MAX)
        want = (n, 32 if v4 else 128) if valid else None
        if not valid:
            return [] if ans.startswith("err:") else [f"integer {n} outside the address space accepted"]
    else:
        want = stdlib_reading(op, case["arg"])
        if truth is not None and (want is None or list(want) != list(truth)):
            return [f"oracle-exc:generator truth {truth} differs from the stdlib reading {want} of {case['arg']!r}"]
        if want is None:
            # not an address for the standard library: must be rejected, never coerced into some address
            return [] if ans.startswith("err:") else [f"invalid text {case['arg']!r} accepted as {ans.split('|')[1:4]}"]
    if ans.startswith("err:"):
        if truth is not None:
            return [f"valid {op} input {case['arg']!r} (= {truth}) rejected with {ans}"]
        return []   # a text the stdlib can read but the class does not list among its forms: rejecting is allowed
    return judge_values(v4, want, ans, case["arg"])


def judge_values(v4, want, ans, arg):
    """every derived value of an accepted object against the real `ipaddress` and the Spec-level reading"""
    if not ans.startswith("ok|"):
        return [f"{arg!r} did not give an address object but {ans[:60]}"]
    exp = (expect4 if v4 else expect6)(*want)
    got = ans.split("|")[1:]
    fails = []
    for (name, e), g in zip(exp.items(), got):
        if e != g:
            show = lambda x: wire.dec_str(x) if x.startswith("s") and " " not in x else x  # noqa: E731
            fails.append(f"{name}: {show(g)!r} but ipaddress gives {show(e)!r} for {arg!r}")
    if len(got) != len(exp):
        fails.append("oracle-exc:field count")
    fails += spec_reading(v4, want[0], want[1], dict(zip(exp.keys(), got)))
    return fails[:3]


def exact_reading(fam, arg):
    """(ip, len) the standard library itself gives to the value (a str as it is: no stripping, no blank for the slash; or an
    int), or None - the factories hand the value to IPv4Network / IPv6Network first"""
    try:
        i = ipaddress.IPv4Interface(arg) if fam == 4 else ipaddress.IPv6Interface(arg)
    except (ValueError, TypeError):
        return None
    if getattr(i, "scope_id", None):
        return None
    return int(i.ip), i.network.prefixlen


def oracle_get(fam, arg, stdlib, truth, ans, what):
    want = exact_reading(fam, arg)
    if truth is not None and (want is None or list(want) != list(truth)):
        return [f"oracle-exc:generator truth {truth} differs from the stdlib reading {want} of {arg!r}"]
    if want is None:
        return [] if ans.startswith("err:") else [f"{what}: {arg!r} is not an IPv{fam} address for the standard library but gave {ans[:60]}"]
    if ans.startswith("err:"):
        return [f"{what}: valid IPv{fam} input {arg!r} (= {truth}) rejected with {ans}"] if truth is not None else []
    if not stdlib:
        head = ans.split("|")[0]
        if head != "ok":
            return [f"{what}: stdlib=False returned {head} instead of an address object"]
        return judge_values(fam == 4, want, ans, arg)
    w = 32 if fam == 4 else 128
    ip, ln = want
    net = ip >> (w - ln) << (w - ln)
    exp = f"addr{fam}|{ip}" if ln == w else f"net{fam}|{net}/{ln}"
    return [] if ans == exp else [f"{what}: stdlib=True returned {ans[:80]}, expected {exp} (the stdlib address of a host route, else the network)"]


def oracle_chk(case, ans):
    arg, truth = case["arg"], case["truth"]
    r4, r6 = stdlib_reading("v4s", arg), stdlib_reading("v6s", arg)
    if truth is not None:
        fam, ip, ln = truth
        r = r4 if fam == 4 else r6
        if r is None or list(r) != [ip, ln]:
            return [f"oracle-exc:generator truth {truth} differs from the stdlib reading {r} of {arg!r}"]
        exp = "ok|" + wire.enc_str(arg.strip()) + "|" + str(fam)
        if ans == exp:
            return []
        if ans.startswith("err:"):
            return [f"check_valid_ipaddress rejects the valid IPv{fam} address {arg!r} (= {ip}/{ln}) with {ans}"]
        return [f"check_valid_ipaddress({arg!r}) gives {ans[:80]}, expected the stripped text and family {fam}"]
    if r4 is None and r6 is None:
        return [] if ans.startswith("err:") else [f"check_valid_ipaddress accepts {arg!r}, which is no address: {ans[:60]}"]
    if ans.startswith("err:"):
        return []       # readable by the stdlib but not among the forms of the classes: rejecting is allowed
    fam = ans.split("|")[-1]
    if (fam == "4" and r4 is None) or (fam == "6" and r6 is None) or fam not in ("4", "6"):
        return [f"check_valid_ipaddress({arg!r}) reports family {fam}, the standard library reads it as {'IPv4' if r4 else 'IPv6'}"]
    return []


V_MAX = {4: V4MAX, 6: V6MAX}


def oracle_x(case, ans):
    fam = int(case["op"][1])
    w = 32 if fam == 4 else 128
    truth, arg = case["truth"], case["arg"]
    want = stdlib_reading("v%ds" % fam, arg)
    if truth is not None and (want is None or list(want) != list(truth)):
        return [f"oracle-exc:generator truth {truth} differs from the stdlib reading {want} of {arg!r}"]
    if want is None:
        return [] if ans.startswith("err:") else [f"invalid text {arg!r} accepted: {ans[:60]}"]
    if ans.startswith("err:"):
        return [f"valid input {arg!r} (= {truth}) rejected with {ans}"] if truth is not None else []
    ip, ln = want
    body, _, tail = ans.partition("|#|")
    f = body.split("|")[1:]
    net = (ipaddress.IPv4Network if fam == 4 else ipaddress.IPv6Network)((ip, ln), strict=False)
    addr = ipaddress.ip_address(ip) if fam == 4 else ipaddress.IPv6Address(ip)
    exp = {"ipv%d" % fam: str(ip), "_ip": str(ip), "masklen": str(ln), "masklength": str(ln), "prefixlength": str(ln),
           "packed": wire.enc_nats(list(addr.packed)), "network_offset": str(ip - int(net.network_address)),
           "max_int": str(V_MAX[fam]), "inverse_netmask": str(int(net.hostmask)), "version": str(fam), "as_int": str(ip)}
    fails = []
    for (name, e), g in zip(exp.items(), f):
        if name == "network_offset" and g.startswith("exc:"):
            continue        # C13's business: the getter raises on the last address of a block of four or more
        if e != g:
            fails.append(f"{name} of {arg!r} is {g}, the standard library says {e}")
    if len(f) < len(exp):
        fails.append("oracle-exc:field count")
    names = ["is_multicast", "is_private", "is_reserved"] + (["is_link_local", "is_site_local", "is_unspecified"] if fam == 6 else [])
    for name, g in zip(names, tail.split("|")):
        e = _tf(getattr(net, name))
        if e != g:
            fails.append(f"{name} of {arg!r} is {g}, ipaddress says {e} for the network {net}")
    if fam == 6:
        e = _tf(addr.ipv4_mapped is not None)
        if f[len(exp)] != e:
            fails.append(f"is_ipv4_mapped of {arg!r} is {f[len(exp)]}, ipaddress says {e}")
    return fails[:3]


def oracle_extra(case, ans):
    op = case["op"]
    if op in ("get4", "get6"):
        return oracle_get(int(op[3]), case["arg"], case["stdlib"], case["truth"], ans, "_get_ipv%s" % op[3])
    if op == "fac":
        mode, arg = case["mode"], case["arg"]
        if mode == "auto_detect":
            if not isinstance(arg, str):
                return []       # an integer has no family: the property is silent (the code refuses it)
            fam = 6 if ":" in arg else 4
        elif mode in ("ipv4", "ipv6"):
            fam = int(mode[3])
        else:
            return [] if ans.startswith("err:") else [f"ip_factory accepted mode {mode!r}: {ans[:60]}"]
        return oracle_get(fam, arg, case["stdlib"], case["truth"], ans, f"ip_factory(mode={mode!r})")
    if op == "chk":
        return oracle_chk(case, ans)
    if op == "guard":
        good = all(case["flags"][i] for i in ((0,) if case["fn"] == "chk" else (0, 2, 3) if case["fn"] == "fac" else (0, 1, 2, 3))) and \
            (case["fn"] != "fac" or case["mode"] in ("auto_detect", "ipv4", "ipv6"))
        if good:
            return [] if ans == "pass" else [f"{case['fn']} with well-typed arguments raised {ans}"]
        return [] if ans.startswith("err:") else [f"{case['fn']} accepted ill-typed arguments {case['flags']} mode={case['mode']!r}"]
    if op == "ctor":
        if case["tag"] == "none":
            return []       # the empty object: the property is about addresses
        return [] if ans.startswith("err:") else [f"IPv{case['fam']}Obj accepted a {case['tag']} argument: {ans[:60]}"]
    return oracle_x(case, ans)
