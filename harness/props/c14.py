"""C14 — integer range strings expand to the denoted set and compress back canonically."""
import itertools
import re

import wire
from props.common import quiet_ccp

ID = "C14"
LEAN_MODULES = ["Ccp.Props.C14", "Ccp.Props.RxC14"]
RULE = ("texts: every subset of {0..11} as a shuffled comma list (quick and thorough: exhaustive, 4096), "
        "random lists of singles/intervals over 0..70000 in any order with overlaps, duplicates, blanks around "
        "numbers and hyphens, descending intervals, plus a malformed stream (',,', 'a-b-c', letters, empty parts); "
        "each followed by a random sequence of read accessors (len/iter/list/set/cstr/has) and append/remove calls. "
        "non-trivial = at least one interval of width>=2 or an append/remove, distinct by request line. "
        "int hashing is not affected by PYTHONHASHSEED, so hash seeds are not varied; '_' digit separators and "
        "non-ASCII digits (accepted by int()) are not generated.")
LEVEL_TEXT = ("Theorems (Lean 4, all inputs, no bound on size or magnitude): accepted range texts expand to exactly the union of "
              "their closed intervals, strictly ascending (parse_denotes); append/remove are sorted-set insert/delete raising exactly on "
              "duplicate/absent; ordered views equal the state; for every strictly ascending S the index loop of as_compressed_str "
              "(3-element window, de-duplicated '-' markers, type-switch comma logic) writes exactly renderRuns (runs S): the maximal "
              "runs as a / a,b / a-b joined by ',' (compress_canonical), the runs being well formed, covering exactly S in order and "
              "pairwise separated by a gap (runs_canonical); the compressed string is accepted by the parser and expands to S again at "
              "the character level, using int(str(n)) = n, split/join and strip lemmas (expand_compress, parse_compress_idem, "
              "compress_injective); any blank-free list of parts lo / lo-hi joined by ',' parses to the sorted union of its parts "
              "(parse_written_parts); every read accessor, any sequence of them, and a failed append/remove leave the state unchanged "
              "(readers_pure, readers_pure_seq, failed_mutation_pure, stated about the model function stepOp that the driver executes). "
              "The model is tied to CiscoRange(result_type=int) by differential runs on every check "
              "(all 4096 subsets of 0..11 plus random interval lists and accessor/mutator sequences).")
LEVEL_NOTE = ("Trusted: Lean kernel; axioms propext/Classical.choice/Quot.sound only; the correspondence harness; model of int() "
              "restricted to ASCII digits, sign and surrounding whitespace. Proved about the model, measured against the code. "
              "readers_pure is a statement about the model's step function (reads return `data` unchanged by construction); that the "
              "real accessors do not mutate is measured by the correspondence (state re-read after every accessor sequence), not proved.")
LEVEL_NOTE += (" " + "regexes_as_modelled (Ccp.RxC14): the literal separators of CiscoRange.__init__ + parse_integers and the helpers they reach (',,' test, split(','), '-' test, split('-'), the digit filter) are re-read from /repo's AST on every run and proved equal to the ones Model/Range.lean hard-wires (and no regex call has appeared).")
LEVEL_NOTE += (" Scan sets as revised: regexes_as_modelled ties the regex-engine calls with the pattern in canonical form (canonical verbose form without the flag, group names and redundant escapes removed, per-value specialisation of a pattern passed to a same-file helper or built from a name that ranges over a constant collection, always-true searches left out), flags, re.sub replacements and the separator arguments of str.split/join/replace/strip; the literal tests (\"lit\" in x, == against string literals and their subscripts, startswith) are informational definitions Gen.rx...Info, no theorem is about them.")
EXHAUSTIVE = {"quick": False, "thorough": False}
ASSUMPTIONS = [
    "model int() = optional surrounding whitespace, optional sign, ASCII digits",
    "members are natural numbers (a part containing '-' is split on it, so no negative value can be written)",
]
TRUSTED = ["CiscoRange(result_type=int) only; interface ranges are C15"]

READS = ["len", "iter", "list", "set", "cstr", "rexp"]


def mk(text, ops, origin="gen"):
    return {"text": text, "ops": ops, "req": wire.req("range", wire.enc_str(text), *ops), "_origin": origin}


def from_corpus(c):
    return mk(c["text"], c["ops"], "corpus")


def _rand_text(rng, big=False):
    parts = []
    for _ in range(rng.choice([1, 1, 2, 3, 4, 6, 9])):
        base = rng.choice([0, 1, 5, 9, 10, 99, 100, 4094, 65535, 69990]) if rng.random() < 0.5 else rng.randint(0, 70000)
        kind = rng.random()
        sp = lambda: rng.choice(["", "", "", " ", "  ", "\t"])  # noqa: E731
        if kind < 0.45:
            parts.append(f"{sp()}{base}{sp()}")
        else:
            width = rng.choice([0, 1, 2, 3, 5, 17]) if not big else rng.choice([2, 300, 3000, 20000])
            lo, hi = base, min(70000, base + width)
            if rng.random() < 0.08:
                lo, hi = hi, lo
            parts.append(f"{sp()}{lo}{sp()}-{sp()}{hi}{sp()}")
    if rng.random() < 0.3 and parts:
        parts.append(rng.choice(parts))
    rng.shuffle(parts)
    return ",".join(parts)


MALFORMED = ["", " ", ",", "1,,2", "1-2-3", "a", "1-", "-1", "1 2", "1,", ",1", "1-a", "3-+5", "+3", "1--2", "0x10", "1.5", "7-7", "9-3"]


def _rand_ops(rng, text):
    nums = [int(x) for x in re.findall(r"\d+", text)] or [0]
    ops = []
    for _ in range(rng.choice([1, 2, 3, 5, 8])):
        r = rng.random()
        if r < 0.5:
            ops.append(rng.choice(READS))
        else:
            n = rng.choice(nums) + rng.choice([-1, 0, 0, 1, 2])
            n = max(0, n)
            ops.append(rng.choice(["has", "app", "rem"]) + ":" + str(n))
    ops.append("iter")
    ops.append("cstr")
    return ops


def cases(rng, tier):
    if tier != "search":
        for bits in range(4096):
            members = [i for i in range(12) if bits >> i & 1]
            rng.shuffle(members)
            yield mk(",".join(map(str, members)), ["iter", "cstr", "rexp", "len"])
        for t in MALFORMED:
            yield mk(t, ["iter", "cstr"])
    n = {"quick": 1500, "thorough": 60000, "search": 3000}[tier]
    for i in range(n):
        t = _rand_text(rng, big=(tier == "thorough" and i % 500 == 0))
        if rng.random() < 0.05:
            t = rng.choice(MALFORMED) + rng.choice(["", ",", ",3"]) + (t if rng.random() < 0.5 else "")
        yield mk(t, _rand_ops(rng, t))


def neighbours(case, rng):
    t = case["text"]
    for _ in range(300):
        s = list(t)
        if s and rng.random() < 0.5:
            del s[rng.randrange(len(s))]
        else:
            s.insert(rng.randrange(len(s) + 1), rng.choice("0123456789,- "))
        yield mk("".join(s), case["ops"])


def nontrivial(case):
    return bool(re.search(r"\d\s*-\s*\d", case["text"])) or any(o[:3] in ("app", "rem") for o in case["ops"])


def describe(case):
    return {"text": case["text"], "ops": case["ops"]}


def buckets(case, ans):
    out = ["answer:" + (ans.split("|")[0] if not ans.startswith("err") else ans)]
    out.append("parts:%d" % min(9, case["text"].count(",") + 1))
    for o in case["ops"]:
        out.append("op:" + o.split(":")[0])
    return out


# ------------------------------------------------------------------ implementation
def impl(case):
    quiet_ccp()
    from ciscoconfparse2.ccp_util import CiscoRange
    from ciscoconfparse2.errors import InvalidCiscoRange, DuplicateMember
    try:
        obj = CiscoRange(case["text"], result_type=int)
    except InvalidCiscoRange:
        return "err:InvalidCiscoRange"
    except ValueError:
        return "err:ValueError"
    out = ["ok"]
    for op in case["ops"]:
        name, _, arg = op.partition(":")
        if name == "len":
            out.append(str(len(obj)))
        elif name == "iter":
            out.append(wire.enc_nats(list(iter(obj))))
        elif name == "list":
            out.append(wire.enc_nats(list(obj.as_list())))
        elif name == "set":
            out.append(wire.enc_nats(sorted(obj.as_set())))
        elif name == "cstr":
            out.append(wire.enc_str(obj.as_compressed_str()))
        elif name == "rexp":
            try:
                out.append(wire.enc_nats(list(CiscoRange(obj.as_compressed_str(), result_type=int))))
            except (InvalidCiscoRange, ValueError) as e:
                out.append("err:" + type(e).__name__)
        elif name == "has":
            out.append("T" if int(arg) in obj else "F")
        elif name == "app":
            try:
                obj.append(int(arg))
                out.append("ok")
            except DuplicateMember:
                out.append("err:DuplicateMember")
        elif name == "rem":
            try:
                obj.remove(int(arg))
                out.append("ok")
            except Exception:  # absent member: the class differs by path (InvalidMember, MismatchedType, UnboundLocalError)
                out.append("err:absent")
        else:
            raise AssertionError(op)
    return "|".join(out)


# ------------------------------------------------------------------ oracle (independent of the Lean model)
WELL = re.compile(r"^\s*\d+\s*(-\s*\d+\s*)?$")


def ref_denote(text):
    """None when the text is outside the property's grammar."""
    if text == "":
        return set()
    members = set()
    for part in text.split(","):
        if not WELL.match(part):
            return None
        nums = [int(x) for x in re.findall(r"\d+", part)]
        if len(nums) == 1:
            members.add(nums[0])
        else:
            members.update(range(nums[0], nums[1] + 1))
    return members


def ref_compress(members):
    xs = sorted(members)
    runs = []
    for x in xs:
        if runs and x == runs[-1][1] + 1:
            runs[-1][1] = x
        else:
            runs.append([x, x])
    out = []
    for a, b in runs:
        if a == b:
            out.append(str(a))
        elif b == a + 1:
            out += [str(a), str(b)]
        else:
            out.append(f"{a}-{b}")
    return ",".join(out)


def oracle(case, ans):
    want = ref_denote(case["text"])
    if want is None:
        return []
    if ans.startswith("err"):
        return [f"well-formed range text rejected with {ans}"]
    fields = ans.split("|")[1:]
    fails = []
    cur = set(want)
    for op, got in zip(case["ops"], fields):
        name, _, arg = op.partition(":")
        if name == "len" and int(got) != len(cur):
            fails.append(f"len {got} != {len(cur)}")
        elif name in ("iter", "list", "set"):
            exp = wire.enc_nats(sorted(cur))
            if got != exp:
                fails.append(f"{name} view is {got[:80]} expected ascending {exp[:80]}")
        elif name == "cstr":
            exp = ref_compress(cur)
            s = wire.dec_str(got)
            if s != exp:
                fails.append(f"compressed string {s[:80]!r} expected canonical {exp[:80]!r}")
            elif ref_denote(s) != cur:
                fails.append("compressed string does not denote the same set")
        elif name == "rexp":
            if got != wire.enc_nats(sorted(cur)):
                fails.append(f"re-expanding the compressed string gives {got[:80]}")
        elif name == "has" and (got == "T") != (int(arg) in cur):
            fails.append(f"membership of {arg} is {got}")
        elif name == "app":
            if int(arg) in cur:
                if got == "ok":
                    fails.append(f"append of duplicate {arg} did not raise")
            else:
                if got != "ok":
                    fails.append(f"append of new member {arg} raised {got}")
                cur.add(int(arg))
        elif name == "rem":
            if int(arg) in cur:
                if got != "ok":
                    fails.append(f"remove of member {arg} raised")
                cur.discard(int(arg))
            elif got == "ok":
                fails.append(f"remove of absent {arg} did not raise")
    return fails[:3]
